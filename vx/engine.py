#!/usr/bin/env python3
"""Verus engine: annotated scratch copy -> verifier run -> obligations, failures, attribution.

A *failure* is one error diagnostic of Verus, identified by a key that contains no line numbers:
    verus|<file>|<function>|<kind>|<site snippet>|<clause tag or snippet>
Attribution to properties: the `// @Cxx:label` tags on the failed clause (post-condition / invariant / callee
pre-condition) if any, else the defaults of props.DEFAULTS for (file, function, kind).
"""
import os, re, sys, json, time, shutil, tempfile, subprocess

HERE = os.path.dirname(os.path.abspath(__file__))
VERIF = os.path.dirname(HERE)
sys.path.insert(0, HERE)
sys.path.insert(0, os.path.join(VERIF, 'contracts'))
import xf, run_verus
import props as P

TAG = re.compile(r'//\s*@((?:C\d+(?::[\w\-\.]+)?(?:,\s*)?)+)')

def norm(s):
    return re.sub(r'\s+', ' ', s.strip())[:160]

class Failure:
    def __init__(self):
        self.key = ''
        self.file = ''
        self.fn = ''
        self.kind = ''
        self.site = ''
        self.clause = ''
        self.tags = []      # [(prop, label)]
        self.props = set()
        self.rendered = ''
        self.macro_call = ''

    def to_json(self):
        return {'key': self.key, 'file': self.file, 'function': self.fn, 'kind': self.kind, 'site': self.site,
                'clause': self.clause, 'tags': ['%s:%s' % t for t in self.tags], 'properties': sorted(self.props),
                'verifier_output': self.rendered}

def span_lines(crate, sp):
    """source lines (scratch text) covered by a span"""
    fn = sp['file_name']
    if not fn.startswith('src/'):
        return []
    rel = fn[4:]
    try:
        lines = crate.rd(rel).split('\n')
    except Exception:
        return []
    return lines[sp['line_start'] - 1:sp['line_end']]

def tags_of(crate, sp):
    out = []
    for ln in span_lines(crate, sp):
        m = TAG.search(ln)
        if m:
            for t in re.split(r',\s*', m.group(1)):
                if ':' in t:
                    p, l = t.split(':', 1)
                else:
                    p, l = t, ''
                out.append((p, l))
    return out

def macro_callsite(sp):
    e = sp.get('expansion')
    last = None
    while e:
        last = e.get('span')
        e = last.get('expansion') if last else None
    if last and last.get('text'):
        return norm(' '.join(t['text'] for t in last['text'][:2]))
    return ''

def classify(crate, d, fnidx_cache):
    f = Failure()
    f.rendered = d.get('rendered', '')
    msg = d['message']
    spans = d['spans']
    prim = [s for s in spans if s.get('is_primary')]
    sec = [s for s in spans if not s.get('is_primary')]
    site = None
    clause = None
    if msg.startswith('postcondition not satisfied'):
        clause = prim[0] if prim else None
        site = sec[0] if sec else None
        f.kind = 'postcondition'
    elif msg.startswith('precondition not'):
        site = prim[0] if prim else None
        clause = sec[0] if sec else None
        f.kind = 'precondition'
        if 'index in bounds' in msg:
            f.kind = 'index'
    elif 'invariant not satisfied' in msg:
        site = prim[0] if prim else None
        clause = site
        f.kind = 'invariant:' + ('entry' if 'before loop' in msg else 'preserved')
    elif 'decreases not satisfied' in msg:
        site = prim[0] if prim else None
        f.kind = 'termination'
    elif 'arithmetic underflow/overflow' in msg:
        site = prim[0] if prim else None
        f.kind = 'overflow'
    elif 'assertion failed' in msg or 'assertion not satisfied' in msg:
        site = prim[0] if prim else None
        clause = site
        f.kind = 'assert'
    elif 'Resource limit' in msg or 'rlimit' in msg:
        site = prim[0] if prim else None
        f.kind = 'rlimit'
    elif 'loop ensures' in msg or 'loop invariant' in msg:
        site = prim[0] if prim else None
        clause = site
        f.kind = 'invariant:' + norm(msg)[:30]
    else:
        site = prim[0] if prim else (spans[0] if spans else None)
        f.kind = 'other:' + norm(msg)[:50]
    # tags: clause first, then any span
    if clause is not None:
        f.tags = tags_of(crate, clause)
        if clause.get('text'):
            f.clause = norm(' '.join(t['text'] for t in clause['text'][:3]))
        elif not clause['file_name'].startswith('src/'):
            f.clause = clause['file_name'] + ':' + str(clause['line_start'])
    if not f.tags:
        for s in spans:
            f.tags += tags_of(crate, s)
    f.clause = TAG.sub('', f.clause).strip()
    if site is not None:
        f.file = site['file_name']
        if site.get('text'):
            f.site = norm(site['text'][0]['text'])
        f.macro_call = macro_callsite(site)
        if f.file.startswith('src/'):
            rel = f.file[4:]
            if rel not in fnidx_cache:
                fnidx_cache[rel] = crate.fn_index(rel)
            ln = site['line_start']
            cands = [x for x in fnidx_cache[rel] if x[0] <= ln <= x[1]]
            if cands:
                l0, l1, ctx, name = min(cands, key=lambda x: x[1] - x[0])
                f.fn = ('%s::%s' % (xf.short_ctx(ctx), name)) if ctx else name
    if f.macro_call:
        f.fn += ' [%s]' % f.macro_call
    lab = ','.join('%s:%s' % t for t in f.tags) or f.clause
    f.key = '|'.join(['verus', f.file.replace('src/', ''), f.fn, f.kind, f.site if f.kind != 'postcondition' else '', lab])
    f.props = set(p for p, _ in f.tags) | P.default_props(f.file.replace('src/', ''), f.fn, f.kind)
    if not f.props:
        f.props = P.fallback_props(f.file.replace('src/', ''))
    return f

def air_obligations(log_dir):
    """assert statements per function in the AIR logs (one section per `;; Function-Def path`)"""
    per_fn = {}
    if not os.path.isdir(log_dir):
        return per_fn
    for fn in os.listdir(log_dir):
        if not fn.endswith('.air'):
            continue
        cur = None
        for line in open(os.path.join(log_dir, fn), errors='replace'):
            if line.startswith(';; Function-Def '):
                cur = line.strip()[len(';; Function-Def '):]
                per_fn.setdefault(cur, 0)
            elif cur and '(assert' in line:
                per_fn[cur] += line.count('(assert')
    return per_fn

def trusted_scan(crate):
    """mechanical scan of the annotated crate for everything that is assumed rather than proved"""
    out = {'assume_specification': [], 'external_body': [], 'external': [], 'assume': [], 'admit': []}
    for rel in sorted(crate.cache.keys()):
        s = crate.rd(rel)
        cut = s.find('#[cfg(test)]\nmod tests')
        body = s
        if cut >= 0:
            # leave out the unit-test module only; contract blocks appended after it (verus!{..} at the end of the file) are scanned
            try:
                ob = s.index('{', cut)
                body = s[:cut] + s[xf.match_close(s, ob):]
            except (ValueError, xf.AnchorLost):
                body = s[:cut]
        for m in re.finditer(r'assume_specification(?:<[^\[]*>)?\s*\[((?:[^\[\]]|\[[^\]]*\])+)\]', body):
            out['assume_specification'].append('%s: %s' % (rel, norm(m.group(1))))
        for m in re.finditer(r'#\[verifier::external_body\]\s*\n\s*((?:pub(?:\([a-z]+\))?\s+)?(?:const\s+[A-Z_]+|(?:broadcast\s+)?(?:proof\s+)?fn\s+\w+|struct\s+\w+))', body):
            out['external_body'].append('%s: %s' % (rel, norm(m.group(1))))
        for m in re.finditer(r'#\[verifier::external\]\s*\n\s*((?:pub(?:\([a-z]+\))?\s+)?fn\s+\w+)', body):
            out['external'].append('%s: %s' % (rel, norm(m.group(1))))
        for m in re.finditer(r'\bassume\s*\(', body):
            out['assume'].append('%s: offset %d' % (rel, m.start()))
        for m in re.finditer(r'\badmit\s*\(', body):
            out['admit'].append('%s: offset %d' % (rel, m.start()))
    return out

def run(scratch, units=None, post=None, want_air=True, timeout=1800):
    """_run, plus one retry without the optional contract units (contracts/name.py: C17 label grammar / suffix algebra) when the
    annotated crate is rejected by the front end: an edit of one of *their* functions to something Verus does not support must
    not make every other property undecided.  The retry's result carries a `degraded` entry, which `check` turns into
    "undecided" for the property the units serve (C17) only."""
    res = _run(scratch, units, post, want_air, timeout)
    if (res['status'] == 'undecided' and not os.environ.get('VX_DISABLE_OPTIONAL')
            and ('front-end error' in res['reason'] or 'does not compile' in res['reason'])):
        os.environ['VX_DISABLE_OPTIONAL'] = '1'
        try:
            res2 = _run(os.path.join(scratch, 'noopt'), units, post, want_air, timeout)
        finally:
            del os.environ['VX_DISABLE_OPTIONAL']
        if res2['status'] == 'ok' or res2.get('crate') is not None and 'front-end error' not in res2['reason'] and 'does not compile' not in res2['reason']:
            first = re.sub(r'\s+', ' ', res['reason'])[:240]
            res2['degraded'] = list(res2.get('degraded', [])) + [('degraded', 'dns/name.rs', 'C17: optional units disabled after front-end rejection: ' + first)]
            res2['wall_s'] += res['wall_s']
            return res2
    return res

def _run(scratch, units=None, post=None, want_air=True, timeout=1800):
    """returns dict with status in {'ok','undecided'}; never raises for tool problems"""
    t0 = time.time()
    res = {'status': 'ok', 'reason': '', 'failures': [], 'obligations_per_fn': {}, 'wall_s': 0.0}
    try:
        crate = run_verus.build(scratch, units or run_verus.UNITS, post)
    except xf.AnchorLost as e:
        res.update(status='undecided', reason='anchor lost: %s' % e)
        return res
    log_dir = os.path.join(scratch, 'air') if want_air else None
    r = run_verus.run(crate, log_dir=log_dir, timeout=timeout)
    res['cmd'] = r.get('cmd')
    if r['status'] != 'done':
        res.update(status='undecided', reason='verus ' + r['status'])
        return res
    js = r['json']
    errs = [d for d in r['diags'] if d['level'] == 'error' and not d['message'].startswith('aborting due to')]
    if js is None or js.get('verification-results', {}).get('encountered-vir-error') or (js and not errs and not js['verification-results'].get('success')):
        txt = '\n'.join(d.get('rendered', '') for d in errs[:5]) + r.get('stderr_other', '')[-1500:]
        res.update(status='undecided', reason='verus front-end error / unsupported construct:\n' + txt[:3000])
        return res
    vr = js.get('verification-results', {})
    if errs and not vr.get('verified') and not vr.get('errors'):
        # rustc-level errors (type errors caused by a spliced contract no longer matching the code): nothing was verified
        txt = '\n'.join(d.get('rendered', '') for d in errs[:4])
        res.update(status='undecided', reason='annotated crate does not compile (contract no longer matches the code):\n' + txt[:3000])
        return res
    cache = {}
    limited = []
    for d in errs:
        f = classify(crate, d, cache)
        if f.kind == 'rlimit':
            limited.append(f)
            continue
        res['failures'].append(f)
    # a resource limit decides nothing: give each such function one more run on its own with 8x the budget.  It then either
    # verifies (decided), fails with a definite obligation (reported like any other failure) or stays undecided.
    res['rlimit_retries'] = []
    for f in limited[:4]:
        rel = f.file.replace('src/', '')
        mod = rel[:-3].replace('/', '::')
        mod = mod[:-5] if mod.endswith('::mod') else mod
        if rel == 'dns/rdata/macros.rs':
            mod = 'dns::rdata'
        fn = f.fn.split(' [')[0]
        m = re.match(r'(.*) as (.*)::(\w+)$', fn)
        vfn = ('%s::%s' % (m.group(1), m.group(3))) if m else fn
        r2 = run_verus.run(crate, extra=['--verify-only-module', mod, '--verify-function', vfn, '--rlimit', '80'], timeout=900)
        errs2 = [d for d in r2.get('diags', []) if d['level'] == 'error' and not d['message'].startswith('aborting due to')]
        v2 = ((r2.get('json') or {}).get('verification-results') or {})
        if r2.get('status') == 'done' and not errs2 and v2.get('verified'):
            res['rlimit_retries'].append('%s: verified on its own with rlimit 80' % f.fn)
            continue
        definite = [classify(crate, d, cache) for d in errs2]
        definite = [g for g in definite if g.kind != 'rlimit']
        if r2.get('status') == 'done' and definite and v2.get('errors'):
            res['rlimit_retries'].append('%s: definite failure with rlimit 80' % f.fn)
            res['failures'] += definite
            continue
        res['status'] = 'undecided'
        res['reason'] += 'resource limit in %s (also with 8x the budget); ' % f.fn
    for f in limited[4:]:
        res['status'] = 'undecided'
        res['reason'] += 'resource limit in %s; ' % f.fn
    res['verification_results'] = js['verification-results']
    res['times'] = js.get('times-ms', {})
    res['obligations_per_fn'] = air_obligations(log_dir) if log_dir else {}
    res['trusted'] = trusted_scan(crate)
    res['rewrites'] = [l for l in crate.log if l[0] in ('rewrite', 'closure-contract')]
    res['degraded'] = [l for l in crate.log if l[0] == 'degraded']
    res['contracted'] = crate.contracted
    res['externalised'] = crate.externalised
    res['crate'] = crate
    res['wall_s'] = time.time() - t0
    return res
