#!/usr/bin/env python3
"""Build the annotated scratch copy of /repo/simple-dns and run Verus on the whole crate.

Library: build(scratch) -> Crate ; verify(crate, ...) -> Result
CLI (development): run_verus.py [--keep] [--module M]...   prints a summary of failing obligations
"""
import os, sys, re, json, subprocess, shutil, time, hashlib, tempfile, importlib

HERE = os.path.dirname(os.path.abspath(__file__))
VERIF = os.path.dirname(HERE)
sys.path.insert(0, HERE)
sys.path.insert(0, os.path.join(VERIF, 'contracts'))
import xf

REPO = os.environ.get('VERIF_REPO', '/repo')
TOOLCHAIN = '1.98.1-x86_64-unknown-linux-gnu'
CACHE = os.path.join(VERIF, '.cache')

UNITS = ['base', 'name', 'compress', 'cstring', 'typed', 'overrides', 'hand_types', 'macros', 'codes', 'records', 'header', 'packet', 'fmt', 'owned', 'style']

def sh(cmd, **kw):
    return subprocess.run(cmd, capture_output=True, text=True, **kw)

def bitflags_rlib():
    """bitflags (the crate's only dependency) compiled with Verus' pinned toolchain; cached per Cargo.lock entry"""
    lock = open(os.path.join(REPO, 'Cargo.lock')).read()
    m = re.search(r'name = "bitflags"\nversion = "(2[^"]*)"', lock)
    ver = m.group(1) if m else 'unknown'
    d = os.path.join(CACHE, 'bitflags-' + ver)
    deps = os.path.join(d, 'debug', 'deps')
    if os.path.isdir(deps):
        r = [f for f in os.listdir(deps) if f.startswith('libbitflags') and f.endswith('.rlib')]
        if r:
            return os.path.join(deps, r[0]), deps
    os.makedirs(d, exist_ok=True)
    tmp = tempfile.mkdtemp(prefix='vxbf')
    try:
        os.makedirs(os.path.join(tmp, 'src'))
        open(os.path.join(tmp, 'src', 'lib.rs'), 'w').write('')
        open(os.path.join(tmp, 'Cargo.toml'), 'w').write(
            '[package]\nname = "vxbf"\nversion = "0.0.0"\nedition = "2021"\n[dependencies]\nbitflags = "=%s"\n[workspace]\n' % ver)
        env = dict(os.environ, CARGO_TARGET_DIR=d, CARGO_NET_OFFLINE='true')
        r = sh(['cargo', '+' + TOOLCHAIN, 'build', '--lib', '--offline'], cwd=tmp, env=env)
        if r.returncode != 0:
            raise RuntimeError('bitflags build failed: ' + r.stderr[-2000:])
    finally:
        shutil.rmtree(tmp, ignore_errors=True)
    r = [f for f in os.listdir(deps) if f.startswith('libbitflags') and f.endswith('.rlib')]
    return os.path.join(deps, r[0]), deps

def build(scratch, units=UNITS, post=None):
    """scratch copy + contracts; returns the Crate (flushed)"""
    c = xf.Crate(os.path.join(REPO, 'simple-dns'), os.path.join(scratch, 'simple-dns'))
    for u in units:
        mod = importlib.import_module(u)
        mod.apply(c)
    if post:
        post(c)
    c.flush()
    return c

class Diag:
    def __init__(self, d, crate):
        self.message = d['message']
        self.level = d['level']
        self.rendered = d.get('rendered', '')
        self.spans = d['spans']
        prim = [s for s in self.spans if s.get('is_primary')] or self.spans
        self.primary = prim[0] if prim else None
        self.children = d.get('children', [])

def run(crate, modules=(), functions=(), extra=(), rlimit=None, timeout=1800, log_dir=None):
    rlib, deps = bitflags_rlib()
    cmd = ['verus', '--crate-type=lib', 'src/lib.rs', '--extern', 'bitflags=' + rlib, '-L', deps,
           '--multiple-errors', '100', '--output-json', '--error-format=json', '--time-expanded', '--triggers-mode', 'silent',
           '-V', 'spinoff-all']   # every function in its own z3 instance: a proof does not depend on what was verified before it
    for m in modules:
        cmd += ['--verify-module', m]
    for f in functions:
        cmd += ['--verify-function', f]
    if rlimit:
        cmd += ['--rlimit', str(rlimit)]
    if log_dir:
        cmd += ['--log-dir', log_dir, '--log', 'air']
    cmd += list(extra)
    t0 = time.time()
    try:
        r = sh(cmd, cwd=crate.dst, timeout=timeout)
    except subprocess.TimeoutExpired:
        return {'status': 'timeout', 'cmd': ' '.join(cmd), 'wall_s': time.time() - t0, 'diags': [], 'json': None, 'stderr': ''}
    wall = time.time() - t0
    diags = []
    other = []
    for line in r.stderr.splitlines():
        if line.startswith('{"$message_type"'):
            try:
                diags.append(json.loads(line))
            except Exception:
                other.append(line)
        else:
            other.append(line)
    js = None
    try:
        i = r.stdout.index('{')
        js = json.loads(r.stdout[i:])
    except Exception:
        pass
    return {'status': 'done', 'rc': r.returncode, 'cmd': ' '.join(cmd), 'wall_s': wall, 'diags': diags, 'json': js,
            'stderr_other': '\n'.join(other), 'stdout': r.stdout if js is None else ''}

def main():
    import argparse
    ap = argparse.ArgumentParser()
    ap.add_argument('--keep', action='store_true')
    ap.add_argument('--scratch', default='/tmp/vx/dev')
    ap.add_argument('--module', action='append', default=[])
    ap.add_argument('--function', action='append', default=[])
    ap.add_argument('--units', default=','.join(UNITS))
    ap.add_argument('-n', type=int, default=60)
    ap.add_argument('--full', action='store_true')
    a = ap.parse_args()
    c = build(a.scratch, a.units.split(','))
    res = run(c, a.module, a.function)
    errs = [d for d in res['diags'] if d['level'] == 'error']
    for d in errs[:a.n]:
        if a.full:
            print(d['rendered'])
        else:
            sp = [s for s in d['spans'] if s['is_primary']]
            loc = '%s:%d' % (sp[0]['file_name'], sp[0]['line_start']) if sp else '?'
            txt = sp[0]['text'][0]['text'].strip() if sp and sp[0]['text'] else ''
            print('%-45s %-28s %s' % (d['message'][:45], loc, txt[:90]))
    if res['json']:
        print(json.dumps(res['json'].get('verification-results')))
    else:
        print(res.get('stdout', '')[-3000:])
        print(res.get('stderr_other', '')[-3000:])
    print('wall %.1fs, %d error diagnostics' % (res['wall_s'], len(errs)))

if __name__ == '__main__':
    main()
