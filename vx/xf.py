#!/usr/bin/env python3
"""In-situ transformer: scratch copy of the real crate, wrap items in verus!{}, splice contracts at
named anchors, apply the syntactic normalisations R1..R6 (DESIGN.md 2.2/2.3).

Nothing here edits /repo. Every anchor is textual (item header, fn name, loop ordinal, statement text);
a missing anchor raises AnchorLost, which the runner turns into exit code 2 (undecided), never a violation.
"""
import os, re, shutil, subprocess, hashlib, json

class AnchorLost(Exception):
    pass

# --------------------------------------------------------------------------- lexical helpers
_CHAR_LIT = re.compile(r"'(\\.|\\x[0-9a-fA-F]{2}|\\u\{[0-9a-fA-F]+\}|[^\\'])'")

def skip_trivia(s, j):
    """if s[j:] starts a comment / string / char literal return index after it, else j"""
    if s.startswith('//', j):
        k = s.find('\n', j)
        return len(s) if k < 0 else k
    if s.startswith('/*', j):
        k = s.find('*/', j + 2)
        return len(s) if k < 0 else k + 2
    c = s[j]
    if c == '"':
        k = j + 1
        while k < len(s) and s[k] != '"':
            if s[k] == '\\':
                k += 1
            k += 1
        return k + 1
    if c == 'b' and s.startswith('b"', j):
        return skip_trivia(s, j + 1)
    if c == 'b' and s.startswith("b'", j):
        m = _CHAR_LIT.match(s, j + 1)
        if m:
            return m.end()
    if c == "'":
        m = _CHAR_LIT.match(s, j)
        if m:
            return m.end()
    return j

def match_close(s, i, open_c='{', close_c='}'):
    """i at open_c -> index just after the matching close_c"""
    assert s[i] == open_c, (s[i:i + 20], open_c)
    d = 0
    j = i
    n = len(s)
    while j < n:
        k = skip_trivia(s, j)
        if k != j:
            j = k
            continue
        c = s[j]
        if c == open_c:
            d += 1
        elif c == close_c:
            d -= 1
            if d == 0:
                return j + 1
        j += 1
    raise AnchorLost('unbalanced %s at %d' % (open_c, i))

def next_code(s, j, target):
    """index of the next occurrence of character `target` at/after j outside trivia and at
    paren/bracket depth 0"""
    d = 0
    n = len(s)
    while j < n:
        k = skip_trivia(s, j)
        if k != j:
            j = k
            continue
        c = s[j]
        if c in '([':
            d += 1
        elif c in ')]':
            d -= 1
        elif c == target and d == 0:
            return j
        j += 1
    raise AnchorLost('no %r found' % target)

def code_find_all(s, regex, a=0, b=None):
    """yield match objects of regex in s[a:b] that do not start inside trivia"""
    b = len(s) if b is None else b
    j = a
    rx = re.compile(regex)
    while j < b:
        k = skip_trivia(s, j)
        if k != j:
            j = k
            continue
        m = rx.match(s, j)
        if m and m.end() <= b:
            yield m
            j = max(m.end(), j + 1)
            continue
        j += 1

def attrs_start(s, i):
    """extend i backwards over attribute / doc-comment lines that immediately precede it"""
    k = s.rfind('\n', 0, i) + 1  # start of the line holding i
    if s[k:i].strip():
        return i  # item does not start its line; leave as is
    while k > 0:
        ps = s.rfind('\n', 0, k - 1) + 1
        line = s[ps:k - 1].strip()
        if line.startswith('#[') or line.startswith('///') or line.startswith('#!['):
            k = ps
        else:
            break
    return k

# --------------------------------------------------------------------------- crate copy
class Crate:
    def __init__(self, src_crate, dst_crate):
        self.src = src_crate
        self.dst = dst_crate
        self.log = []          # (kind, file, detail)
        self.contracted = []   # qualified names of fns that received a contract
        self.externalised = [] # fns marked external/external_body
        self.cache = {}
        shutil.rmtree(dst_crate, ignore_errors=True)
        shutil.copytree(src_crate, dst_crate, ignore=shutil.ignore_patterns('target', 'benches', 'samples'))

    def p(self, rel):
        return os.path.join(self.dst, 'src', rel)

    def rd(self, rel):
        if rel not in self.cache:
            self.cache[rel] = open(self.p(rel)).read()
        return self.cache[rel]

    def wr(self, rel, s):
        self.cache[rel] = s

    def flush(self):
        for rel, s in self.cache.items():
            os.makedirs(os.path.dirname(self.p(rel)), exist_ok=True)
            with open(self.p(rel), 'w') as f:
                f.write(s)

    # ---- plain substitution
    def sub(self, rel, old, new, count=1):
        s = self.rd(rel)
        if s.count(old) < 1:
            raise AnchorLost('%s: text anchor lost: %r' % (rel, old[:70]))
        self.wr(rel, s.replace(old, new, count))

    def append(self, rel, text):
        self.wr(rel, self.rd(rel).rstrip('\n') + '\n' + text.rstrip('\n') + '\n')
        self.log.append(('append', rel, text.strip().split('\n')[0][:60]))

    def has(self, rel, text):
        return text in self.rd(rel)

    # ---- items
    def item_range(self, rel, header, start=0):
        s = self.rd(rel)
        i = s.find(header, start)
        if i < 0:
            raise AnchorLost('%s: item anchor lost: %r' % (rel, header[:70]))
        k = attrs_start(s, i)
        b = next_code(s, i, '{') if not header.rstrip().endswith(';') else None
        if b is None:
            return k, i, i + len(header)
        e = match_close(s, b)
        return k, b, e

    def wrap(self, rel, header, pre='', post=''):
        """wrap the whole item (with its attributes/docs) in verus!{ }"""
        k, b, e = self.item_range(rel, header)
        s = self.rd(rel)
        self.wr(rel, s[:k] + 'verus!{\n' + pre + s[k:e] + '\n' + post + '}\n' + s[e:])
        self.log.append(('wrap', rel, header.strip()[:80]))

    def wrap_span(self, rel, first, last, pre='', post=''):
        s = self.rd(rel)
        i = s.find(first)
        if i < 0:
            raise AnchorLost('%s: span start lost: %r' % (rel, first[:60]))
        j = s.find(last, i)
        if j < 0:
            raise AnchorLost('%s: span end lost: %r' % (rel, last[:60]))
        j += len(last)
        k = attrs_start(s, i)
        self.wr(rel, s[:k] + 'verus!{\n' + pre + s[k:j] + '\n' + post + '}\n' + s[j:])
        self.log.append(('wrap_span', rel, first.strip()[:60]))

    # ---- functions
    def fn_range(self, rel, ctx, name, nth=0):
        """(attr_start, fn_kw, params_open, params_close, body_open, body_end) of `fn name` inside the item
        whose header is ctx (None: whole file)."""
        s = self.rd(rel)
        if ctx is None:
            a, z = 0, len(s)
        else:
            _, b, e = self.item_range(rel, ctx)
            a, z = b, e
        hits = [m for m in code_find_all(s, r'\bfn\s+' + re.escape(name) + r'\b', a, z)]
        if len(hits) <= nth:
            raise AnchorLost('%s: fn anchor lost: %s in %r' % (rel, name, (ctx or '')[:50]))
        m = hits[nth]
        i = m.start()
        # start of the declaration incl. qualifiers (pub, pub(crate), const, unsafe) on the same line
        ls = s.rfind('\n', 0, i) + 1
        decl = ls if re.fullmatch(r'\s*(pub(\([a-z:]+\))?\s+)?(const\s+)?', s[ls:i]) else i
        k = attrs_start(s, decl)
        # params: skip generics <...> first
        j = m.end()
        while s[j].isspace():
            j += 1
        if s[j] == '<':
            d = 0
            while True:
                if s[j] == '<':
                    d += 1
                elif s[j] == '>' and s[j - 1] != '-':
                    d -= 1
                    if d == 0:
                        j += 1
                        break
                j += 1
        po = s.index('(', j)
        pc = match_close(s, po, '(', ')')
        # body open: first '{' or ';' after params
        try:
            jb = next_code(s, pc, '{')
        except AnchorLost:
            jb = len(s)
        semi = s.find(';', pc)
        if 0 <= semi < jb and '{' not in s[pc:semi]:
            return k, decl, po, pc, None, semi + 1
        be = match_close(s, jb)
        return k, decl, po, pc, jb, be

    def qual(self, rel, ctx, name):
        c = re.sub(r'\s+', ' ', (ctx or '').strip().rstrip('{').strip())
        return '%s :: %s :: %s' % (rel, c, name)

    def contract(self, rel, ctx, name, spec, ret='r', nth=0, pre_body=''):
        """name the return value and insert `spec` (requires/ensures/decreases text) before the body.
        pre_body: ghost statements placed as the first statements of the body."""
        k, decl, po, pc, jb, be = self.fn_range(rel, ctx, name, nth)
        s = self.rd(rel)
        sig = s[pc:jb] if jb is not None else s[pc:be - 1]
        m = re.match(r'\s*->\s*', sig)
        if m:
            w = re.search(r'\bwhere\b', sig)
            tend = w.start() if w else len(sig)
            rty = sig[m.end():tend].strip()
            newsig = ' -> (%s: %s)\n' % (ret, rty) + (sig[tend:].rstrip() + '\n' if w else '')
        else:
            w = re.search(r'\bwhere\b', sig)
            newsig = ' -> (%s: ())\n' % ret if ret else '\n'
            if not ret:
                newsig = '\n'
            newsig += (sig[w.start():].rstrip() + '\n') if w else ''
        if newsig.rstrip().endswith(',') is False and 'where' in newsig:
            newsig = newsig.rstrip() + ',\n'
        spec_t = spec.rstrip() + '\n'
        if jb is not None:
            out = s[:pc] + newsig + spec_t + '    {' + pre_body + s[jb + 1:]
        else:
            out = s[:pc] + newsig + spec_t + ';' + s[be:]
        self.wr(rel, out)
        self.contracted.append(self.qual(rel, ctx, name))
        self.log.append(('contract', rel, '%s / %s' % ((ctx or '').strip()[:50], name)))

    def mark(self, rel, ctx, name, attr='#[verifier::external_body]', nth=0):
        k, decl, po, pc, jb, be = self.fn_range(rel, ctx, name, nth)
        s = self.rd(rel)
        ind = re.match(r'[ \t]*', s[s.rfind('\n', 0, decl) + 1:]).group(0)
        self.wr(rel, s[:decl] + attr + '\n' + ind + s[decl:])
        self.externalised.append((self.qual(rel, ctx, name), attr))

    def body(self, rel, ctx, name, nth=0):
        k, decl, po, pc, jb, be = self.fn_range(rel, ctx, name, nth)
        return jb, be

    def loop_spec(self, rel, ctx, name, k_loop, spec, iter_name=None, nth=0, body_pre=''):
        """insert loop spec before the body of the k-th loop (0-based, textual order) of fn"""
        jb, be = self.body(rel, ctx, name, nth)
        s = self.rd(rel)
        loops = [m for m in code_find_all(s, r'\b(loop|while|for)\b', jb, be)
                 if not (m.group(1) == 'for' and not re.match(r'for\s+[^;{]*?\bin\b', s[m.start():m.start() + 200]))]
        if len(loops) <= k_loop:
            raise AnchorLost('%s: loop #%d of %s lost' % (rel, k_loop, name))
        m = loops[k_loop]
        lb = next_code(s, m.end(), '{')
        head = s[m.start():lb]
        if iter_name and m.group(1) == 'for':
            head2 = re.sub(r'\bin\b\s*', 'in %s: ' % iter_name, head, count=1)
        else:
            head2 = head
        self.wr(rel, s[:m.start()] + head2.rstrip() + '\n' + spec.rstrip() + '\n        {' + body_pre + s[lb + 1:])
        self.log.append(('loop', rel, '%s#%d' % (name, k_loop)))

    def sum_loop(self, rel, ctx, name, invariant, body_pre='', body_post='', nth=0):
        """R11: `RECV.iter().map(|V| EXPR).sum::<usize>()` (or `.sum()`) -> the left fold it denotes:
        `{ let mut vx_sum: usize = 0; for V in vx_it: RECV.iter() <invariant> { vx_sum = vx_sum + (EXPR); } vx_sum }`.
        (Iterator::sum over Map is fold(0, +); `+` panics on overflow exactly where sum would in a debug build and the
        rewritten form carries an overflow obligation, so the wrapping release behaviour is excluded, not assumed.)"""
        jb, be = self.body(rel, ctx, name, nth)
        s = self.rd(rel)
        m = re.compile(r'([A-Za-z_]\w*(?:\s*\.\s*\w+)*?)\s*\.\s*iter\(\)\s*\.\s*map\(\|(\w+)\|\s*').search(s, jb, be)
        if not m:
            raise AnchorLost('%s: iter().map(..).sum() lost in %s' % (rel, name))
        po = s.rfind('(', m.start(), m.end())
        pc = match_close(s, po, '(', ')')
        expr = s[m.end():pc - 1].strip()
        m2 = re.compile(r'\s*\.\s*sum(::<usize>)?\(\)').match(s, pc)
        if not m2:
            raise AnchorLost('%s: .sum() lost in %s' % (rel, name))
        new = ('({ let mut vx_sum: usize = 0;\n            for %s in vx_it: %s.iter()\n%s\n            {%s vx_sum = vx_sum + (%s);%s }\n            vx_sum })'
               % (m.group(2), m.group(1), invariant.rstrip(), body_pre, expr, body_post))
        self.wr(rel, s[:m.start()] + new + s[m2.end():])
        self.log.append(('rewrite', rel, 'R11 x1 (%s: iter().map(|%s| %s).sum() written as the fold it denotes)' % (name, m.group(2), expr)))

    def collect_loop(self, rel, ctx, name, elem_ty, invariant, body_post='', nth=0):
        """R15: `RECV.into_iter().map(|V| EXPR).collect()` on a Vec -> the loop it denotes:
        `{ let mut vx_out = Vec::new(); for V in vx_it: RECV <invariant> { vx_out.push(EXPR); <body_post> } vx_out }`
        (element order and count are those of the vector; `collect` into a Vec pushes in iteration order)."""
        jb, be = self.body(rel, ctx, name, nth)
        s = self.rd(rel)
        m = re.compile(r'([A-Za-z_]\w*(?:\s*\.\s*\w+)*?)\s*\.\s*into_iter\(\)\s*\.\s*map\(\|(\w+)\|\s*').search(s, jb, be)
        if not m:
            raise AnchorLost('%s: into_iter().map(..).collect() lost in %s' % (rel, name))
        po = s.rfind('(', m.start(), m.end())
        pc = match_close(s, po, '(', ')')
        expr = s[m.end():pc - 1].strip()
        m2 = re.compile(r'\s*\.\s*collect\(\)').match(s, pc)
        if not m2:
            raise AnchorLost('%s: .collect() lost in %s' % (rel, name))
        new = ('{ let mut vx_out: Vec<%s> = Vec::new();\n            for %s in vx_it: %s\n%s\n            { vx_out.push(%s);%s }\n            vx_out }'
               % (elem_ty, m.group(2), m.group(1), invariant.rstrip(), expr, body_post))
        self.wr(rel, s[:m.start()] + new + s[m2.end():])
        self.log.append(('rewrite', rel, 'R15 x1 (%s: into_iter().map(|%s| ..).collect() written as the loop it denotes)' % (name, m.group(2))))

    def all_loop(self, rel, ctx, name, invariant, nth=0):
        """R17: `RECV.iter().skip(K).all(|V| EXPR)` on a slice -> the search loop it denotes:
        `({ let mut vx_all = true; let mut vx_i: usize = K; while vx_all && vx_i < RECV.len() <invariant>
            { let V = &RECV[vx_i]; if !(EXPR) { vx_all = false; } else { vx_i = vx_i + 1; } } vx_all })`
        (Iterator::all is `true` iff the predicate holds for every remaining element and stops at the first that fails; EXPR is
        required to be free of side effects -- checked syntactically: no `=`-assignment, no `?`, no macro call, no `mut`)."""
        jb, be = self.body(rel, ctx, name, nth)
        s = self.rd(rel)
        m = re.compile(r'([A-Za-z_]\w*)\s*\.\s*iter\(\)\s*\.\s*skip\((\d+)\)\s*\.\s*all\(\|(\w+)\|\s*').search(s, jb, be)
        guard = ''
        if not m:
            # same scan written with a range: `RECV[K..].iter().all(|V| EXPR)`; the range index panics when K > len, which the
            # loop form would not, so the rewritten text carries that as an obligation
            m = re.compile(r'([A-Za-z_]\w*)\[(\d+)\s*\.\.\s*\]\s*\.\s*iter\(\)\s*\.\s*all\(\|(\w+)\|\s*').search(s, jb, be)
            if m:
                guard = ' assert(%s <= %s.len());' % (m.group(2), m.group(1))
        if not m:
            raise AnchorLost('%s: iter().skip(K).all(..) lost in %s' % (rel, name))
        po = s.rfind('(', m.start(), m.end())
        pc = match_close(s, po, '(', ')')
        expr = s[m.end():pc - 1].strip()
        if re.search(r'[^=!<>]=[^=]|\?|\w!\s*\(|\bmut\b', expr):
            raise AnchorLost('%s: predicate of all(..) in %s is not a pure expression (R17 does not apply)' % (rel, name))
        recv, k, v = m.group(1), m.group(2), m.group(3)
        new = ('({' + guard + ' let mut vx_all = true; let mut vx_i: usize = %s;\n            while vx_all && vx_i < %s.len()\n%s\n'
               '            { let %s = &%s[vx_i]; if !(%s) { vx_all = false; } else { vx_i = vx_i + 1; } }\n            vx_all })'
               % (k, recv, invariant.rstrip(), v, recv, expr))
        self.wr(rel, s[:m.start()] + new + s[pc:])
        self.log.append(('rewrite', rel, 'R17 x1 (%s: %s.iter().skip(%s).all(|%s| ..) written as the search loop it denotes)' % (name, recv, k, v)))

    def rev_zip_all_loop(self, rel, ctx, name, field, invariant, nth=0):
        """R18: `A.iter().rev().zip(B.iter().rev()).all(|(O, S)| EXPR)` where `iter()` is `Name::iter` (under contract: the slice
        iterator of `.FIELD`) -> the backwards pairwise search loop it denotes:
        `({ let mut vx_all = true; let mut vx_k: usize = 0; while vx_all && vx_k < A.FIELD.len() && vx_k < B.FIELD.len() <invariant>
            { let O = &A.FIELD[A.FIELD.len() - 1 - vx_k]; let S = &B.FIELD[B.FIELD.len() - 1 - vx_k];
              if !(EXPR) { vx_all = false; } else { vx_k = vx_k + 1; } } vx_all })`
        (zip stops with the shorter side; rev of a slice iterator walks from the last element; all stops at the first pair that
        fails; EXPR must be a pure expression -- same syntactic test as R17)."""
        jb, be = self.body(rel, ctx, name, nth)
        s = self.rd(rel)
        m = re.compile(r'([A-Za-z_]\w*)\s*\.\s*iter\(\)\s*\.\s*rev\(\)\s*\.\s*zip\(\s*([A-Za-z_]\w*)\s*\.\s*iter\(\)\s*\.\s*rev\(\)\s*\)\s*\.\s*all\(\|\((\w+),\s*(\w+)\)\|\s*').search(s, jb, be)
        if not m:
            raise AnchorLost('%s: iter().rev().zip(iter().rev()).all(..) lost in %s' % (rel, name))
        po = s.rfind('(', m.start(), m.end() - 1)
        po = s.rfind('all(', m.start(), m.end()) + 3
        pc = match_close(s, po, '(', ')')
        expr = s[m.end():pc - 1].strip()
        if re.search(r'[^=!<>]=[^=]|\?|\w!\s*\(|\bmut\b', expr):
            raise AnchorLost('%s: predicate of all(..) in %s is not a pure expression (R18 does not apply)' % (rel, name))
        a, b, o, sv = m.group(1), m.group(2), m.group(3), m.group(4)
        A, B = '%s.%s' % (a, field), '%s.%s' % (b, field)
        new = ('({ let mut vx_all = true; let mut vx_k: usize = 0;\n            while vx_all && vx_k < %s.len() && vx_k < %s.len()\n%s\n'
               '            { let %s = &%s[%s.len() - 1 - vx_k]; let %s = &%s[%s.len() - 1 - vx_k]; if !(%s) { vx_all = false; } else { vx_k = vx_k + 1; } }\n            vx_all })'
               % (A, B, invariant.rstrip(), o, A, A, sv, B, B, expr))
        self.wr(rel, s[:m.start()] + new + s[pc:])
        self.log.append(('rewrite', rel, 'R18 x1 (%s: %s.iter().rev().zip(%s.iter().rev()).all(|(%s, %s)| ..) written as the backwards pairwise loop it denotes)' % (name, a, b, o, sv)))

    def iter_last(self, rel, ctx, name, field, nth=0):
        """R19: `X.iter().last()` where `iter()` is `Name::iter` (under contract: the slice iterator of `.FIELD`) ->
        `X.FIELD.as_slice().last()` (the last item of a slice iterator is the slice's last element, None when empty)."""
        jb, be = self.body(rel, ctx, name, nth)
        s = self.rd(rel)
        m = re.compile(r'([A-Za-z_]\w*)\s*\.\s*iter\(\)\s*\.\s*last\(\)').search(s, jb, be)
        if not m:
            raise AnchorLost('%s: iter().last() lost in %s' % (rel, name))
        rep = '%s.%s.as_slice().last()' % (m.group(1), field)
        s = s[:m.start()] + rep + s[m.end():]
        be = be + len(rep) - (m.end() - m.start())
        # byte-string literals of the body written as the array literals they denote (Verus gives `b"..."` no value)
        def lit(mm):
            bs = mm.group(1)
            if '\\' in bs:
                raise AnchorLost('%s: escaped byte-string literal in %s (R19 does not apply)' % (rel, name))
            return '[' + ', '.join('%du8' % ord(ch) for ch in bs) + '].as_slice()'
        s = s[:jb] + re.sub(r'b"([^"]*)"', lit, s[jb:be]) + s[be:]
        self.wr(rel, s)
        self.log.append(('rewrite', rel, 'R19 x1 (%s: %s.iter().last() written as %s.%s.as_slice().last())' % (name, m.group(1), m.group(1), field)))

    def enumerate_to_counter(self, rel, ctx, name, nth=0):
        """R3: `for (I, V) in X.enumerate() { BODY }` -> `let mut I = 0usize; for V in X { BODY I += 1; }`
        (side condition: BODY has no `continue`, so the counter is incremented exactly once per iteration)."""
        jb, be = self.body(rel, ctx, name, nth)
        s = self.rd(rel)
        seg = s[jb:be]
        m = re.search(r'for \((\w+), (\w+)\) in ([^{};]+?)\.enumerate\(\) \{', seg)
        if not m or re.search(r'\bcontinue\b', seg):
            raise AnchorLost('%s: enumerate loop of %s lost (R3 side condition)' % (rel, name))
        lb = jb + m.end() - 1
        le = match_close(s, lb)
        iv, lv, src = m.group(1), m.group(2), m.group(3)
        new = ('let mut %s = 0usize;\n        for %s in %s {' % (iv, lv, src)) + s[lb + 1:le - 1] + '    %s += 1;\n        }' % iv
        self.wr(rel, s[:jb + m.start()] + new + s[le:])
        self.log.append(('rewrite', rel, 'R3 x1 (enumerate() -> explicit counter in %s)' % name))

    def ghost_every(self, rel, ctx, name, stmt_text, ghost, nth=0):
        """place ghost text before every statement (line) of fn that contains stmt_text (e.g. every `Ok(())` exit)"""
        jb, be = self.body(rel, ctx, name, nth)
        s = self.rd(rel)
        sites = []
        i = jb
        while True:
            i = s.find(stmt_text, i + 1, be)
            if i < 0:
                break
            sites.append(i)
        if not sites:
            raise AnchorLost('%s: stmt anchor lost in %s: %r' % (rel, name, stmt_text[:60]))
        for i in reversed(sites):
            ls = s.rfind('\n', 0, i) + 1
            s = s[:ls] + ghost.rstrip() + '\n' + s[ls:]
        self.wr(rel, s)
        self.log.append(('ghost', rel, '%s @ every %s (%d)' % (name, stmt_text[:30], len(sites))))

    def ghost_loop_exits(self, rel, ctx, name, ghost, nth=0):
        """place ghost text before every `return Err(` statement that follows the first loop keyword of fn (however many
        there are: a refactoring that merges or splits the checks keeps its proof, a change that drops one fails elsewhere)"""
        jb, be = self.body(rel, ctx, name, nth)
        s = self.rd(rel)
        loops = [m for m in code_find_all(s, r'\b(loop|while|for)\b', jb, be)]
        if not loops:
            raise AnchorLost('%s: no loop in %s' % (rel, name))
        start = loops[0].start()
        sites = [m.start() for m in code_find_all(s, r'\breturn\s+Err\(', start, be)]
        for i in reversed(sites):
            ls = s.rfind('\n', 0, i) + 1
            s = s[:ls] + ghost.rstrip() + '\n' + s[ls:]
        self.wr(rel, s)
        self.log.append(('ghost', rel, '%s @ %d error exits of the loop' % (name, len(sites))))
        return len(sites)

    def try_exit(self, rel, ctx, name, call_prefix, ghost, occurrence=0, nth=0):
        """R13 (same as R7, on demand): `CALL(..)?` -> `(match CALL(..) { Ok(vx_ok) => vx_ok, Err(vx_err) => { <ghost> return Err(vx_err); } })`
        so that ghost code can run on the error exit.  Same error type on both sides is checked by rustc on the scratch copy
        (a `?` that converts the error would not compile in this form: undecided, never an alarm)."""
        jb, be = self.body(rel, ctx, name, nth)
        s = self.rd(rel)
        i = jb
        for _ in range(occurrence + 1):
            i = s.find(call_prefix + '(', i + 1, be)
            if i < 0:
                raise AnchorLost('%s: call %s lost in %s (R13)' % (rel, call_prefix, name))
        po = i + len(call_prefix)
        pc = match_close(s, po, '(', ')')
        if s[pc:pc + 1] != '?':
            raise AnchorLost('%s: %s(..) is not followed by `?` in %s (R13)' % (rel, call_prefix, name))
        call = s[i:pc]
        new = '(match %s { Ok(vx_ok) => vx_ok, Err(vx_err) => {\n%s\n            return Err(vx_err); } })' % (call, ghost.rstrip())
        self.wr(rel, s[:i] + new + s[pc + 1:])
        self.log.append(('rewrite', rel, 'R13 x1 (%s: `%s(..)?` written as a match so that the error exit can carry ghost code)' % (name, call_prefix)))

    def ghost(self, rel, ctx, name, stmt_text, ghost, where='before', nth=0, occurrence=0):
        """place ghost text before/after the statement (line) of fn that contains stmt_text"""
        jb, be = self.body(rel, ctx, name, nth)
        s = self.rd(rel)
        i = jb
        for _ in range(occurrence + 1):
            i = s.find(stmt_text, i + 1, be)
            if i < 0:
                raise AnchorLost('%s: stmt anchor lost in %s: %r' % (rel, name, stmt_text[:60]))
        if where == 'before':
            ls = s.rfind('\n', 0, i) + 1
            self.wr(rel, s[:ls] + ghost.rstrip() + '\n' + s[ls:])
        elif where == 'after':
            # end of statement: next ';' at depth 0 from i, then end of line
            j = i
            d = 0
            while j < be:
                kk = skip_trivia(s, j)
                if kk != j:
                    j = kk
                    continue
                c = s[j]
                if c in '([{':
                    d += 1
                elif c in ')]}':
                    d -= 1
                elif c == ';' and d <= 0:
                    break
                j += 1
            le = s.find('\n', j)
            self.wr(rel, s[:le + 1] + ghost.rstrip() + '\n' + s[le + 1:])
        else:
            raise ValueError(where)
        self.log.append(('ghost', rel, '%s @ %s' % (name, stmt_text[:40])))

    def bind_tail(self, rel, ctx, name, ghost, nth=0):
        """R9: `{ ...; EXPR }` -> `{ ...; let vx_r = EXPR; <ghost> vx_r }` (tail expression let-bound so that ghost code can
        follow the last call); no-op change of evaluation order."""
        jb, be = self.body(rel, ctx, name, nth)
        s = self.rd(rel)
        j = jb + 1
        d = 0
        last = jb + 1
        while j < be - 1:
            k = skip_trivia(s, j)
            if k != j:
                j = k
                continue
            c = s[j]
            if c in '([{':
                d += 1
            elif c in ')]}':
                d -= 1
                if c == '}' and d == 0:
                    # a block statement (loop / if / match ...) ends here unless it continues as an expression
                    rest = s[j + 1:be - 1].lstrip()
                    if rest and not rest.startswith(('.', '?', ';', ',', ')', 'else')):
                        last = j + 1
            elif c == ';' and d == 0:
                last = j + 1
            j += 1
        tail = s[last:be - 1]
        if not tail.strip():
            raise AnchorLost('%s: %s has no tail expression (R9)' % (rel, name))
        ind = '        '
        self.wr(rel, s[:last] + '\n' + ind + 'let vx_r = ' + tail.strip() + ';\n' + ghost.rstrip() + '\n' + ind + 'vx_r\n    ' + s[be - 1:])
        self.log.append(('rewrite', rel, 'R9 x1 (tail expression of %s let-bound for a trailing proof block)' % name))

    def closure_spec(self, rel, ctx, name, k_closure, spec, nth=0):
        """turn the k-th closure `|args| body` of fn into `|args| -> (r: T) ensures ... { body }` -- spec is the
        full replacement header generator: callable(args_text, body_text) -> new text"""
        raise NotImplementedError

    # ---- R1..R5 over a whole file (idempotent on text without the idioms)
    def rules(self, rel):
        s = self.rd(rel)
        n_before = s
        out = []
        pos = 0
        cnt = {'R1': 0, "R1'": 0, 'R2': 0, 'R5': 0, 'R10': 0}
        for m in re.finditer(r'\b([ui](?:8|16|32|64|128))::from_be_bytes\(', s):
            if m.start() < pos:
                continue
            pc = match_close(s, m.end() - 1, '(', ')')
            inner = s[m.end():pc - 1].strip().rstrip(',').strip()
            if inner.endswith('.try_into()?'):
                e = inner[:-len('.try_into()?')].strip()
                out.append(s[pos:m.start()] + 'crate::vx::be_%s(&%s)?' % (m.group(1), e))
            else:
                out.append(s[pos:m.start()] + 'crate::vx::arr_be_%s(%s)' % (m.group(1), inner))
            pos = pc
            cnt['R1'] += 1
        out.append(s[pos:])
        s = ''.join(out)
        out = []
        pos = 0
        for m in re.finditer(r'\b(u16|u32|u128)::from_le_bytes\(', s):
            if m.start() < pos:
                continue
            pc = match_close(s, m.end() - 1, '(', ')')
            inner = s[m.end():pc - 1].strip().rstrip(',').strip()
            if inner.endswith('.try_into()?'):
                e = inner[:-len('.try_into()?')].strip()
                out.append(s[pos:m.start()] + 'crate::vx::le_%s(&%s)?' % (m.group(1), e))
                pos = pc
                cnt['R1'] += 1
        out.append(s[pos:])
        s = ''.join(out)
        s, n = re.subn(r'\.to_le_bytes\(\)', '.vx_to_le_bytes()', s)
        cnt["R1'"] += n
        # slice -> array try_into (EUI)
        s, n = re.subn(r'=\s*(data\[[^\]\n]*\])\.try_into\(\)\?;', r'= crate::vx::arr(&\1)?;', s)
        cnt['R1'] += n
        s, n = re.subn(r'\.to_be_bytes\(\)', '.vx_to_be_bytes()', s)
        cnt["R1'"] += n
        s, n = re.subn(r'match (data\[[^\]\n]*\]) \{', r'let vx_scrut = \1;\n            match vx_scrut {', s)
        cnt['R2'] += n
        s, n = re.subn(r'Err\(std::fmt::Error\)', 'Err(crate::vx::fmt_error())', s)
        cnt['R5'] += n
        s, n = re.subn(r'(\|[^|\n]*\|)\s*std::fmt::Error\b', r'\1 crate::vx::fmt_error()', s)
        cnt['R5'] += n
        s, n = re.subn(r'\|_\|', '|_vx_unused|', s)   # R10: Verus rejects `_` closure parameters
        cnt['R10'] = n
        if s != n_before:
            self.wr(rel, s)
            for r, c in cnt.items():
                if c:
                    self.log.append(('rewrite', rel, '%s x%d' % (r, c)))

    # ---- index of functions per file (for mapping diagnostics to functions)
    def fn_index(self, rel):
        s = self.rd(rel)
        res = []
        # contexts: impl / trait / mod headers
        ctxs = []
        for m in code_find_all(s, r'\b(impl|trait|mod)\b[^;{]*\{'):
            b = m.end() - 1
            try:
                e = match_close(s, b)
            except AnchorLost:
                continue
            hdr = re.sub(r'\s+', ' ', s[m.start():b]).strip()
            ctxs.append((m.start(), e, hdr))
        for m in code_find_all(s, r'\bfn\s+([A-Za-z_][A-Za-z0-9_]*)'):
            i = m.start()
            try:
                j = m.end()
                po = s.index('(', j)
                pc = match_close(s, po, '(', ')')
                try:
                    jb = next_code(s, pc, '{')
                except AnchorLost:
                    jb = len(s)
                semi = s.find(';', pc)
                if 0 <= semi < jb and '{' not in s[pc:semi]:
                    e = semi + 1
                else:
                    e = match_close(s, jb)
            except (AnchorLost, ValueError):
                continue
            inner = [c for c in ctxs if c[0] <= i < c[1]]
            ctx = min(inner, key=lambda c: c[1] - c[0])[2] if inner else ''
            l0 = s.count('\n', 0, attrs_start(s, i)) + 1
            l1 = s.count('\n', 0, e) + 1
            res.append((l0, l1, ctx, m.group(1)))
        return res


def short_ctx(ctx):
    """'impl<'a> WireFormat<'a> for Name<'a>' -> 'Name as WireFormat'; 'impl<'a> Name<'a>' -> 'Name'"""
    c = re.sub(r"<[^<>]*>", '', ctx)
    c = re.sub(r"<[^<>]*>", '', c)
    m = re.match(r'impl\s+(.*?)\s+for\s+(.*)$', c.strip())
    if m:
        return '%s as %s' % (m.group(2).strip(), m.group(1).strip())
    m = re.match(r'(impl|trait|mod)\s+(.*)$', c.strip())
    if m:
        return m.group(2).strip()
    return c.strip()
