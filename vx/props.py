"""Property table: which obligations decide which property.

1. Tagged clauses: every post-condition / invariant spliced by /verif/contracts carries `// @Cxx:label`.
2. Untagged obligations (Verus' built-in safety obligations: index, slice range, arithmetic overflow, callee
   precondition, termination, spliced proof asserts) are attributed by (file, function, kind) below.
"""
import re

# (file regex, function regex, kinds regex) -> properties
DEFAULTS = [
    # the parse path: anything that could panic / not terminate while parsing untrusted bytes
    (r'dns/(name|character_string|question|resource_record|packet|header)\.rs|dns/rdata/.*\.rs',
     r'(^|::)(parse|parse_rdata|parse_section|new|extract_info_from_opt_rr)\b', r'.*', {'C01'}),
    (r'dns/name\.rs', r'(^|::)(is_subdomain_of|without|is_valid_label|is_link_local)\b', r'.*', {'C17'}),
    (r'dns/name\.rs', r'Label.*::new\b', r'.*', {'C17'}),
    (r'dns/name\.rs', r'as WireFormat::parse\b', r'invariant.*|termination|assert|postcondition', {'C06'}),
    (r'dns/(question|resource_record|packet)\.rs|dns/rdata/macros\.rs', r'(^|::)(parse|parse_rdata|parse_section)\b', r'postcondition|invariant.*|assert', {'C05'}),
    (r'dns/rdata/.*\.rs|dns/character_string\.rs', r'(^|::)(parse|parse_rdata|write_to|len|write_common|lemma_rt)\b', r'postcondition|invariant.*|assert', {'C10'}),
    (r'dns/.*\.rs', r'(^|::)(lemma_rt|lemma_det)\b', r'.*', {'C02', 'C03', 'C11'}),
    (r'dns/.*\.rs', r'(^|::)lemma_dec_ok\b', r'.*', {'C11'}),
    (r'dns/packet\.rs', r'(^|::)section_count\b', r'.*', {'C04'}),
    (r'dns/packet\.rs', r'(^|::)lemma_\w+', r'.*', {'C02', 'C03', 'C04', 'C11'}),
    (r'dns/rdata/opt\.rs', r'.*', r'.*', {'C09'}),
    (r'dns/header\.rs', r'(^|::)(opt_rr|extract_info_from_opt_rr)\b', r'.*', {'C09'}),
    # writers must not panic and must emit what their contract says
    (r'dns/.*\.rs', r'(^|::)(write_to|write_common|plain_append|write_header|len|build_bytes_vec|opt_rr|get_flags)\b', r'.*', {'C04', 'C02', 'C11'}),
    (r'dns/.*\.rs', r'(^|::)(write_compressed_to|compress_append|build_bytes_vec_compressed)\b', r'.*', {'C03', 'C07', 'C11'}),
    (r'dns/(packet|resource_record)\.rs', r'(^|::)(write_compressed_to|lemma_rr_compressed)\b', r'.*', {'C04'}),
    (r'dns/.*\.rs', r'(^|::)(fmt|try_from)\b', r'.*', {'C12'}),
    (r'dns/mod\.rs|dns/rdata/(mod|macros)\.rs', r'(^|::)(from|try_from|type_code)\b', r'.*', {'C18'}),
    (r'dns/.*\.rs', r'(^|::)(into_owned|eq|hash)\b', r'.*', {'C16'}),
    (r'vx\.rs', r'.*', r'.*', {'C02', 'C03', 'C06', 'C10'}),   # the spec library's own lemmas
]

# last resort: an obligation that neither carries a tag nor matches a rule above is never dropped, it is charged to the
# properties its file is about
FALLBACK = [
    (r'dns/rdata/opt\.rs', {'C09', 'C10'}),
    (r'dns/rdata/.*\.rs', {'C10'}),
    (r'dns/character_string\.rs', {'C10'}),
    (r'dns/name\.rs', {'C06', 'C03', 'C07'}),
    (r'dns/packet\.rs', {'C04', 'C05', 'C02'}),
    (r'dns/header\.rs', {'C08', 'C09'}),
    (r'dns/(question|resource_record)\.rs', {'C05', 'C02'}),
    (r'dns/wire_format\.rs', {'C02', 'C03'}),
    (r'dns/mod\.rs', {'C18'}),
    (r'.*', {'C02'}),
]

def default_props(rel, fn, kind):
    out = set()
    for fr, fnr, kr, ps in DEFAULTS:
        if re.search(fr, rel) and re.search(fnr, fn) and re.fullmatch(kr, kind):
            out |= ps
    return out

def fallback_props(rel):
    for fr, ps in FALLBACK:
        if re.fullmatch(fr, rel):
            return set(ps)
    return {'C02'}

D15_KEY = 'scope|dns/packet.rs|Packet::write_compressed_to|requires io_buf(old(out)).len() == 0 && io_pos(old(out)) == 0'
D15_TEXT = ('compressed writers record absolute stream positions as pointer targets and restore the position with SeekFrom::End(0): '
            'the output is only correct when the writer starts empty at position 0 (contract precondition); the property also demands '
            'non-zero starting offsets and pre-filled storage')
D16_KEY = 'scope|dns/packet.rs|Packet::pkt_canon|header.opt is None ==> rcode_code(response_code) < 16'
D16_TEXT = ('the round-trip lemma needs `opt is None ==> response code < 16`: a 12-bit response code set on a packet without EDNS data is '
            'written as its low nibble and reads back as a different code (replay/d16_demo.rs)')
D18_KEY = 'scope|dns/wire_format.rs|WireFormat::wf_canon|values outside the image of the parser'
D18_TEXT = ('the round-trip lemmas need wf_canon: a TXT without strings, a NULL record with empty data, an opaque NULL(code, ..) carrying the '
            'code of a typed record and QTYPE::TYPE(TYPE::Unknown(251..255)) can be built through the public constructors but are '
            'serialised into bytes that read back as a different value (replay/d18_demo.rs)')
VERUS_NOTE = ("trusted: Verus/Z3, vstd specs of std, the assume_specification/external_body items listed in the evidence's trusted_base, "
              "the syntactic normalisations R1-R19 (DESIGN.md 8.3, 8.11, 8.13, 8.18), slices <= isize::MAX; truncating `as` casts are caught only via functional post-conditions")
KANI_NOTE = "trusted: Kani/CBMC; harness reference tables written from the RFCs/IANA registry (kani/harness.rs, contracts/schema.py)"

PROPS = {
    'C01': {'standin': ['malformed'], 'verus': True, 'kani': ['header_peek_short_buffers', 'header_parse_total'],
            'technique': 'Verus contracts on every parse-path function of the real crate (panic-freedom, termination, cursor discipline, allocation bound) + loop-free Kani harnesses for the header-peek functions',
            'text': 'proof for all inputs: every index, slice range, arithmetic operation, unwrap and loop of the parse path is a discharged Verus obligation on the real function bodies (in-situ annotation); header peeks are a complete loop-free CBMC proof over all buffers of length 0..=13',
            'note': VERUS_NOTE + '; ' + KANI_NOTE + '; the allocator and Vec growth policy are not modelled (allocation is bounded through with_capacity arguments and one push per consumed byte)'},
    'C02': {'standin': ['roundtrip', 'txt'], 'verus': True, 'kani': ['header_write_layout'], 'scope_findings': [(D16_KEY, D16_TEXT), (D18_KEY, D18_TEXT)],
            'technique': 'Verus: encoder/decoder pair contracts per wire element (ghost wf_enc / wf_dec from the RFCs) on the real write_to / parse bodies, Packet::write_to proved to emit header + sections; round-trip lemmas for names; Kani for the header word',
            'text': 'proof for all packets within limits (pkt_ok && pkt_canon): (1) Packet::write_to / build_bytes_vec emit exactly pkt_enc(p) and, as a post-condition, pkt_enc(p) decodes to p (lemma_plain_rt: per-type round-trip lemmas lifted to sections and to the message, OPT record and 12-bit response code included); (2) Packet::parse returns only packets that the message decodes to; (3) the decoding relation is a function of the bytes up to observable equality (lemma_det per type, lemma_dec_det for packets: ids, flags, opcode, response code, EDNS data, every record field). (4) the parser is complete with respect to the decoding relation: every parse function returns Err only if no value decodes at that position (trait clause `accepts-what-the-spec-decodes`, lifted through the list types, RData, records, sections and Packet::parse), so parse(build_bytes_vec(p)) is Ok and what it returns is observably equal to p. Not proved: that observable equality coincides with the derived PartialEq (assumed structural)',
            'note': VERUS_NOTE + '; ' + KANI_NOTE + '; SVCB / NSEC writers, len and round-trip lemmas are assumed (BTreeMap iteration / sort_by are outside Verus); known finding D16 (response code > 15 without EDNS)'},
    'C03': {'standin': ['roundtrip'], 'verus': True, 'kani': [],
            'technique': 'Verus: Name::compress_append (real body) proved against the RFC 1035 decoder with a ghost invariant on the suffix table; every compressed writer (Question, ResourceRecord incl. the RDLENGTH seek back-patch, RData, wrappers, the eight typed overrides SOA MX MINFO RP AFSDB RT HINFO ISDN, Packet::write_compressed_to) proved to emit bytes that decode to the very value written and are never longer than the plain encoding; default writers via generated per-type round-trip lemmas',
            'text': 'proof for all packets within DNS size limits written at stream origin 0: Packet::write_compressed_to yields a message m with pkt_dec(m) == the packet (same relation that Packet::parse establishes) and |m| <= |plain encoding|; offsets >= 16384 are never recorded as pointer targets (obligation `pos < 0x4000`). The RDLENGTH seek-back patch is covered by a window clause carried by every compressed writer (facts hold on every buffer that differs only inside a not-yet-patched RDLENGTH slot); no proof step is assumed. Both outputs decode to p (write_to: lemma_plain_rt) and the decoding relation is deterministic (lemma_dec_det), so whatever parse returns for either is observably equal to p and to each other',
            'note': VERUS_NOTE + '; HashMap key model for &[Label]; writer must start at stream position 0 (known finding D15 otherwise)'},
    'C07': {'standin': ['roundtrip'], 'verus': True, 'kani': [], 'scope_findings': [(D15_KEY, D15_TEXT)],
            'technique': 'Verus: post-condition of Name::compress_append (every recorded target < 0x4000, inside the message, decoding to the suffix; pointer emitted iff the suffix is in the table; a name already in the table is written as 2 bytes) + trait-level obligation that the no-compression types (SRV NAPTR KX RRSIG NSEC IPSECKEY SVCB HTTPS) are written in full',
            'text': 'proof: every pointer emitted is 0xC000|p with p < 0x4000 the recorded start of that label suffix (strictly before the current position) and expands to the intended name; types on the RFC no-compression list satisfy io_buf == old + wf_enc (their default write_compressed_to is verified once, generically); a repeated name costs 2 bytes',
            'note': VERUS_NOTE + '; stream origin must be the message origin (known finding D15)'},
    'C04': {'standin': ['roundtrip', 'txt'], 'verus': True, 'kani': ['header_write_layout'], 'scope_findings': [(D15_KEY, D15_TEXT)],
            'technique': 'Verus: len() == |wf_enc| per type, RDLENGTH = |rdata encoding|, header counts = section lengths (+1 for OPT), all against an abstract std::io::Write contract (emission log + positional buffer), so any writer kind gives the same bytes',
            'text': 'proof for all packets whose names, strings and option lists are within their element limits (no premise on section sizes or RDATA sizes: sections of more than 65535 entries and RDATA of more than 65535 bytes are proved to be refused with an error) and every writer obeying the Write contract: Packet::write_to emits hdr_enc(counts) + sections (+ one OPT record) and nothing else; ResourceRecord::write_to writes RDLENGTH = |RDATA|; errors of the writer propagate through `?` without panics. Packet::write_compressed_to is proved to emit a message that decodes with the header counts, RDLENGTH back-patched to the number of RDATA bytes that follow, and the OPT record exactly once; the vector-returning entry points return exactly the bytes the writer-based ones emit (same spec function)',
            'note': VERUS_NOTE + '; build_bytes_vec / build_bytes_vec_compressed are verified against an assumed model of std::io::Cursor<Vec<u8>> (storage = the vector); RDATA > 65535 bytes and sections > 65535 entries are refused (fix 9f3bf1d, obligation oversized-rdata-refused / counts-not-truncated); len() of SVCB / NSEC is assumed; compressed writer: stream origin 0 only (known finding D15); TXT::new / add_char_string are proved to keep the cached size, add_string / with_* are thin unverified wrappers'},
    'C05': {'standin': ['malformed'], 'verus': True, 'kani': [],
            'technique': 'Verus: Packet::parse / parse_section / ResourceRecord::parse / RData::parse / Question::parse proved against an RFC 1035 envelope spec (chain of entries, RDLENGTH-delimited RDATA, typed content decoded from the message truncated at the RDATA end)',
            'text': 'proof for all byte strings: Ok(p) implies the sections are back-to-back chains of entries starting at offset 12 with the header counts, each record spans name + 10 + RDLENGTH bytes, type/class/ttl/cache-flush are those of the entry, and the cursor after each record is its RDATA end',
            'note': VERUS_NOTE + '; header_buffer count readers are assumed in Verus with the statements proved by the Kani harnesses of C01/C08'},
    'C09': {'standin': ['roundtrip', 'malformed'], 'verus': True, 'kani': ['opt_ttl_layout', 'opt_ttl_parse_side', 'opt_rr_shape'],
            'technique': 'Verus: OPT::parse / write_to against a code-length-value list spec, encode_ttl / extract_rcode_from_ttl against the RFC 6891 TTL layout, ARCOUNT and single OPT record in Packet::write_to, OPT lifting in Packet::parse; Kani loop-free harnesses for the TTL word',
            'text': 'proof: TTL = ext-rcode<<24 | version<<16, CLASS slot = UDP size, options are exactly the code/length/value triples, the OPT record is written once and counted in ARCOUNT, parsing removes the first OPT record and recombines the 12-bit rcode exactly as ((TTL >> 24) << 4) | code(header nibble) -- now part of the packet decoding relation pkt_dec (rcode_lifted), on both the parse and the write side',
            'note': VERUS_NOTE + '; ' + KANI_NOTE + '; Header::opt_rr (closure + array-to-Name conversion + derived Clone) is assumed in Verus with exactly the statement that the Kani harness opt_rr_shape proves (bounded in the option list only: empty); OPT::len is proved (R11)'},
    'C06': {'standin': ['malformed'], 'verus': True, 'kani': [],
            'technique': 'Verus: Name::parse proved equivalent to an RFC 1035 4.1.4 spec decoder (loop invariant + lexicographic measure)',
            'text': 'proof for all byte strings and start offsets: Ok(n) iff the spec decoder yields exactly n\'s labels, cursor = start + in-place length, Err iff the spec decoder fails',
            'note': VERUS_NOTE},
    'C08': {'verus': False, 'kani': ['header_parse_layout', 'header_peek_layout', 'header_write_layout', 'header_flags_algebra'],
            'technique': 'Kani/CBMC loop-free harnesses over all 2^96 headers / all flag-set pairs against a reference layout written from RFC 1035 4.1.1',
            'text': 'complete proof: parse, peek, write-back and the set/remove/has algebra are checked for every header word, id, count tuple, named opcode/rcode and every pair of flag sets',
            'note': KANI_NOTE + '; Packet-level accessors are thin wrappers over Header (by inspection)'},
    'C10': {'standin': ['txt'], 'verus': True, 'kani': ['type_table_all_codes', 'type_mnemonics', 'r1_from_be_bytes_small', 'r1_from_be_bytes_wide', 'r1_to_be_bytes'],
            'technique': 'Verus: per-type ghost encoder/decoder generated from an RFC schema (contracts/schema.py); the real parse/write_to/len bodies are proved against them; Kani for the IANA type-code table',
            'text': 'proof for all inputs for the straight-line types: parse reads exactly the RFC layout (wf_dec), write_to emits exactly the RFC encoding (wf_enc), len equals its size; TXT OPT IPSECKEY NSAP NULL are proved against hand-written RFC specs (lists as code-length-value / length-value relations); for SVCB and NSEC only the parsers are proved (writers use BTreeMap iteration / sort_by: assumed). CharacterString::new / TryFrom<&str> are proved to refuse more than 255 bytes',
            'note': VERUS_NOTE + '; ' + KANI_NOTE},
    'C11': {'standin': ['malformed', 'roundtrip'], 'verus': True,
            'kani': ['header_reserialise_named', 'header_reserialise_reserved'],
            'technique': 'Verus: composition of the deductive contracts, every step machine-checked: Packet::parse establishes pkt_dec(data, p); lemma_parsed_ok (per-type lemma_dec_ok lifted to sections and packets) shows that such a p satisfies the writers\' preconditions; both writers are proved to emit bytes that decode to p; lemma_dec_det shows the decoding relation is deterministic up to observable equality. Kani: loop-free proof for the header word. Stand-in on the real code for what the lemmas do not cover (writer success, derived PartialEq)',
            'text': 'proof for every message of at most 65535 bytes that the parser accepts, whose re-encoding is representable (every RDATA <= 65535 bytes after pointer expansion, message <= 65535 bytes: Packet::fits) and whose header does not carry an unnamed RCODE nibble 11..15 without EDNS (known finding D11): the parsed packet p satisfies pkt_ok && pkt_canon (lemma_parsed_ok), so write_to emits pkt_enc(p) which decodes to p and write_compressed_to emits bytes that decode to p; by lemma_dec_det whatever parse returns for either output is observably equal to p (header fields, EDNS data, sections, every record field). parse cannot reject either output (parser completeness, see C02). Not proved: that the writers return Ok (depends on the io::Write implementation; exercised by the bounded stand-in). Kani (complete): header words with named opcode/rcode are re-serialised bit-exactly; reserved ones are not (D11)',
            'note': VERUS_NOTE + '; ' + KANI_NOTE + '; known finding D11 (reserved opcode / rcode values are rewritten); RDATA that grows beyond 65535 bytes when its compressed names are expanded cannot be re-serialised (refused since fix 9f3bf1d) and is outside the lemma (Packet::fits); SVCB / NSEC writers assumed'},
    'C16': {'standin': ['roundtrip', 'malformed'], 'verus': True, 'level': 'other', 'kani': [],
            'technique': 'Verus: into_owned contracts (same ghost view, same serialisation) generated from the RFC schema for the typed RDATA structs and hand-written for NULL NSAP IPSECKEY TXT OPT NSEC, Name, Label, CharacterString, the rr_wrapper types, RData, Question, ResourceRecord (the Vec-of-elements bodies through normalisation R15); bounded stand-in on the real code for the Eq/Hash agreement and for SVCB::into_owned (BTreeMap)',
            'text': 'proof for 40 into_owned functions: every field of the owned copy has the same view and the copy has the same wf_enc (serialises identically); only SVCB::into_owned is assumed. Bounded: the clause "values that compare equal hash equally" (Name, ResourceRecord incl. records differing only in ttl / cache-flush) and Clone are exercised on the generated corpus, not proved (derived impls are assumed structural). InstanceInformation (simple-mdns, HashSet iteration order) is not covered',
            'explanation': 'bounded: suites `roundtrip` (211 packets: every constructible record kind x 5 name combinations, EDNS, messages straddling 16 KiB) and `malformed` (accepted variants). Not a proof.',
            'note': 'public API only; simple-mdns InstanceInformation clause of C16 is not decided'},
    'C12': {'standin': ['observers', 'malformed'], 'verus': True, 'kani': [],
            'technique': 'Verus contracts on Display for Label and Display for CharacterString with std::fmt::Formatter modelled by one ghost predicate ("the sink failed"); panic-freedom of the parse-produced observers that are inside Verus',
            'text': 'proof for all label / string contents: fmt returns Err only if the formatter\'s sink returned Err and never panics (from_utf8 failure falls back to a lossy rendering); this is what to_string() / format!() and the Debug impls built on them rely on. Display for Name, the Debug impls (format_args!), TXT::attributes / long_attributes and String::try_from are outside Verus: they are listed as unverified observers (they only propagate the results of the two verified functions or use Result-returning std conversions)',
            'note': VERUS_NOTE + '; Formatter::write_str, str::from_utf8, String::from_utf8_lossy are assume_specification items; into_owned / clone / Hash / Eq are derive- or iterator-based and not verified here'},
    'C17': {'standin': ['name_text'], 'verus': True, 'level': 'other',
            'kani': ['r17_is_ascii_alphanumeric_table', 'label_grammar_le65'] + ['suffix_0_0', 'suffix_0_1', 'suffix_0_2', 'suffix_0_3', 'suffix_1_0', 'suffix_1_1', 'suffix_1_2', 'suffix_1_3', 'suffix_2_0', 'suffix_2_1', 'suffix_2_2', 'suffix_2_3', 'suffix_3_0', 'suffix_3_1', 'suffix_3_2', 'suffix_3_3'] + ['link_local_4', 'link_local_5', 'link_local_6', 'link_local_root'],
            'technique': 'Verus contracts on the real bodies: Label::is_valid_label / Label::new against the label grammar of the property statement for labels of every length (the `.iter().skip(1).all(..)` scan through normalisation R17; the std fact u8::is_ascii_alphanumeric is a complete Kani proof over all 256 values); Name::is_subdomain_of == "strictly longer and ends with the other\'s labels" and Name::without == "Some(leading labels) exactly in that case" for names of every shape (the rev/zip/all chain through normalisation R18); Name::is_link_local == "last label is local in any letter case" (R19). Kani/CBMC bounded harnesses on the same real functions stay as an independent re-check that yields concrete counterexamples (grammar <= 65 bytes, suffix algebra <= 3 one-byte labels, link-local last labels of 4, 5, 6 bytes)',
            'text': 'mixed: four of the six clauses proved, two not decided. PROVED for all inputs (Verus, unbounded): (1) Label::new(d) is Ok exactly when d has 1-63 bytes, starts with a letter, digit or underscore, continues with letters, digits, hyphens or underscores and ends with a letter or digit, and the label keeps the bytes it was given; (2) a.is_subdomain_of(b) is true exactly when a has strictly more labels than b and the last |b| labels of a are those of b; (3) a.without(b) is Some exactly in that case and then holds exactly the leading |a|-|b| labels of a; (4) is_link_local is true exactly when the name has a last label and it is `local` in any letter case. NOT decided: Name::new as a whole (splitting on dots + 255-byte rule: LabelsIter + collect::<Result<Vec<_>,_>>() is outside Verus and did not finish under CBMC; exercised only by the bounded stand-in name_text) and the display-then-reparse clause (format_args!)',
            'explanation': 'label grammar, subdomain relation, suffix removal, link-local: deductive proofs (Verus) for every length and shape; the Kani harnesses re-check them within bounds (label length <= 65 bytes; names of <= 3 one-byte labels; last label of 4/5/6 bytes; all byte values, unwinding assertions on). Name::new composition (dot splitting, 255-byte rule) and the display round-trip are only exercised by the bounded stand-in `name_text` (strings up to length 6 over an 8-symbol alphabet, label lengths 0..70, name lengths around 255) and are not proved.',
            'note': VERUS_NOTE + '; ' + KANI_NOTE + '; derived PartialEq / Clone of Label are assumed structural (PartialEqSpecImpl, axiom_label_clone); the std contracts of <[T]>::to_vec and <[u8]>::eq_ignore_ascii_case are assumed; Name::new and Display are not under contract'},
    'C18': {'verus': True, 'kani': ['type_table_all_codes', 'type_mnemonics', 'class_table_all_codes', 'qclass_table_all_codes',
                                    'qtype_table_all_codes', 'match_qclass_matrix', 'match_qtype_matrix'],
            'technique': 'Kani/CBMC loop-free over all 65536 codes and the full match matrix; Verus contracts (from_spec/try_from_spec tables) on the conversions of dns/mod.rs',
            'text': 'complete proof over all 16-bit codes: round trips, IANA numbers, error reporting, match_qclass / match_qtype against the RFC rule, type_code of NULL/unknown/empty records',
            'note': KANI_NOTE + '; MAILA/AXFR/IXFR matching is not constrained by the property and not checked'},
}

ASSUMPTIONS = [
    "Verus 0.2026.09.13 / Z3 and Kani 0.68 / CBMC 6.11 are sound; vstd's specifications of std are correct",
    "R1..R19 syntactic normalisations preserve semantics (DESIGN.md 2.3, 8.3, 8.11, 8.13, 8.18); R1 helper contracts and the u8::is_ascii_alphanumeric table are Kani-proved",
    "slices never exceed isize::MAX bytes (Rust language guarantee, stated as precondition of parse)",
    "std::io::Write / Seek implementations obey the write_all / seek / stream_position contract of vx/prelude/vx.rs",
    "derived PartialEq/Eq/Hash/Clone impls are structural",
    "truncating `as` casts are not Verus obligations; they are only caught through functional post-conditions",
    "functions marked external / external_body / assume_specification in coverage.trusted_base are assumed, not proved",
]
