"""Property table: which obligations decide which property.

1. Tagged clauses: every post-condition / invariant spliced by /verif/contracts carries `// @Cxx:label`.
2. Untagged obligations (Verus' built-in safety obligations: index, slice range, arithmetic overflow, callee
   precondition, termination, spliced proof asserts) are attributed by (file, function, kind) below.
"""
import re

# (file regex, function regex, kinds regex) -> properties
DEFAULTS = [
    # the parse path: anything that could panic / not terminate while parsing untrusted bytes
    (r'dns/(name|character_string|question|resource_record|packet|header)\.rs|dns/rdata/.*\.rs',
     r'(^|::)(parse|parse_rdata|parse_section|new|extract_info_from_opt_rr)\b', r'.*', {'C01'}),
    (r'dns/name\.rs', r'as WireFormat::parse\b', r'invariant.*|termination|assert|postcondition', {'C06'}),
    (r'dns/(question|resource_record|packet)\.rs|dns/rdata/macros\.rs', r'(^|::)(parse|parse_rdata|parse_section)\b', r'postcondition|invariant.*|assert', {'C05'}),
    (r'dns/rdata/.*\.rs|dns/character_string\.rs', r'(^|::)(parse|parse_rdata|write_to|len|write_common|lemma_rt)\b', r'postcondition|invariant.*|assert', {'C10'}),
    (r'dns/.*\.rs', r'(^|::)(lemma_rt|lemma_det)\b', r'.*', {'C02', 'C03', 'C11'}),
    (r'dns/packet\.rs', r'(^|::)lemma_\w+', r'.*', {'C02', 'C03', 'C04', 'C11'}),
    (r'dns/rdata/opt\.rs', r'.*', r'.*', {'C09'}),
    (r'dns/header\.rs', r'(^|::)(opt_rr|extract_info_from_opt_rr)\b', r'.*', {'C09'}),
    # writers must not panic and must emit what their contract says
    (r'dns/.*\.rs', r'(^|::)(write_to|write_common|plain_append|write_header|len|build_bytes_vec|opt_rr|get_flags)\b', r'.*', {'C04'}),
    (r'dns/.*\.rs', r'(^|::)(write_compressed_to|compress_append|build_bytes_vec_compressed)\b', r'.*', {'C03', 'C07'}),
    (r'dns/(packet|resource_record)\.rs', r'(^|::)(write_compressed_to|lemma_rr_compressed)\b', r'.*', {'C04'}),
    (r'dns/.*\.rs', r'(^|::)(fmt|try_from)\b', r'.*', {'C12'}),
    (r'dns/mod\.rs|dns/rdata/(mod|macros)\.rs', r'(^|::)(from|try_from|type_code)\b', r'.*', {'C18'}),
    (r'dns/.*\.rs', r'(^|::)(into_owned|eq|hash)\b', r'.*', {'C16'}),
    (r'vx\.rs', r'.*', r'.*', {'C02', 'C03', 'C06', 'C10'}),   # the spec library's own lemmas
]

def default_props(rel, fn, kind):
    out = set()
    for fr, fnr, kr, ps in DEFAULTS:
        if re.search(fr, rel) and re.search(fnr, fn) and re.fullmatch(kr, kind):
            out |= ps
    return out

D15_KEY = 'scope|dns/packet.rs|Packet::write_compressed_to|requires io_buf(old(out)).len() == 0 && io_pos(old(out)) == 0'
D15_TEXT = ('compressed writers record absolute stream positions as pointer targets and restore the position with SeekFrom::End(0): '
            'the output is only correct when the writer starts empty at position 0 (contract precondition); the property also demands '
            'non-zero starting offsets and pre-filled storage')
VERUS_NOTE = ("trusted: Verus/Z3, vstd specs of std, the assume_specification/external_body items listed in the evidence's trusted_base, "
              "the six syntactic normalisations R1-R6, slices <= isize::MAX; truncating `as` casts are caught only via functional post-conditions")
KANI_NOTE = "trusted: Kani/CBMC; harness reference tables written from the RFCs/IANA registry (kani/harness.rs, contracts/schema.py)"

PROPS = {
    'C01': {'standin': ['malformed'], 'verus': True, 'kani': ['header_peek_short_buffers', 'header_parse_total'],
            'technique': 'Verus contracts on every parse-path function of the real crate (panic-freedom, termination, cursor discipline, allocation bound) + loop-free Kani harnesses for the header-peek functions',
            'text': 'proof for all inputs: every index, slice range, arithmetic operation, unwrap and loop of the parse path is a discharged Verus obligation on the real function bodies (in-situ annotation); header peeks are a complete loop-free CBMC proof over all buffers of length 0..=13',
            'note': VERUS_NOTE + '; ' + KANI_NOTE + '; the allocator and Vec growth policy are not modelled (allocation is bounded through with_capacity arguments and one push per consumed byte)'},
    'C02': {'standin': ['roundtrip', 'txt'], 'verus': True, 'kani': ['header_write_layout'],
            'technique': 'Verus: encoder/decoder pair contracts per wire element (ghost wf_enc / wf_dec from the RFCs) on the real write_to / parse bodies, Packet::write_to proved to emit header + sections; round-trip lemmas for names; Kani for the header word',
            'text': 'proof per element: every write_to emits exactly wf_enc, every parse accepts exactly what wf_dec describes; the name round-trip lemma (decode(pre+encode(n)+post) == n) is proved; the per-type and packet-level composition decode(encode(p)) == p is stated over these contracts but not yet machine-checked as one lemma',
            'note': VERUS_NOTE + '; ' + KANI_NOTE + '; Name::len / OPT::len / SVCB::len and the writers of TXT SVCB NSEC IPSECKEY NSAP are assumed (external_body) in this version'},
    'C03': {'standin': ['roundtrip'], 'verus': True, 'kani': [],
            'technique': 'Verus: Name::compress_append (real body) proved against the RFC 1035 decoder with a ghost invariant on the suffix table; every compressed writer (Question, ResourceRecord incl. the RDLENGTH seek back-patch, RData, wrappers, the eight typed overrides SOA MX MINFO RP AFSDB RT HINFO ISDN, Packet::write_compressed_to) proved to emit bytes that decode to the very value written and are never longer than the plain encoding; default writers via generated per-type round-trip lemmas',
            'text': 'proof for all packets within DNS size limits written at stream origin 0: Packet::write_compressed_to yields a message m with pkt_dec(m) == the packet (same relation that Packet::parse establishes) and |m| <= |plain encoding|; offsets >= 16384 are never recorded as pointer targets (obligation `pos < 0x4000`). The RDLENGTH seek-back patch is covered by a window clause carried by every compressed writer (facts hold on every buffer that differs only inside a not-yet-patched RDLENGTH slot); no proof step is assumed',
            'note': VERUS_NOTE + '; HashMap key model for &[Label]; writer must start at stream position 0 (known finding D15 otherwise)'},
    'C07': {'standin': ['roundtrip'], 'verus': True, 'kani': [], 'scope_findings': [(D15_KEY, D15_TEXT)],
            'technique': 'Verus: post-condition of Name::compress_append (every recorded target < 0x4000, inside the message, decoding to the suffix; pointer emitted iff the suffix is in the table; a name already in the table is written as 2 bytes) + trait-level obligation that the no-compression types (SRV NAPTR KX RRSIG NSEC IPSECKEY SVCB HTTPS) are written in full',
            'text': 'proof: every pointer emitted is 0xC000|p with p < 0x4000 the recorded start of that label suffix (strictly before the current position) and expands to the intended name; types on the RFC no-compression list satisfy io_buf == old + wf_enc (their default write_compressed_to is verified once, generically); a repeated name costs 2 bytes',
            'note': VERUS_NOTE + '; stream origin must be the message origin (known finding D15)'},
    'C04': {'standin': ['roundtrip', 'txt'], 'verus': True, 'kani': ['header_write_layout'], 'scope_findings': [(D15_KEY, D15_TEXT)],
            'technique': 'Verus: len() == |wf_enc| per type, RDLENGTH = |rdata encoding|, header counts = section lengths (+1 for OPT), all against an abstract std::io::Write contract (emission log + positional buffer), so any writer kind gives the same bytes',
            'text': 'proof for all packets within DNS size limits and every writer obeying the Write contract: Packet::write_to emits hdr_enc(counts) + sections (+ one OPT record) and nothing else; ResourceRecord::write_to writes RDLENGTH = |RDATA|; errors of the writer propagate through `?` without panics. Packet::write_compressed_to is proved to emit a message that decodes with the header counts, RDLENGTH back-patched to the number of RDATA bytes that follow, and the OPT record exactly once',
            'note': VERUS_NOTE + '; build_bytes_vec* (Cursor<Vec> wrappers) are not verified; len() of types listed as external_body in the evidence is assumed; compressed writer: stream origin 0 only (known finding D15); TXT size cache set by unverified constructors (TryFrom<&str>) is assumed consistent'},
    'C05': {'standin': ['malformed'], 'verus': True, 'kani': [],
            'technique': 'Verus: Packet::parse / parse_section / ResourceRecord::parse / RData::parse / Question::parse proved against an RFC 1035 envelope spec (chain of entries, RDLENGTH-delimited RDATA, typed content decoded from the message truncated at the RDATA end)',
            'text': 'proof for all byte strings: Ok(p) implies the sections are back-to-back chains of entries starting at offset 12 with the header counts, each record spans name + 10 + RDLENGTH bytes, type/class/ttl/cache-flush are those of the entry, and the cursor after each record is its RDATA end',
            'note': VERUS_NOTE + '; header_buffer count readers are assumed in Verus with the statements proved by the Kani harnesses of C01/C08'},
    'C09': {'standin': ['roundtrip', 'malformed'], 'verus': True, 'kani': ['opt_ttl_layout', 'opt_ttl_parse_side', 'opt_rr_shape'],
            'technique': 'Verus: OPT::parse / write_to against a code-length-value list spec, encode_ttl / extract_rcode_from_ttl against the RFC 6891 TTL layout, ARCOUNT and single OPT record in Packet::write_to, OPT lifting in Packet::parse; Kani loop-free harnesses for the TTL word',
            'text': 'proof: TTL = ext-rcode<<24 | version<<16, CLASS slot = UDP size, options are exactly the code/length/value triples, the OPT record is written once and counted in ARCOUNT, parsing removes the first OPT record and recombines the 12-bit rcode (for header nibbles that map to named codes)',
            'note': VERUS_NOTE + '; ' + KANI_NOTE + '; Header::opt_rr (closure + array-to-Name conversion) is assumed with the contract checked by inspection; OPT::len assumed'},
    'C06': {'standin': ['malformed'], 'verus': True, 'kani': [],
            'technique': 'Verus: Name::parse proved equivalent to an RFC 1035 4.1.4 spec decoder (loop invariant + lexicographic measure)',
            'text': 'proof for all byte strings and start offsets: Ok(n) iff the spec decoder yields exactly n\'s labels, cursor = start + in-place length, Err iff the spec decoder fails',
            'note': VERUS_NOTE},
    'C08': {'verus': False, 'kani': ['header_parse_layout', 'header_peek_layout', 'header_write_layout', 'header_flags_algebra'],
            'technique': 'Kani/CBMC loop-free harnesses over all 2^96 headers / all flag-set pairs against a reference layout written from RFC 1035 4.1.1',
            'text': 'complete proof: parse, peek, write-back and the set/remove/has algebra are checked for every header word, id, count tuple, named opcode/rcode and every pair of flag sets',
            'note': KANI_NOTE + '; Packet-level accessors are thin wrappers over Header (by inspection)'},
    'C10': {'verus': True, 'kani': ['type_table_all_codes', 'type_mnemonics'],
            'technique': 'Verus: per-type ghost encoder/decoder generated from an RFC schema (contracts/schema.py); the real parse/write_to/len bodies are proved against them; Kani for the IANA type-code table',
            'text': 'proof for all inputs for the straight-line types: parse reads exactly the RFC layout (wf_dec), write_to emits exactly the RFC encoding (wf_enc), len equals its size; loop/union types (TXT OPT SVCB NSEC IPSECKEY NSAP) are currently covered for safety only',
            'note': VERUS_NOTE + '; ' + KANI_NOTE},
    'C11': {'standin': ['malformed', 'roundtrip'], 'verus': True, 'level': 'other',
            'kani': ['header_reserialise_named', 'header_reserialise_reserved'],
            'technique': 'composition of the deductive contracts (Packet::parse establishes pkt_dec(data, p); every writer is proved to emit bytes that satisfy pkt_dec(output, p) for p within limits and canonical) + a loop-free Kani proof for the header word + a bounded stand-in on the real code for the one step that is not machine-checked (parser output is within limits and canonical)',
            'text': 'bounded for the composition, proof for the parts: (1) proved: parse => pkt_dec; write_compressed_to => pkt_dec(output, self) and per-element round-trip lemmas for every type, under wf_ok && wf_canon; (2) complete (Kani): header words with named opcode/rcode are re-serialised bit-exactly; reserved ones are not (known finding D11); (3) bounded: that every accepted message yields a packet satisfying wf_ok && wf_canon and re-serialises (plain and compressed) to a message that parses to the same packet is checked on ~40000 accepted/rejected variants of generated messages, not proved',
            'explanation': 'bounded: the lemma "wf_dec(data, p, v, p2) implies v.wf_ok() && v.wf_canon()" is not yet machine-checked; it is replaced by the stand-in suite `malformed` (every truncation, +-1 and 4 fixed values at every byte of ~45 generated messages < 600 bytes and 20 hand-made pointer graphs: each accepted variant is re-serialised plain and compressed and re-parsed) and `roundtrip`. Deductive parts and the Kani header harnesses are counted under obligations; the stand-in is not.',
            'note': VERUS_NOTE + '; ' + KANI_NOTE + '; known finding D11 (reserved opcode / rcode values are rewritten); uncompressed RDATA larger than 65535 bytes after pointer expansion is outside wf_ok'},
    'C16': {'standin': ['roundtrip', 'malformed'], 'verus': True, 'level': 'other', 'kani': [],
            'technique': 'Verus: into_owned contracts (same ghost view, same serialisation) generated from the RFC schema for the typed RDATA structs and hand-written for NULL NSAP IPSECKEY, the rr_wrapper types, RData, Question, ResourceRecord; bounded stand-in on the real code for the iterator-based bodies (Name, Label, CharacterString, TXT, OPT, NSEC, SVCB) and for the Eq/Hash agreement',
            'text': 'proof for 30+ into_owned functions: every field of the owned copy has the same view and the copy has the same wf_enc (serialises identically), given the assumed contracts of the seven iterator/Into-based bodies; bounded: those seven bodies and the clause "values that compare equal hash equally" (Name, ResourceRecord incl. records differing only in ttl / cache-flush) are exercised on the generated corpus, not proved. InstanceInformation (simple-mdns, HashSet iteration order) is not covered',
            'explanation': 'bounded: suites `roundtrip` (211 packets: every constructible record kind x 5 name combinations, EDNS, messages straddling 16 KiB) and `malformed` (accepted variants). Not a proof.',
            'note': 'public API only; simple-mdns InstanceInformation clause of C16 is not decided'},
    'C12': {'standin': ['observers', 'malformed'], 'verus': True, 'kani': [],
            'technique': 'Verus contracts on Display for Label and Display for CharacterString with std::fmt::Formatter modelled by one ghost predicate ("the sink failed"); panic-freedom of the parse-produced observers that are inside Verus',
            'text': 'proof for all label / string contents: fmt returns Err only if the formatter\'s sink returned Err and never panics (from_utf8 failure falls back to a lossy rendering); this is what to_string() / format!() and the Debug impls built on them rely on. Display for Name, the Debug impls (format_args!), TXT::attributes / long_attributes and String::try_from are outside Verus: they are listed as unverified observers (they only propagate the results of the two verified functions or use Result-returning std conversions)',
            'note': VERUS_NOTE + '; Formatter::write_str, str::from_utf8, String::from_utf8_lossy are assume_specification items; into_owned / clone / Hash / Eq are derive- or iterator-based and not verified here'},
    'C17': {'standin': ['name_text'], 'verus': False, 'level': 'other',
            'kani': ['label_grammar_le65'] + ['suffix_0_0', 'suffix_0_1', 'suffix_0_2', 'suffix_0_3', 'suffix_1_0', 'suffix_1_1', 'suffix_1_2', 'suffix_1_3', 'suffix_2_0', 'suffix_2_1', 'suffix_2_2', 'suffix_2_3', 'suffix_3_0', 'suffix_3_1', 'suffix_3_2', 'suffix_3_3'] + ['link_local_4', 'link_local_5', 'link_local_6', 'link_local_root'],
            'technique': 'Kani/CBMC bounded harnesses on the real functions (Label::new grammar for every byte string of length <= 65; is_subdomain_of / without for all shapes of <= 3 one-byte labels; is_link_local for last labels of length 4, 5, 6)',
            'text': 'bounded: each harness is exhaustive within its stated bound (all byte values), not a proof for all lengths. Decided: the label grammar clause for labels up to 65 bytes (longer ones take the same early return), the suffix relation and suffix removal for every pair of names with 0..=3 one-byte labels, link-local detection for one- and two-label names whose last label has 4, 5 or 6 bytes. NOT decided: Name::new as a whole (splitting on dots + 255-byte rule: collect::<Result<Vec<_>,_>>() did not finish under CBMC) and the display-then-reparse clause (format_args!)',
            'explanation': 'bounded: Kani harnesses with #[kani::unwind]; bounds: label length <= 65 bytes; names of <= 3 labels of exactly 1 byte for the suffix algebra; last label of 4/5/6 bytes for link-local. Within each bound all byte values are covered (CBMC, unwinding assertions on). Name::new composition and display round-trip are not decided by any check.',
            'note': KANI_NOTE + '; bounded stand-in, never counted as proved'},
    'C18': {'verus': True, 'kani': ['type_table_all_codes', 'type_mnemonics', 'class_table_all_codes', 'qclass_table_all_codes',
                                    'qtype_table_all_codes', 'match_qclass_matrix', 'match_qtype_matrix'],
            'technique': 'Kani/CBMC loop-free over all 65536 codes and the full match matrix; Verus contracts (from_spec/try_from_spec tables) on the conversions of dns/mod.rs',
            'text': 'complete proof over all 16-bit codes: round trips, IANA numbers, error reporting, match_qclass / match_qtype against the RFC rule, type_code of NULL/unknown/empty records',
            'note': KANI_NOTE + '; MAILA/AXFR/IXFR matching is not constrained by the property and not checked'},
}

ASSUMPTIONS = [
    "Verus 0.2026.09.13 / Z3 and Kani 0.68 / CBMC 6.11 are sound; vstd's specifications of std are correct",
    "R1..R6 syntactic normalisations preserve semantics (DESIGN.md 2.3); R1 helper contracts are Kani-proved",
    "slices never exceed isize::MAX bytes (Rust language guarantee, stated as precondition of parse)",
    "std::io::Write / Seek implementations obey the write_all / seek / stream_position contract of vx/prelude/vx.rs",
    "derived PartialEq/Eq/Hash/Clone impls are structural",
    "truncating `as` casts are not Verus obligations; they are only caught through functional post-conditions",
    "functions marked external / external_body / assume_specification in coverage.trusted_base are assumed, not proved",
]
