#!/usr/bin/env python3
"""Bounded stand-ins / counterexample search on the real crate (replay/src/main.rs, public API only).

Never proves anything: every suite states its bound and is reported under coverage.bounded_standins.  A failure is a
concrete input on which the real code violates the property (replayable with `vxreplay <suite>`)."""
import os, sys, json, shutil, subprocess, time

HERE = os.path.dirname(os.path.abspath(__file__))
VERIF = os.path.dirname(HERE)
REPO = os.environ.get('VERIF_REPO', '/repo')

# which properties a failing check of a suite speaks about (prefix of the check name, else the suite default)
SUITE_DEFAULT = {'name_text': ['C17'], 'observers': ['C12'], 'txt': ['C04', 'C02'], 'roundtrip': [], 'malformed': [], 'fuzz': []}

def props_of(suite, check):
    head = check.split(' ')[0]
    ps = [x for x in head.split('/') if len(x) >= 3 and x[0] == 'C' and x[1:].isdigit()]
    if ps:
        return ps
    if 'panic' in check or 'hang' in check:
        return ['C01', 'C12'] if suite in ('malformed', 'fuzz') else SUITE_DEFAULT.get(suite, [])
    return SUITE_DEFAULT.get(suite, [])

def run(scratch, suites, timeout=900):
    t0 = time.time()
    src = os.path.join(scratch, 'rsimple-dns')
    shutil.rmtree(src, ignore_errors=True)
    shutil.copytree(os.path.join(REPO, 'simple-dns'), src, ignore=shutil.ignore_patterns('target', 'benches'))
    ct = open(os.path.join(src, 'Cargo.toml')).read()
    import re
    ct = re.sub(r'\[\[bench\]\][^\[]*', '', ct)
    ct = re.sub(r'\[dev-dependencies\][^\[]*', '', ct)
    open(os.path.join(src, 'Cargo.toml'), 'w').write(ct)
    rp = os.path.join(scratch, 'vxreplay')
    shutil.rmtree(rp, ignore_errors=True)
    shutil.copytree(os.path.join(VERIF, 'replay', 'src'), os.path.join(rp, 'src'))
    open(os.path.join(rp, 'Cargo.toml'), 'w').write(open(os.path.join(VERIF, 'replay', 'Cargo.toml.in')).read().replace('@SIMPLE_DNS@', src))
    shutil.copy(os.path.join(REPO, 'Cargo.lock'), os.path.join(rp, 'Cargo.lock'))
    env = dict(os.environ, CARGO_NET_OFFLINE='true', CARGO_TARGET_DIR=os.path.join(scratch, 'rtarget'))
    b = subprocess.run(['cargo', 'build', '--offline', '-q'], cwd=rp, env=env, capture_output=True, text=True)
    if b.returncode != 0:
        # lock file of the workspace may not fit the two-crate graph: retry without it
        os.remove(os.path.join(rp, 'Cargo.lock'))
        b = subprocess.run(['cargo', 'build', '--offline', '-q'], cwd=rp, env=env, capture_output=True, text=True)
    if b.returncode != 0:
        return {'status': 'build-failed', 'detail': b.stderr[-2000:], 'reports': [], 'wall_s': time.time() - t0}
    try:
        r = subprocess.run([os.path.join(scratch, 'rtarget', 'debug', 'vxreplay'), ','.join(suites)], capture_output=True, text=True, timeout=timeout)
    except subprocess.TimeoutExpired:
        return {'status': 'timeout', 'reports': [], 'wall_s': time.time() - t0}
    reports = []
    for line in r.stdout.splitlines():
        line = line.strip()
        if line.startswith('{'):
            try:
                reports.append(json.loads(line))
            except Exception:
                pass
    return {'status': 'ok' if len(reports) == len(suites) else 'incomplete', 'reports': reports, 'wall_s': time.time() - t0,
            'cmd': 'vxreplay ' + ','.join(suites)}

if __name__ == '__main__':
    os.makedirs('/tmp/vx/sd', exist_ok=True)
    res = run('/tmp/vx/sd', sys.argv[1].split(',') if len(sys.argv) > 1 else ['name_text', 'roundtrip', 'malformed', 'observers', 'txt'])
    print(json.dumps({k: v for k, v in res.items() if k != 'reports'}))
    for rep in res['reports']:
        print(rep['suite'], rep['cases'], len(rep['failures']), [f['check'] for f in rep['failures'][:3]])
