#!/usr/bin/env python3
"""Vacuity guard: a second annotated copy in which every verified exec function starts with `assert(false)`.
Every canary must be reported as a failing assertion; a canary that is *not* reported means that function's
requires / inherited trait contract / module-level axioms are contradictory (its proof would be vacuous)."""
import os, re, sys, json
HERE = os.path.dirname(os.path.abspath(__file__))
sys.path.insert(0, HERE)
sys.path.insert(0, os.path.join(os.path.dirname(HERE), 'contracts'))
import xf, run_verus

def verus_regions(s):
    out = []
    for m in re.finditer(r'verus!\s*\{', s):
        try:
            e = xf.match_close(s, m.end() - 1)
        except xf.AnchorLost:
            continue
        out.append((m.end(), e))
    return out

def plant(c):
    """returns list of (rel, name) canaries"""
    planted = []
    for rel in sorted(c.cache.keys()):
        if not rel.endswith('.rs') or rel == 'vx.rs':
            continue
        s = c.rd(rel)
        if not verus_regions(s):
            continue
        # path covers requested by the contracts: `/* @cover: COND */` inside ghost code becomes `assert(!(COND))`, which must
        # be *reported* (COND is not refutable there): a cover that verifies means that path is contradictory (vacuous proofs)
        covers = []
        def cov(m):
            name = 'cover_%d_%s' % (len(covers), re.sub(r'\W+', '_', m.group(1))[:40])
            covers.append(name)
            return 'if %s { crate::vx::vx_canary(); } /* vx-canary %s */' % (m.group(1), name)
        s = re.sub(r'/\* @cover: (.*?) \*/', cov, s)
        regs = verus_regions(s)
        inserts = []
        for m in xf.code_find_all(s, r'\bfn\s+([A-Za-z_][A-Za-z0-9_]*)'):
            i = m.start()
            if not any(a <= i < b for a, b in regs):
                continue
            ls = s.rfind('\n', 0, i) + 1
            pre = s[ls:i]
            if re.search(r'\b(spec|proof)\s*(\([a-z]+\)\s*)?$', pre) or 'spec fn' in s[ls:m.end()] or 'proof fn' in s[ls:m.end()]:
                continue
            k = xf.attrs_start(s, ls)
            attrs = s[k:ls]
            if 'verifier::external' in attrs:
                continue
            try:
                po = s.index('(', m.end())
                pc = xf.match_close(s, po, '(', ')')
                jb = xf.next_code(s, pc, '{')
                semi = s.find(';', pc)
                if 0 <= semi < jb and '{' not in s[pc:semi]:
                    continue
            except (xf.AnchorLost, ValueError):
                continue
            inserts.append((jb + 1, m.group(1)))
        # every ghost block spliced into an exec function is a point on some path: a canary at its head must be reported too
        fn_spans = []
        for pos, name in inserts:
            try:
                fn_spans.append((pos, xf.match_close(s, pos - 1), name))
            except xf.AnchorLost:
                pass
        pbs = []
        for m in xf.code_find_all(s, r'\bproof\s*\{'):
            owner = [n for (a, b, n) in fn_spans if a <= m.start() < b]
            if owner:
                pbs.append((m.end(), 'pb%d_%s' % (len(pbs), owner[-1])))
        # a canary is a call of `proof fn vx_canary() requires false`: reported as a failed precondition and, unlike a failed
        # assert, not assumed afterwards -- canaries on one path do not mask each other
        for pos, name, kind in sorted([(p, n, 'fn') for p, n in inserts] + [(p, n, 'pb') for p, n in pbs], reverse=True):
            txt = ' proof { crate::vx::vx_canary(); } /* vx-canary %s */' if kind == 'fn' else ' crate::vx::vx_canary(); /* vx-canary %s */'
            s = s[:pos] + txt % name + s[pos:]
        for pos, name in pbs:
            planted.append((rel, name))
        c.wr(rel, s)
        for pos, name in inserts:
            planted.append((rel, name))
        for name in covers:
            planted.append((rel, name))
    return planted

def run(scratch):
    planted = []
    def post(c):
        planted.extend(plant(c))
    c = run_verus.build(scratch, run_verus.UNITS, post)
    r = run_verus.run(c)
    hit = set()
    for d in r['diags']:
        if d['level'] != 'error':
            continue
        for sp in d['spans']:
            for t in sp.get('text', []):
                m = re.search(r'vx-canary (\w+)', t['text'])
                if m and sp.get('is_primary'):
                    hit.add((sp['file_name'].replace('src/', ''), m.group(1)))
    # functions whose canary run hit the resource limit: their unreported canaries are inconclusive, not missing
    limited = set()
    for d in r['diags']:
        if d['level'] == 'error' and 'Resource limit' in d['message']:
            for sp in d['spans']:
                for t in sp.get('text', []):
                    m = re.search(r'\bfn\s+(\w+)', t['text'])
                    if m:
                        limited.add((sp['file_name'].replace('src/', ''), m.group(1)))
    def fn_of(name):
        m = re.match(r'(?:pb\d+_)(\w+)$', name)
        return m.group(1) if m else name
    # macro-expanded functions are reported once per expansion site with the same text; set semantics is enough
    unrep = [p for p in planted if p not in hit]
    inconclusive = [p for p in unrep if (p[0], fn_of(p[1])) in limited or (p[1].startswith('cover_') and any(l[0] == p[0] for l in limited))]
    missing = [p for p in unrep if p not in inconclusive]
    return {'planted_list': planted, 'planted': len(planted), 'reported': len([p for p in planted if p in hit]), 'missing': missing,
            'inconclusive': inconclusive,
            'status': r['status'], 'results': (r.get('json') or {}).get('verification-results')}

if __name__ == '__main__':
    res = run(sys.argv[1] if len(sys.argv) > 1 else '/tmp/vx/vac')
    res.pop('planted_list')
    print(json.dumps(res, indent=1))
