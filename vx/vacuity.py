#!/usr/bin/env python3
"""Vacuity guard: a second annotated copy in which every verified exec function starts with `assert(false)`.
Every canary must be reported as a failing assertion; a canary that is *not* reported means that function's
requires / inherited trait contract / module-level axioms are contradictory (its proof would be vacuous)."""
import os, re, sys, json
HERE = os.path.dirname(os.path.abspath(__file__))
sys.path.insert(0, HERE)
sys.path.insert(0, os.path.join(os.path.dirname(HERE), 'contracts'))
import xf, run_verus

def verus_regions(s):
    out = []
    for m in re.finditer(r'verus!\s*\{', s):
        try:
            e = xf.match_close(s, m.end() - 1)
        except xf.AnchorLost:
            continue
        out.append((m.end(), e))
    return out

def plant(c):
    """returns list of (rel, line, fn) canaries"""
    planted = []
    for rel in sorted(c.cache.keys()):
        if not rel.endswith('.rs') or rel == 'vx.rs':
            continue
        s = c.rd(rel)
        regs = verus_regions(s)
        if not regs:
            continue
        inserts = []
        for m in xf.code_find_all(s, r'\bfn\s+([A-Za-z_][A-Za-z0-9_]*)'):
            i = m.start()
            if not any(a <= i < b for a, b in regs):
                continue
            ls = s.rfind('\n', 0, i) + 1
            pre = s[ls:i]
            if re.search(r'\b(spec|proof)\s*(\([a-z]+\)\s*)?$', pre) or 'spec fn' in s[ls:m.end()] or 'proof fn' in s[ls:m.end()]:
                continue
            k = xf.attrs_start(s, ls)
            attrs = s[k:ls]
            if 'verifier::external' in attrs:
                continue
            try:
                po = s.index('(', m.end())
                pc = xf.match_close(s, po, '(', ')')
                jb = xf.next_code(s, pc, '{')
                semi = s.find(';', pc)
                if 0 <= semi < jb and '{' not in s[pc:semi]:
                    continue
            except (xf.AnchorLost, ValueError):
                continue
            # skip closures' "fn" false positives and macro fragments without a body
            inserts.append((jb + 1, m.group(1)))
        for pos, name in sorted(inserts, reverse=True):
            s = s[:pos] + ' assert(false); /* vx-canary %s */' % name + s[pos:]
        c.wr(rel, s)
        for pos, name in inserts:
            planted.append((rel, name))
    return planted

def run(scratch):
    planted = []
    def post(c):
        planted.extend(plant(c))
    c = run_verus.build(scratch, run_verus.UNITS, post)
    r = run_verus.run(c)
    hit = set()
    for d in r['diags']:
        if d['level'] != 'error':
            continue
        for sp in d['spans']:
            for t in sp.get('text', []):
                m = re.search(r'vx-canary (\w+)', t['text'])
                if m and 'assert' in d['message']:
                    hit.add((sp['file_name'].replace('src/', ''), m.group(1)))
    # macro-expanded functions are reported once per expansion site with the same text; set semantics is enough
    missing = [p for p in planted if p not in hit]
    return {'planted': len(planted), 'reported': len([p for p in planted if p in hit]), 'missing': missing,
            'status': r['status'], 'results': (r.get('json') or {}).get('verification-results')}

if __name__ == '__main__':
    res = run(sys.argv[1] if len(sys.argv) > 1 else '/tmp/vx/vac')
    print(json.dumps(res, indent=1))
