// /verif/vx/prelude/vx.rs -- trusted shims, assumed std specs and the RFC spec library.
// Copied into the scratch copy of the crate as src/vx.rs on every run (never into /repo).
#![allow(unused_imports, dead_code, unused_variables, non_snake_case)]
use vstd::prelude::*;
use vstd::std_specs::hash::*;
use std::borrow::Cow;
use std::io::SeekFrom;
use vstd::std_specs::bits::*;

verus! {

// ======================================================================== external types
#[verifier::external_type_specification] #[verifier::external_body]
pub struct ExTryFromSliceError(std::array::TryFromSliceError);
#[verifier::external_type_specification] #[verifier::external_body]
pub struct ExFromUtf8Error(std::string::FromUtf8Error);
#[verifier::external_type_specification] #[verifier::external_body]
pub struct ExUtf8Error(std::str::Utf8Error);
#[verifier::external_type_specification] #[verifier::external_body]
pub struct ExIoError(std::io::Error);
#[verifier::external_type_specification] #[verifier::external_body]
pub struct ExIpv4Addr(std::net::Ipv4Addr);
#[verifier::external_type_specification] #[verifier::external_body]
pub struct ExIpv6Addr(std::net::Ipv6Addr);
#[verifier::external_type_specification]
pub struct ExSeekFrom(std::io::SeekFrom);

// ======================================================================== big-endian integers
/// value of a big-endian byte string
pub open spec fn be_nat(s: Seq<u8>) -> nat
    decreases s.len()
{
    if s.len() == 0 { 0 } else { be_nat(s.drop_last()) * 256 + s.last() as nat }
}

/// n-byte big-endian encoding of v (v < 256^n)
pub open spec fn enc_be(v: nat, n: nat) -> Seq<u8>
    decreases n
{
    if n == 0 { Seq::empty() } else { enc_be(v / 256, (n - 1) as nat).push((v % 256) as u8) }
}

pub open spec fn pow256(n: nat) -> nat
    decreases n
{ if n == 0 { 1 } else { 256 * pow256((n - 1) as nat) } }

pub proof fn lemma_enc_be_len(v: nat, n: nat)
    ensures enc_be(v, n).len() == n
    decreases n
{ if n > 0 { lemma_enc_be_len(v / 256, (n - 1) as nat); } }

pub proof fn lemma_be_enc(v: nat, n: nat)
    requires v < pow256(n)
    ensures be_nat(enc_be(v, n)) == v
    decreases n
{
    if n > 0 {
        let e = enc_be(v / 256, (n - 1) as nat);
        assert(v / 256 < pow256((n - 1) as nat)) by(nonlinear_arith)
            requires v < 256 * pow256((n - 1) as nat);
        lemma_be_enc(v / 256, (n - 1) as nat);
        assert(e.push((v % 256) as u8).drop_last() =~= e);
        assert(v == (v / 256) * 256 + v % 256) by(nonlinear_arith);
    }
}

pub proof fn lemma_enc_be_inj(s: Seq<u8>)
    ensures enc_be(be_nat(s), s.len()) == s, be_nat(s) < pow256(s.len())
    decreases s.len()
{
    if s.len() > 0 {
        let d = s.drop_last();
        lemma_enc_be_inj(d);
        let v = be_nat(s);
        let l = s.last() as nat;
        assert(v == be_nat(d) * 256 + l);
        assert(v / 256 == be_nat(d) && v % 256 == l) by(nonlinear_arith)
            requires v == be_nat(d) * 256 + l, l < 256;
        assert(d.push(s.last()) =~= s);
        assert(v < 256 * pow256((s.len() - 1) as nat)) by(nonlinear_arith)
            requires v == be_nat(d) * 256 + l, l < 256, be_nat(d) < pow256((s.len() - 1) as nat);
    }
}

/// a leading zero octet does not change the value
pub proof fn lemma_be_nat_prepend_zero(s: Seq<u8>)
    ensures be_nat(seq![0u8] + s) == be_nat(s)
    decreases s.len()
{
    let z = seq![0u8] + s;
    if s.len() == 0 {
        reveal_with_fuel(be_nat, 2);
        assert(z.drop_last() =~= Seq::<u8>::empty());
    } else {
        assert(z.drop_last() =~= seq![0u8] + s.drop_last());
        assert(z.last() == s.last());
        lemma_be_nat_prepend_zero(s.drop_last());
    }
}
/// small values have a leading zero octet
pub proof fn lemma_enc_be_leading_zero(v: nat, n: nat)
    requires v < pow256(n)
    ensures enc_be(v, n + 1) == seq![0u8] + enc_be(v, n)
    decreases n
{
    if n == 0 {
        reveal_with_fuel(enc_be, 2);
        assert(enc_be(v, 1) =~= seq![0u8] + enc_be(v, 0));
    } else {
        assert(v / 256 < pow256((n - 1) as nat)) by(nonlinear_arith) requires v < 256 * pow256((n - 1) as nat);
        lemma_enc_be_leading_zero(v / 256, (n - 1) as nat);
        assert(enc_be(v, n + 1) =~= seq![0u8] + enc_be(v, n));
    }
}

pub proof fn lemma_pow256_vals()
    ensures pow256(1) == 0x100, pow256(2) == 0x1_0000, pow256(4) == 0x1_0000_0000,
            pow256(3) == 0x100_0000, pow256(6) == 0x1_0000_0000_0000,
            pow256(8) == 0x1_0000_0000_0000_0000, pow256(16) == 0x1_0000_0000_0000_0000_0000_0000_0000_0000,
{
    reveal_with_fuel(pow256, 17);
}

pub open spec fn be16(a: u8, b: u8) -> u16 { ((a as u16) << 8 | (b as u16)) }
pub open spec fn enc16(v: u16) -> Seq<u8> { seq![(v >> 8) as u8, (v & 0xff) as u8] }
pub open spec fn i32_bits(x: i32) -> nat { if x >= 0 { x as nat } else { (x + 0x1_0000_0000) as nat } }
pub open spec fn bits_i32(v: nat) -> i32 { if v < 0x8000_0000 { v as i32 } else { (v - 0x1_0000_0000) as i32 } }

pub proof fn lemma_be16_enc16(v: u16)
    ensures be16((v >> 8) as u8, (v & 0xff) as u8) == v, enc16(v).len() == 2
{
    assert((((v >> 8) as u8 as u16) << 8 | ((v & 0xff) as u8 as u16)) == v) by(bit_vector);
}
pub proof fn lemma_be16_nat(a: u8, b: u8)
    ensures be16(a, b) as nat == be_nat(seq![a, b]), be16(a, b) == a as nat * 256 + b as nat,
{
    assert(((a as u16) << 8 | (b as u16)) == (a as u16) * 256 + (b as u16)) by(bit_vector);
    let s = seq![a, b];
    reveal_with_fuel(be_nat, 3);
    assert(s.drop_last() =~= seq![a]);
    assert(s.drop_last().drop_last() =~= Seq::<u8>::empty());
}

pub proof fn lemma_enc16_nat(v: u16)
    ensures enc16(v) == enc_be(v as nat, 2)
{
    reveal_with_fuel(enc_be, 3);
    assert((v >> 8) as u8 == ((v as nat / 256) % 256) as u8 && (v & 0xff) as u8 == (v as nat % 256) as u8) by {
        assert((v >> 8) == v / 256 && (v & 0xff) == v % 256) by(bit_vector);
    }
    assert(enc_be(v as nat, 2) =~= enc16(v));
}

// ---- R1 helpers: body is literally the rewritten idiom; contracts are discharged by Kani (kani/shims.rs)
#[verifier::external_body]
pub fn be_u8(s: &[u8]) -> (r: std::result::Result<u8, std::array::TryFromSliceError>)
    ensures s.len() == 1 ==> r is Ok && r.unwrap() == s[0] && r.unwrap() as nat == be_nat(s@),
            s.len() != 1 ==> r is Err,
{ use std::convert::TryInto; Ok(u8::from_be_bytes(s.try_into()?)) }
#[verifier::external_body]
pub fn be_u16(s: &[u8]) -> (r: std::result::Result<u16, std::array::TryFromSliceError>)
    ensures s.len() == 2 ==> r is Ok && r.unwrap() == be16(s[0], s[1]) && r.unwrap() as nat == be_nat(s@),
            s.len() != 2 ==> r is Err,
{ use std::convert::TryInto; Ok(u16::from_be_bytes(s.try_into()?)) }
#[verifier::external_body]
pub fn be_u32(s: &[u8]) -> (r: std::result::Result<u32, std::array::TryFromSliceError>)
    ensures s.len() == 4 ==> r is Ok && r.unwrap() as nat == be_nat(s@), s.len() != 4 ==> r is Err,
{ use std::convert::TryInto; Ok(u32::from_be_bytes(s.try_into()?)) }
#[verifier::external_body]
pub fn be_i32(s: &[u8]) -> (r: std::result::Result<i32, std::array::TryFromSliceError>)
    ensures s.len() == 4 ==> r is Ok && i32_bits(r.unwrap()) == be_nat(s@), s.len() != 4 ==> r is Err,
{ use std::convert::TryInto; Ok(i32::from_be_bytes(s.try_into()?)) }
#[verifier::external_body]
pub fn be_u128(s: &[u8]) -> (r: std::result::Result<u128, std::array::TryFromSliceError>)
    ensures s.len() == 16 ==> r is Ok && r.unwrap() as nat == be_nat(s@), s.len() != 16 ==> r is Err,
{ use std::convert::TryInto; Ok(u128::from_be_bytes(s.try_into()?)) }
#[verifier::external_body]
pub fn arr<const N: usize>(s: &[u8]) -> (r: std::result::Result<[u8; N], std::array::TryFromSliceError>)
    ensures s.len() == N ==> r is Ok && r.unwrap()@ == s@, s.len() != N ==> r is Err,
{ use std::convert::TryInto; s.try_into() }
#[verifier::external_body]
pub fn arr_be_u16(b: [u8; 2]) -> (r: u16) ensures r as nat == be_nat(b@), r == be16(b[0], b[1]) { u16::from_be_bytes(b) }
#[verifier::external_body]
pub fn arr_be_u32(b: [u8; 4]) -> (r: u32) ensures r as nat == be_nat(b@) { u32::from_be_bytes(b) }
#[verifier::external_body]
pub fn arr_be_u64(b: [u8; 8]) -> (r: u64) ensures r as nat == be_nat(b@) { u64::from_be_bytes(b) }

pub trait VxToBe: Sized { type Arr; fn vx_to_be_bytes(self) -> Self::Arr; }
impl VxToBe for u8 { type Arr = [u8; 1];
  #[verifier::external_body]
  fn vx_to_be_bytes(self) -> (r: [u8; 1]) ensures r@ == enc_be(self as nat, 1), r@ == seq![self] { self.to_be_bytes() } }
impl VxToBe for u16 { type Arr = [u8; 2];
  #[verifier::external_body]
  fn vx_to_be_bytes(self) -> (r: [u8; 2]) ensures r@ == enc_be(self as nat, 2), r@ == enc16(self) { self.to_be_bytes() } }
impl VxToBe for u32 { type Arr = [u8; 4];
  #[verifier::external_body]
  fn vx_to_be_bytes(self) -> (r: [u8; 4]) ensures r@ == enc_be(self as nat, 4) { self.to_be_bytes() } }
impl VxToBe for i32 { type Arr = [u8; 4];
  #[verifier::external_body]
  fn vx_to_be_bytes(self) -> (r: [u8; 4]) ensures r@ == enc_be(i32_bits(self), 4) { self.to_be_bytes() } }
impl VxToBe for u64 { type Arr = [u8; 8];
  #[verifier::external_body]
  fn vx_to_be_bytes(self) -> (r: [u8; 8]) ensures r@ == enc_be(self as nat, 8) { self.to_be_bytes() } }
impl VxToBe for u128 { type Arr = [u8; 16];
  #[verifier::external_body]
  fn vx_to_be_bytes(self) -> (r: [u8; 16]) ensures r@ == enc_be(self as nat, 16) { self.to_be_bytes() } }

// little-endian counterparts: never used by the pinned code; specified so that a change to little-endian I/O is decided
// (it fails the big-endian post-condition) instead of being an unsupported construct
pub trait VxToLe: Sized { type Arr; fn vx_to_le_bytes(self) -> Self::Arr; }
impl VxToLe for u16 { type Arr = [u8; 2];
  #[verifier::external_body]
  fn vx_to_le_bytes(self) -> (r: [u8; 2]) ensures r@ == enc_be(self as nat, 2).reverse() { self.to_le_bytes() } }
impl VxToLe for u32 { type Arr = [u8; 4];
  #[verifier::external_body]
  fn vx_to_le_bytes(self) -> (r: [u8; 4]) ensures r@ == enc_be(self as nat, 4).reverse() { self.to_le_bytes() } }
impl VxToLe for i32 { type Arr = [u8; 4];
  #[verifier::external_body]
  fn vx_to_le_bytes(self) -> (r: [u8; 4]) ensures r@ == enc_be(i32_bits(self), 4).reverse() { self.to_le_bytes() } }
impl VxToLe for u64 { type Arr = [u8; 8];
  #[verifier::external_body]
  fn vx_to_le_bytes(self) -> (r: [u8; 8]) ensures r@ == enc_be(self as nat, 8).reverse() { self.to_le_bytes() } }
impl VxToLe for u128 { type Arr = [u8; 16];
  #[verifier::external_body]
  fn vx_to_le_bytes(self) -> (r: [u8; 16]) ensures r@ == enc_be(self as nat, 16).reverse() { self.to_le_bytes() } }
#[verifier::external_body]
pub fn le_u16(s: &[u8]) -> (r: std::result::Result<u16, std::array::TryFromSliceError>)
    ensures s.len() == 2 ==> r is Ok && r.unwrap() as nat == be_nat(s@.reverse()), s.len() != 2 ==> r is Err,
{ use std::convert::TryInto; Ok(u16::from_le_bytes(s.try_into()?)) }
#[verifier::external_body]
pub fn le_u32(s: &[u8]) -> (r: std::result::Result<u32, std::array::TryFromSliceError>)
    ensures s.len() == 4 ==> r is Ok && r.unwrap() as nat == be_nat(s@.reverse()), s.len() != 4 ==> r is Err,
{ use std::convert::TryInto; Ok(u32::from_le_bytes(s.try_into()?)) }
#[verifier::external_body]
pub fn le_u128(s: &[u8]) -> (r: std::result::Result<u128, std::array::TryFromSliceError>)
    ensures s.len() == 16 ==> r is Ok && r.unwrap() as nat == be_nat(s@.reverse()), s.len() != 16 ==> r is Err,
{ use std::convert::TryInto; Ok(u128::from_le_bytes(s.try_into()?)) }
pub assume_specification [<u16 as std::convert::From<bool>>::from] (b: bool) -> (r: u16) ensures r == (if b { 1u16 } else { 0u16 });
pub assume_specification [<usize as std::convert::From<bool>>::from] (b: bool) -> (r: usize) ensures r == (if b { 1usize } else { 0usize });
pub assume_specification [<i32 as std::convert::From<u16>>::from] (x: u16) -> (r: i32) ensures r == x as i32;
pub assume_specification [u8::from_be] (x: u8) -> (r: u8) ensures r == x;
pub assume_specification [u8::to_be] (x: u8) -> (r: u8) ensures r == x;

// ======================================================================== textual label grammar (C17; written from the property statement)
/// letter or digit (ASCII)
pub open spec fn alnum(c: u8) -> bool { (48 <= c <= 57) || (65 <= c <= 90) || (97 <= c <= 122) }
/// "1-63 characters, starts with a letter, digit or underscore, continues with letters, digits, hyphens or underscores,
/// ends with a letter or digit"
pub open spec fn label_text_ok(d: Seq<u8>) -> bool {
    1 <= d.len() <= 63
    && (alnum(d[0]) || d[0] == 95)
    && (forall|i: int| 1 <= i < d.len() ==> alnum(#[trigger] d[i]) || d[i] == 45 || d[i] == 95)
    && alnum(d[d.len() - 1])
}
/// "strictly longer and ends with the other's labels"
pub open spec fn strict_suffix(a: Seq<Seq<u8>>, b: Seq<Seq<u8>>) -> bool {
    a.len() > b.len() && forall|k: int| 0 <= k < b.len() ==> #[trigger] b[b.len() - 1 - k] == a[a.len() - 1 - k]
}
// <[T]>::to_vec: same length, every element a clone of the corresponding one (std contract of to_vec for T: Clone)
pub assume_specification<T: Clone> [<[T]>::to_vec] (s: &[T]) -> (r: Vec<T>)
    ensures r@.len() == s@.len(), forall|i: int| 0 <= i < s@.len() ==> cloned::<T>(#[trigger] s@[i], r@[i]);
/// ASCII lower-casing of one byte
pub open spec fn lower(c: u8) -> u8 { if 65 <= c <= 90 { (c + 32) as u8 } else { c } }
/// "'local' in any letter case"
pub open spec fn is_local_label(l: Seq<u8>) -> bool {
    l.len() == 5 && lower(l[0]) == 108 && lower(l[1]) == 111 && lower(l[2]) == 99 && lower(l[3]) == 97 && lower(l[4]) == 108
}
// std contract of <[u8]>::eq_ignore_ascii_case: same length and byte-wise equal after ASCII lower-casing
pub assume_specification [<[u8]>::eq_ignore_ascii_case] (a: &[u8], b: &[u8]) -> (r: bool)
    ensures r == (a@.len() == b@.len() && forall|i: int| 0 <= i < a@.len() ==> lower(#[trigger] a@[i]) == lower(b@[i]));
// std fact, proved for all 256 values by the Kani harness `r17_is_ascii_alphanumeric_table`
pub assume_specification [u8::is_ascii_alphanumeric] (c: &u8) -> (r: bool) ensures r == alnum(*c);

// ======================================================================== std::io model
pub uninterp spec fn io_log<T: ?Sized>(t: &T) -> Seq<u8>;   // every byte ever accepted by write_all, in order
pub uninterp spec fn io_buf<T: ?Sized>(t: &T) -> Seq<u8>;   // underlying storage (Cursor<Vec<u8>> semantics)
pub uninterp spec fn io_pos<T: ?Sized>(t: &T) -> int;       // stream position in io_buf

pub open spec fn overwrite(buf: Seq<u8>, pos: int, b: Seq<u8>) -> Seq<u8> {
    if pos + b.len() >= buf.len() { buf.subrange(0, pos) + b }
    else { buf.subrange(0, pos) + b + buf.subrange(pos + b.len(), buf.len() as int) }
}

#[verifier::external_trait_specification]
pub trait ExWrite {
    type ExternalTraitSpecificationFor: std::io::Write;
    fn write_all(&mut self, b: &[u8]) -> (r: std::result::Result<(), std::io::Error>)
        ensures
            r is Ok ==> io_log(final(self)) == io_log(old(self)) + b@,
            r is Ok ==> (0 <= io_pos(old(self)) <= io_buf(old(self)).len() ==>
                io_buf(final(self)) == overwrite(io_buf(old(self)), io_pos(old(self)), b@)
                && io_pos(final(self)) == io_pos(old(self)) + b@.len());
    /// a single write may be short: only a prefix of `b` is guaranteed to have been accepted
    fn write(&mut self, b: &[u8]) -> (r: std::result::Result<usize, std::io::Error>)
        ensures
            r is Ok ==> r.unwrap() <= b@.len() && io_log(final(self)) == io_log(old(self)) + b@.subrange(0, r.unwrap() as int),
            r is Ok ==> (0 <= io_pos(old(self)) <= io_buf(old(self)).len() ==>
                io_buf(final(self)) == overwrite(io_buf(old(self)), io_pos(old(self)), b@.subrange(0, r.unwrap() as int))
                && io_pos(final(self)) == io_pos(old(self)) + r.unwrap());
    fn flush(&mut self) -> (r: std::result::Result<(), std::io::Error>)
        ensures io_log(final(self)) == io_log(old(self)), io_buf(final(self)) == io_buf(old(self)),
                io_pos(final(self)) == io_pos(old(self));
}
#[verifier::external_trait_specification]
pub trait ExSeek {
    type ExternalTraitSpecificationFor: std::io::Seek;
    fn seek(&mut self, s: SeekFrom) -> (r: std::result::Result<u64, std::io::Error>)
        ensures io_log(final(self)) == io_log(old(self)),
            r is Ok ==> io_buf(final(self)) == io_buf(old(self)) && (match s {
                SeekFrom::Start(n) => io_pos(final(self)) == n,
                SeekFrom::End(d) => io_pos(final(self)) == io_buf(old(self)).len() + d,
                SeekFrom::Current(d) => io_pos(final(self)) == io_pos(old(self)) + d,
            }) && r.unwrap() == io_pos(final(self));
    fn stream_position(&mut self) -> (r: std::result::Result<u64, std::io::Error>)
        ensures io_log(final(self)) == io_log(old(self)),
                io_buf(final(self)) == io_buf(old(self)), io_pos(final(self)) == io_pos(old(self)),
                r is Ok ==> r.unwrap() == io_pos(old(self));
}

// std::io::Cursor<Vec<u8>>: the storage of the io model *is* the wrapped vector (assumed; std is not verified)
#[verifier::external_type_specification]
#[verifier::external_body]
#[verifier::reject_recursive_types(T)]
pub struct ExCursor<T>(std::io::Cursor<T>);
pub uninterp spec fn cursor_inner<T>(c: &std::io::Cursor<T>) -> T;
pub assume_specification<T> [std::io::Cursor::<T>::new] (inner: T) -> (r: std::io::Cursor<T>)
    ensures cursor_inner(&r) == inner, io_pos(&r) == 0, io_log(&r) == Seq::<u8>::empty();
pub assume_specification<T> [std::io::Cursor::<T>::into_inner] (c: std::io::Cursor<T>) -> (r: T)
    ensures r == cursor_inner(&c);
pub broadcast axiom fn axiom_cursor_vec(c: &std::io::Cursor<Vec<u8>>)
    ensures #[trigger] io_buf(c) == cursor_inner(c)@;

pub open spec fn at_end<T: ?Sized>(t: &T) -> bool { io_pos(t) == io_buf(t).len() }

/// `x` was emitted between states a and b: appended to the log, and -- when the stream was positioned at
/// the end of its storage -- appended to the storage as well (leaving it positioned at the end).
pub open spec fn wrote<T: ?Sized>(a: &T, b: &T, x: Seq<u8>) -> bool {
    &&& io_log(b) =~= io_log(a) + x
    &&& (at_end(a) ==> io_buf(b) =~= io_buf(a) + x && at_end(b))
}

// ======================================================================== RFC 1035 4.1.4 name decoder
pub open spec fn ptr_target(b0: u8, b1: u8) -> int { (be16(b0, b1) & !0xC000u16) as int }

/// labels obtained by an RFC 1035 decoder starting at p with `size` wire bytes already accounted for
pub open spec fn dec_labels(data: Seq<u8>, p: int, size: int) -> Option<Seq<Seq<u8>>>
    decreases 255 - size, p
{
    if p < 0 || p >= data.len() || size < 0 { None }
    else if size >= 255 { None }
    else {
        let b = data[p];
        if b == 0 { Some(Seq::empty()) }
        else if b & 0xC0 == 0xC0 {
            if p + 2 > data.len() { None } else {
                let t = ptr_target(data[p], data[p + 1]);
                if t >= p { None } else { dec_labels(data, t, size) }
            }
        } else if b > 63 { None }
        else if p + 1 + b > data.len() { None }
        else if size + 1 + b >= 255 { None }
        else {
            match dec_labels(data, p + 1 + b, size + 1 + b) {
                None => None,
                Some(rest) => Some(seq![data.subrange(p + 1, p + 1 + b)] + rest),
            }
        }
    }
}

/// bytes the name occupies in place (through its first pointer, if any)
pub open spec fn inplace_len(data: Seq<u8>, p: int) -> int
    decreases data.len() - p
{
    if p < 0 || p >= data.len() { 0 }
    else {
        let b = data[p];
        if b == 0 { 1 }
        else if b & 0xC0 == 0xC0 { 2 }
        else if p + 1 + b > data.len() { 0 }
        else { 1 + b + inplace_len(data, p + 1 + b) }
    }
}

/// whatever the RFC decoder yields is a name within the RFC limits (labels 1..63, at most 255 octets on the wire)
pub proof fn lemma_dec_labels_ok(data: Seq<u8>, p: int, size: int)
    requires dec_labels(data, p, size) is Some
    ensures labels_ok(dec_labels(data, p, size).unwrap()), size + wl(dec_labels(data, p, size).unwrap()) <= 254, wl(dec_labels(data, p, size).unwrap()) >= 0
    decreases 255 - size, p
{
    let b = data[p];
    if b == 0 {
        assert(wl(Seq::<Seq<u8>>::empty()) == 0);
    } else if b & 0xC0 == 0xC0 {
        lemma_dec_labels_ok(data, ptr_target(data[p], data[p + 1]), size);
    } else {
        lemma_dec_labels_ok(data, p + 1 + b, size + 1 + b);
        let rest = dec_labels(data, p + 1 + b, size + 1 + b).unwrap();
        let lab = data.subrange(p + 1, p + 1 + b);
        let ls = seq![lab] + rest;
        assert(ls[0] == lab);
        assert(ls.subrange(1, ls.len() as int) =~= rest);
        assert forall|i: int| 0 <= i < ls.len() implies 1 <= #[trigger] ls[i].len() <= 63 by {
            if i > 0 { assert(ls[i] == rest[i - 1]); }
        }
    }
}
pub proof fn lemma_name_dec_ok(data: Seq<u8>, p: int, lv: Seq<Seq<u8>>)
    requires dec_labels(data, p, 0) == Some(lv)
    ensures name_ok(lv)
{ lemma_dec_labels_ok(data, p, 0); }

/// a name that decodes occupies in-place bytes inside the message
pub proof fn lemma_inplace_bound(data: Seq<u8>, p: int, size: int)
    requires dec_labels(data, p, size) is Some
    ensures 1 <= inplace_len(data, p), p + inplace_len(data, p) <= data.len()
    decreases data.len() - p
{
    let b = data[p];
    if b != 0 && !(b & 0xC0 == 0xC0) { lemma_inplace_bound(data, p + 1 + b, size + 1 + b); }
}
pub proof fn lemma_inplace_nonneg(data: Seq<u8>, p: int)
    ensures inplace_len(data, p) >= 0
    decreases data.len() - p
{
    if !(p < 0 || p >= data.len()) {
        let b = data[p];
        if b != 0 && !(b & 0xC0 == 0xC0) && !(p + 1 + b > data.len()) { lemma_inplace_nonneg(data, p + 1 + b); }
    }
}
pub open spec fn prepend(ls: Seq<Seq<u8>>, rest: Option<Seq<Seq<u8>>>) -> Option<Seq<Seq<u8>>> {
    match rest { None => None, Some(r) => Some(ls + r) }
}

/// wire length of the labels without the terminator
pub open spec fn wl(ls: Seq<Seq<u8>>) -> int
    decreases ls.len()
{
    if ls.len() == 0 { 0 } else { 1 + ls[0].len() + wl(ls.subrange(1, ls.len() as int)) }
}

/// length byte + bytes of each label, no terminator
pub open spec fn run(ls: Seq<Seq<u8>>) -> Seq<u8>
    decreases ls.len()
{
    if ls.len() == 0 { Seq::empty() } else { seq![ls[0].len() as u8] + ls[0] + run(ls.subrange(1, ls.len() as int)) }
}

/// uncompressed wire encoding of a name
pub open spec fn name_enc(ls: Seq<Seq<u8>>) -> Seq<u8> { run(ls) + seq![0u8] }

pub open spec fn labels_ok(ls: Seq<Seq<u8>>) -> bool {
    forall|i: int| 0 <= i < ls.len() ==> 1 <= #[trigger] ls[i].len() <= 63
}
pub open spec fn name_ok(ls: Seq<Seq<u8>>) -> bool { labels_ok(ls) && wl(ls) <= 254 }

pub proof fn lemma_run_len(ls: Seq<Seq<u8>>)
    ensures run(ls).len() == wl(ls), wl(ls) >= 0
    decreases ls.len()
{
    if ls.len() > 0 { lemma_run_len(ls.subrange(1, ls.len() as int)); }
}

pub proof fn lemma_wl_ge_count(ls: Seq<Seq<u8>>)
    ensures wl(ls) >= ls.len()
    decreases ls.len()
{
    if ls.len() > 0 { lemma_wl_ge_count(ls.subrange(1, ls.len() as int)); }
}

/// decoding is stable under appending bytes
pub proof fn lemma_append_stable(m: Seq<u8>, x: Seq<u8>, p: int, s: int)
    requires dec_labels(m, p, s) is Some
    ensures dec_labels(m + x, p, s) == dec_labels(m, p, s)
    decreases 255 - s, p
{
    let mx = m + x;
    assert(mx[p] == m[p]);
    let b = m[p];
    if b == 0 {
    } else if b & 0xC0 == 0xC0 {
        assert(mx[p + 1] == m[p + 1]);
        let t = ptr_target(m[p], m[p + 1]);
        lemma_append_stable(m, x, t, s);
    } else {
        lemma_append_stable(m, x, p + 1 + b, s + 1 + b);
        assert(mx.subrange(p + 1, p + 1 + b) =~= m.subrange(p + 1, p + 1 + b));
    }
}

/// in-place length is stable under appending bytes when the name decodes
pub proof fn lemma_inplace_append_stable(m: Seq<u8>, x: Seq<u8>, p: int, s: int)
    requires dec_labels(m, p, s) is Some
    ensures inplace_len(m + x, p) == inplace_len(m, p)
    decreases m.len() - p
{
    let mx = m + x;
    assert(mx[p] == m[p]);
    let b = m[p];
    if b == 0 {
    } else if b & 0xC0 == 0xC0 {
    } else {
        lemma_inplace_append_stable(m, x, p + 1 + b, s + 1 + b);
    }
}

/// a larger starting budget is fine as long as the whole name still fits
pub proof fn lemma_budget(m: Seq<u8>, p: int, s: int, s2: int)
    requires dec_labels(m, p, s) is Some, s <= s2, s2 + wl(dec_labels(m, p, s).unwrap()) <= 254
    ensures dec_labels(m, p, s2) == dec_labels(m, p, s)
    decreases 255 - s, p
{
    let b = m[p];
    if b == 0 {
    } else if b & 0xC0 == 0xC0 {
        let t = ptr_target(m[p], m[p + 1]);
        lemma_budget(m, t, s, s2);
    } else {
        let rest = dec_labels(m, p + 1 + b, s + 1 + b).unwrap();
        let l0 = m.subrange(p + 1, p + 1 + b);
        let all = seq![l0] + rest;
        assert(all.subrange(1, all.len() as int) =~= rest);
        assert(all[0] == l0);
        assert(wl(all) == 1 + b + wl(rest));
        lemma_run_len(rest);
        lemma_budget(m, p + 1 + b, s + 1 + b, s2 + 1 + b);
    }
}

/// whatever decodes has valid labels and fits the 255 byte budget
pub proof fn lemma_dec_ok(m: Seq<u8>, p: int, s: int)
    requires dec_labels(m, p, s) is Some
    ensures labels_ok(dec_labels(m, p, s).unwrap()), s + wl(dec_labels(m, p, s).unwrap()) <= 254
    decreases 255 - s, p
{
    let b = m[p];
    if b == 0 {
    } else if b & 0xC0 == 0xC0 {
        lemma_dec_ok(m, ptr_target(m[p], m[p + 1]), s);
    } else {
        lemma_dec_ok(m, p + 1 + b, s + 1 + b);
        let rest = dec_labels(m, p + 1 + b, s + 1 + b).unwrap();
        let l0 = m.subrange(p + 1, p + 1 + b);
        let all = seq![l0] + rest;
        assert(all.subrange(1, all.len() as int) =~= rest);
        assert(all[0] == l0);
        assert forall|i: int| 0 <= i < all.len() implies 1 <= #[trigger] all[i].len() <= 63 by {
            if i > 0 { assert(all[i] == rest[i - 1]); }
        }
    }
}

/// a freshly written run of labels at q, followed by something that decodes to `tail`
pub proof fn lemma_run_decodes(m: Seq<u8>, q: int, ls: Seq<Seq<u8>>, s: int, tail: Seq<Seq<u8>>)
    requires
        0 <= q, 0 <= s, labels_ok(ls),
        q + wl(ls) <= m.len(),
        m.subrange(q, q + wl(ls)) == run(ls),
        s + wl(ls) <= 254,
        dec_labels(m, q + wl(ls), s + wl(ls)) == Some(tail),
    ensures dec_labels(m, q, s) == Some(ls + tail), inplace_len(m, q) == wl(ls) + inplace_len(m, q + wl(ls))
    decreases ls.len()
{
    lemma_run_len(ls);
    if ls.len() == 0 {
        assert(ls + tail =~= tail);
    } else {
        let l0 = ls[0];
        let rest = ls.subrange(1, ls.len() as int);
        lemma_run_len(rest);
        let b = l0.len() as u8;
        let r = run(ls);
        assert(r == seq![b] + l0 + run(rest));
        let sub = m.subrange(q, q + wl(ls));
        assert(sub[0] == b);
        assert(m[q] == b);
        assert(1 <= b <= 63);
        assert(b & 0xC0 != 0xC0) by(bit_vector) requires b <= 63;
        assert(m.subrange(q + 1, q + 1 + b) =~= l0) by {
            assert forall|i: int| 0 <= i < b implies m[q + 1 + i] == l0[i] by {
                assert(sub[1 + i] == r[1 + i]);
            }
        }
        assert(m.subrange(q + 1 + b, q + 1 + b + wl(rest)) =~= run(rest)) by {
            assert forall|i: int| 0 <= i < wl(rest) implies m[q + 1 + b + i] == run(rest)[i] by {
                assert(sub[1 + b + i] == r[1 + b + i]);
            }
        }
        assert(labels_ok(rest)) by {
            assert forall|i: int| 0 <= i < rest.len() implies 1 <= #[trigger] rest[i].len() <= 63 by { assert(rest[i] == ls[i + 1]); }
        }
        lemma_run_decodes(m, q + 1 + b, rest, s + 1 + b, tail);
        assert(seq![l0] + (rest + tail) =~= ls + tail);
    }
}

/// uncompressed encoding decodes to itself wherever it is embedded (round trip for names)
pub proof fn lemma_name_roundtrip(pre: Seq<u8>, ls: Seq<Seq<u8>>, post: Seq<u8>)
    requires name_ok(ls)
    ensures dec_labels(pre + name_enc(ls) + post, pre.len() as int, 0) == Some(ls),
            inplace_len(pre + name_enc(ls) + post, pre.len() as int) == wl(ls) + 1,
            name_enc(ls).len() == wl(ls) + 1,
{
    let m = pre + name_enc(ls) + post;
    let q = pre.len() as int;
    lemma_run_len(ls);
    assert(m.subrange(q, q + wl(ls)) =~= run(ls));
    assert(m[q + wl(ls)] == 0u8);
    assert(dec_labels(m, q + wl(ls), wl(ls)) == Some(Seq::<Seq<u8>>::empty()));
    lemma_run_decodes(m, q, ls, 0, Seq::empty());
    assert(ls + Seq::<Seq<u8>>::empty() =~= ls);
}

pub proof fn lemma_split(ls: Seq<Seq<u8>>, j: int)
    requires 0 <= j <= ls.len()
    ensures wl(ls) == wl(ls.subrange(0, j)) + wl(ls.subrange(j, ls.len() as int)),
            run(ls) =~= run(ls.subrange(0, j)) + run(ls.subrange(j, ls.len() as int)),
    decreases j
{
    let n = ls.len() as int;
    if j == 0 {
        assert(ls.subrange(0, 0) =~= Seq::<Seq<u8>>::empty());
        assert(ls.subrange(0, n) =~= ls);
    } else {
        let tl = ls.subrange(1, n);
        lemma_split(tl, j - 1);
        let a = ls.subrange(0, j);
        assert(a[0] == ls[0]);
        assert(a.subrange(1, j) =~= tl.subrange(0, j - 1));
        assert(tl.subrange(j - 1, n - 1) =~= ls.subrange(j, n));
        assert(a.len() == j);
    }
}

pub proof fn lemma_run_snoc(lv: Seq<Seq<u8>>, i: int)
    requires 0 <= i < lv.len()
    ensures run(lv.subrange(0, i + 1)) =~= run(lv.subrange(0, i)) + seq![lv[i].len() as u8] + lv[i],
            wl(lv.subrange(0, i + 1)) == wl(lv.subrange(0, i)) + 1 + lv[i].len(),
{
    let pre = lv.subrange(0, i); let pre1 = lv.subrange(0, i + 1);
    lemma_split(pre1, i);
    assert(pre1.subrange(0, i) =~= pre);
    let one = pre1.subrange(i, i + 1);
    assert(one.len() == 1 && one[0] == lv[i]);
    assert(one.subrange(1, 1) =~= Seq::<Seq<u8>>::empty());
    assert(wl(one.subrange(1, 1)) == 0);
    assert(run(one.subrange(1, 1)) =~= Seq::<u8>::empty());
    assert(wl(one) == 1 + lv[i].len());
    assert(run(one) =~= seq![lv[i].len() as u8] + lv[i]);
}

pub proof fn lemma_wl_pos(ls: Seq<Seq<u8>>)
    requires labels_ok(ls), ls.len() > 0
    ensures wl(ls) >= 2
{
    lemma_run_len(ls.subrange(1, ls.len() as int));
    assert(ls[0].len() >= 1);
}

pub proof fn lemma_ptr_bits(p: u16)
    requires p < 0x4000
    ensures ({ let v = p | 0xC000u16; let b0 = (v >> 8) as u8; let b1 = (v & 0xff) as u8;
               b0 & 0xC0 == 0xC0 && b0 != 0 && (be16(b0, b1) & !0xC000u16) == p })
{
    assert(({ let v = p | 0xC000u16; let b0 = (v >> 8) as u8; let b1 = (v & 0xff) as u8;
               b0 & 0xC0 == 0xC0 && b0 != 0 && ((((b0 as u16) << 8) | (b1 as u16)) & !0xC000u16) == p })) by(bit_vector)
        requires p < 0x4000;
}

pub proof fn lemma_sub_run(m: Seq<u8>, base: int, ls: Seq<Seq<u8>>, j: int)
    requires 0 <= base, 0 <= j <= ls.len(), base + wl(ls) <= m.len(), m.subrange(base, base + wl(ls)) == run(ls)
    ensures ({ let t = ls.subrange(j, ls.len() as int); let q = base + wl(ls.subrange(0, j));
               0 <= q && q + wl(t) == base + wl(ls) && m.subrange(q, q + wl(t)) =~= run(t) })
{
    lemma_split(ls, j);
    lemma_run_len(ls); lemma_run_len(ls.subrange(0, j)); lemma_run_len(ls.subrange(j, ls.len() as int));
    let t = ls.subrange(j, ls.len() as int); let q = base + wl(ls.subrange(0, j));
    let r = run(ls); let sub = m.subrange(base, base + wl(ls));
    assert forall|x: int| 0 <= x < wl(t) implies m[q + x] == run(t)[x] by {
        assert(sub[wl(ls.subrange(0, j)) + x] == r[wl(ls.subrange(0, j)) + x]);
    }
}

pub proof fn lemma_sub_labels_ok(ls: Seq<Seq<u8>>, a: int, b: int)
    requires labels_ok(ls), 0 <= a <= b <= ls.len()
    ensures labels_ok(ls.subrange(a, b))
{
    let t = ls.subrange(a, b);
    assert forall|i: int| 0 <= i < t.len() implies 1 <= #[trigger] t[i].len() <= 63 by { assert(t[i] == ls[a + i]); }
}

// ======================================================================== bit-level constants
pub proof fn lemma_tz_consts()
    ensures u32_trailing_zeros(0x00FF_0000u32) == 16, u32_trailing_zeros(0xFF00_0000u32) == 24,
            u16_trailing_zeros(0x7800u16) == 11,
{
    broadcast use axiom_u32_trailing_zeros;
    broadcast use axiom_u16_trailing_zeros;
    let t1 = u32_trailing_zeros(0x00FF_0000u32) as u32;
    assert(t1 == 16) by(bit_vector) requires t1 <= 32, (0x00FF_0000u32 >> t1) & 1u32 == 1u32, (0x00FF_0000u32 << sub(32u32, t1)) == 0u32;
    let t2 = u32_trailing_zeros(0xFF00_0000u32) as u32;
    assert(t2 == 24) by(bit_vector) requires t2 <= 32, (0xFF00_0000u32 >> t2) & 1u32 == 1u32, (0xFF00_0000u32 << sub(32u32, t2)) == 0u32;
    let t3 = u16_trailing_zeros(0x7800u16) as u16;
    assert(t3 == 11) by(bit_vector) requires t3 <= 16, (0x7800u16 >> t3) & 1u16 == 1u16, (0x7800u16 << sub(16u16, t3)) == 0u16;
}

pub proof fn lemma_be4(s: Seq<u8>)
    requires s.len() == 4
    ensures be_nat(s) == ((s[0] as nat * 256 + s[1] as nat) * 256 + s[2] as nat) * 256 + s[3] as nat
{
    reveal_with_fuel(be_nat, 5);
    assert(s.drop_last().drop_last().drop_last().drop_last() =~= Seq::<u8>::empty());
    assert(s.drop_last()[2] == s[2]);
    assert(s.drop_last().drop_last()[1] == s[1]);
    assert(s.drop_last().drop_last().drop_last()[0] == s[0]);
}

/// the four octets of a 32-bit big-endian word
pub proof fn lemma_u32_octets(w: u32, s: Seq<u8>)
    requires s.len() == 4, w as nat == be_nat(s)
    ensures (w >> 24u32) as u8 == s[0], ((w & 0x00FF_0000u32) >> 16u32) as u8 == s[1],
            ((w & 0xFF00_0000u32) >> 24u32) == s[0] as u32, ((w & 0x00FF_0000u32) >> 16u32) == s[1] as u32,
            (w >> 16u32) & 0xFFu32 == s[1] as u32,
            (w & 0xFFFFu32) == (s[2] as u32) * 256 + s[3] as u32,
{
    lemma_be4(s);
    let (b0, b1, b2, b3) = (s[0], s[1], s[2], s[3]);
    assert(w == ((b0 as u32 * 256 + b1 as u32) * 256 + b2 as u32) * 256 + b3 as u32) by(nonlinear_arith)
        requires w as nat == ((b0 as nat * 256 + b1 as nat) * 256 + b2 as nat) * 256 + b3 as nat;
    assert((w >> 24u32) as u8 == b0 && ((w & 0x00FF_0000u32) >> 16u32) as u8 == b1
        && ((w & 0xFF00_0000u32) >> 24u32) == b0 as u32 && ((w & 0x00FF_0000u32) >> 16u32) == b1 as u32
        && (w >> 16u32) & 0xFFu32 == b1 as u32
        && (w & 0xFFFFu32) == (b2 as u32) * 256 + b3 as u32) by(bit_vector)
        requires w == ((b0 as u32 * 256 + b1 as u32) * 256 + b2 as u32) * 256 + b3 as u32;
}

// ======================================================================== code / length / value lists (OPT options, SVCB params)
/// items decoded back-to-back from q0, each `u16 code, u16 length, length octets`, ending exactly at q
pub open spec fn tlv16(data: Seq<u8>, q0: int, items: Seq<(u16, Seq<u8>)>, q: int) -> bool
    decreases items.len()
{
    if items.len() == 0 { q == q0 } else {
        let it = items.last();
        let qm = q - 4 - it.1.len();
        &&& tlv16(data, q0, items.drop_last(), qm)
        &&& q0 <= qm && q <= data.len()
        &&& it.0 == be16(data[qm], data[qm + 1])
        &&& it.1.len() == be16(data[qm + 2], data[qm + 3])
        &&& it.1 == data.subrange(qm + 4, q)
    }
}
pub open spec fn tlv16_item_enc(it: (u16, Seq<u8>)) -> Seq<u8> { enc16(it.0) + enc16(it.1.len() as u16) + it.1 }
pub open spec fn tlv16_enc(items: Seq<(u16, Seq<u8>)>) -> Seq<u8>
    decreases items.len()
{
    if items.len() == 0 { Seq::empty() } else { tlv16_enc(items.drop_last()) + tlv16_item_enc(items.last()) }
}
pub open spec fn tlv16_ok(items: Seq<(u16, Seq<u8>)>) -> bool {
    forall|i: int| 0 <= i < items.len() ==> (#[trigger] items[i]).1.len() <= 65535
}

pub proof fn lemma_tlv16_len_step(items: Seq<(u16, Seq<u8>)>, i: int)
    requires 0 <= i < items.len()
    ensures tlv16_enc(items.subrange(0, i + 1)).len() == tlv16_enc(items.subrange(0, i)).len() + 4 + items[i].1.len()
{
    let a = items.subrange(0, i + 1);
    assert(a.drop_last() =~= items.subrange(0, i));
    assert(a.last() == items[i]);
    lemma_enc_be_len(items[i].0 as nat, 2); lemma_enc_be_len(items[i].1.len() as u16 as nat, 2);
}
pub proof fn lemma_tlv16_len_mono(items: Seq<(u16, Seq<u8>)>, i: int)
    requires 0 <= i <= items.len()
    ensures tlv16_enc(items.subrange(0, i)).len() <= tlv16_enc(items).len()
    decreases items.len() - i
{
    if i < items.len() { lemma_tlv16_len_step(items, i); lemma_tlv16_len_mono(items, i + 1); }
    else { assert(items.subrange(0, i) =~= items); }
}
pub proof fn lemma_tlv16_dec_len(data: Seq<u8>, q0: int, items: Seq<(u16, Seq<u8>)>, q: int)
    requires tlv16(data, q0, items, q)
    ensures tlv16_enc(items).len() == q - q0, tlv16_ok(items)
    decreases items.len()
{
    if items.len() > 0 {
        let it = items.last();
        lemma_tlv16_dec_len(data, q0, items.drop_last(), q - 4 - it.1.len());
        lemma_enc_be_len(it.0 as nat, 2); lemma_enc_be_len(it.1.len() as u16 as nat, 2);
        assert forall|i: int| 0 <= i < items.len() implies (#[trigger] items[i]).1.len() <= 65535 by {
            if i < items.len() - 1 { assert(items[i] == items.drop_last()[i]); }
        }
    }
}
pub proof fn lemma_tlv16_rt(pre: Seq<u8>, items: Seq<(u16, Seq<u8>)>)
    requires tlv16_ok(items)
    ensures tlv16(pre + tlv16_enc(items), pre.len() as int, items, (pre + tlv16_enc(items)).len() as int)
    decreases items.len()
{
    let d = pre + tlv16_enc(items);
    if items.len() > 0 {
        let it = items.last();
        let dl = items.drop_last();
        assert(tlv16_ok(dl)) by { assert forall|i: int| 0 <= i < dl.len() implies (#[trigger] dl[i]).1.len() <= 65535 by { assert(dl[i] == items[i]); } }
        lemma_tlv16_rt(pre, dl);
        let d0 = pre + tlv16_enc(dl);
        let qm = d0.len() as int;
        assert(d =~= d0 + tlv16_item_enc(it));
        lemma_tlv16_stable(d0, tlv16_item_enc(it), pre.len() as int, dl, qm);
        assert(it.1.len() <= 65535);
        let l = it.1.len() as u16;
        lemma_be16_enc16(it.0);
        lemma_be16_enc16(l);
        assert(d[qm] == (it.0 >> 8) as u8 && d[qm + 1] == (it.0 & 0xff) as u8);
        assert(d[qm + 2] == (l >> 8) as u8 && d[qm + 3] == (l & 0xff) as u8);
        assert(d.subrange(qm + 4, d.len() as int) =~= it.1);
    }
}
pub proof fn lemma_tlv16_stable(d: Seq<u8>, x: Seq<u8>, q0: int, items: Seq<(u16, Seq<u8>)>, q: int)
    requires tlv16(d, q0, items, q), 0 <= q0
    ensures tlv16(d + x, q0, items, q)
    decreases items.len()
{
    if items.len() > 0 {
        let it = items.last();
        let qm = q - 4 - it.1.len();
        lemma_tlv16_stable(d, x, q0, items.drop_last(), qm);
        assert((d + x).subrange(qm + 4, q) =~= d.subrange(qm + 4, q));
    }
}
pub proof fn lemma_lv8_stable(d: Seq<u8>, x: Seq<u8>, q0: int, items: Seq<Seq<u8>>, q: int)
    requires lv8(d, q0, items, q), 0 <= q0
    ensures lv8(d + x, q0, items, q)
    decreases items.len()
{
    if items.len() > 0 {
        let it = items.last();
        let qm = q - 1 - it.len();
        lemma_lv8_stable(d, x, q0, items.drop_last(), qm);
        assert((d + x).subrange(qm + 1, q) =~= d.subrange(qm + 1, q));
    }
}
pub proof fn lemma_lv8_rt(pre: Seq<u8>, items: Seq<Seq<u8>>)
    requires lv8_ok(items)
    ensures lv8(pre + lv8_enc(items), pre.len() as int, items, (pre + lv8_enc(items)).len() as int)
    decreases items.len()
{
    let d = pre + lv8_enc(items);
    if items.len() > 0 {
        let it = items.last();
        let dl = items.drop_last();
        assert(lv8_ok(dl)) by { assert forall|i: int| 0 <= i < dl.len() implies (#[trigger] dl[i]).len() <= 255 by { assert(dl[i] == items[i]); } }
        lemma_lv8_rt(pre, dl);
        let d0 = pre + lv8_enc(dl);
        let qm = d0.len() as int;
        assert(d =~= d0 + cs_enc(it));
        lemma_lv8_stable(d0, cs_enc(it), pre.len() as int, dl, qm);
        assert(it.len() <= 255);
        assert(d[qm] == it.len() as u8);
        assert(d.subrange(qm + 1, d.len() as int) =~= it);
    }
}

// ======================================================================== <character-string>
pub open spec fn cs_enc(s: Seq<u8>) -> Seq<u8> { seq![s.len() as u8] + s }

/// character-strings decoded back-to-back from q0, ending exactly at q (RFC 1035 3.3.14 TXT-DATA)
pub open spec fn lv8(data: Seq<u8>, q0: int, items: Seq<Seq<u8>>, q: int) -> bool
    decreases items.len()
{
    if items.len() == 0 { q == q0 } else {
        let it = items.last();
        let qm = q - 1 - it.len();
        &&& lv8(data, q0, items.drop_last(), qm)
        &&& q0 <= qm && q <= data.len()
        &&& data[qm] == it.len()
        &&& it == data.subrange(qm + 1, q)
    }
}
pub open spec fn lv8_enc(items: Seq<Seq<u8>>) -> Seq<u8>
    decreases items.len()
{
    if items.len() == 0 { Seq::empty() } else { lv8_enc(items.drop_last()) + cs_enc(items.last()) }
}
pub open spec fn lv8_ok(items: Seq<Seq<u8>>) -> bool { forall|i: int| 0 <= i < items.len() ==> (#[trigger] items[i]).len() <= 255 }
pub proof fn lemma_lv8_dec_len(data: Seq<u8>, q0: int, items: Seq<Seq<u8>>, q: int)
    requires lv8(data, q0, items, q)
    ensures lv8_enc(items).len() == q - q0, lv8_ok(items)
    decreases items.len()
{
    if items.len() > 0 {
        let it = items.last();
        lemma_lv8_dec_len(data, q0, items.drop_last(), q - 1 - it.len());
        assert forall|i: int| 0 <= i < items.len() implies (#[trigger] items[i]).len() <= 255 by {
            if i < items.len() - 1 { assert(items[i] == items.drop_last()[i]); }
        }
    }
}

/// NSEC type bit maps (RFC 4034 4.1.2): window(1) length(1) bitmap(length), back-to-back from q0 to q
pub open spec fn wl8(data: Seq<u8>, q0: int, items: Seq<(u8, Seq<u8>)>, q: int) -> bool
    decreases items.len()
{
    if items.len() == 0 { q == q0 } else {
        let it = items.last();
        let qm = q - 2 - it.1.len();
        &&& wl8(data, q0, items.drop_last(), qm)
        &&& q0 <= qm && q <= data.len()
        &&& data[qm] == it.0
        &&& data[qm + 1] == it.1.len()
        &&& it.1 == data.subrange(qm + 2, q)
    }
}
pub open spec fn strictly_increasing_u8(items: Seq<(u8, Seq<u8>)>) -> bool {
    forall|i: int, j: int| 0 <= i < j < items.len() ==> (#[trigger] items[i]).0 < (#[trigger] items[j]).0
}
pub open spec fn strictly_increasing_u16(items: Seq<(u16, Seq<u8>)>) -> bool {
    forall|i: int, j: int| 0 <= i < j < items.len() ==> (#[trigger] items[i]).0 < (#[trigger] items[j]).0
}


/// front view of the (back-to-front defined) list relation: the first item sits at q0 and the rest tiles what follows
pub proof fn lemma_tlv16_front(d: Seq<u8>, q0: int, items: Seq<(u16, Seq<u8>)>, q: int)
    requires tlv16(d, q0, items, q), items.len() > 0,
    ensures ({
        let f = items[0];
        let q1 = q0 + 4 + f.1.len();
        &&& q1 <= q && q <= d.len()
        &&& f.0 == be16(d[q0], d[q0 + 1]) && f.1.len() == be16(d[q0 + 2], d[q0 + 3])
        &&& f.1 == d.subrange(q0 + 4, q1)
        &&& tlv16(d, q1, items.subrange(1, items.len() as int), q)
    }),
    decreases items.len()
{
    let n = items.len() as int;
    let it = items.last();
    let qm = q - 4 - it.1.len();
    if n == 1 {
        assert(items.drop_last().len() == 0);
        assert(tlv16(d, q0, items.drop_last(), qm));
        assert(qm == q0);
        assert(items.subrange(1, n).len() == 0);
    } else {
        let dl = items.drop_last();
        lemma_tlv16_front(d, q0, dl, qm);
        let f = items[0];
        assert(dl[0] == f);
        let q1 = q0 + 4 + f.1.len();
        let tl = items.subrange(1, n);
        assert(tl.last() == it);
        assert(tl.drop_last() =~= dl.subrange(1, n - 1));
    }
}
/// the list relation is a function of the bytes: two item lists tiling the same range are equal
pub proof fn lemma_tlv16_det(d: Seq<u8>, q0: int, a: Seq<(u16, Seq<u8>)>, b: Seq<(u16, Seq<u8>)>, q: int)
    requires tlv16(d, q0, a, q), tlv16(d, q0, b, q),
    ensures a == b,
    decreases a.len()
{
    if a.len() == 0 {
        if b.len() > 0 { lemma_tlv16_front(d, q0, b, q); }
        assert(a =~= b);
    } else {
        lemma_tlv16_front(d, q0, a, q);
        if b.len() == 0 { assert(false); }
        lemma_tlv16_front(d, q0, b, q);
        let q1 = q0 + 4 + a[0].1.len();
        assert(a[0].1 =~= b[0].1);
        assert(a[0] == b[0]);
        lemma_tlv16_det(d, q1, a.subrange(1, a.len() as int), b.subrange(1, b.len() as int), q);
        assert(a =~= seq![a[0]] + a.subrange(1, a.len() as int));
        assert(b =~= seq![b[0]] + b.subrange(1, b.len() as int));
    }
}

/// front view of the (back-to-front defined) list relation: the first item sits at q0 and the rest tiles what follows
pub proof fn lemma_lv8_front(d: Seq<u8>, q0: int, items: Seq<Seq<u8>>, q: int)
    requires lv8(d, q0, items, q), items.len() > 0,
    ensures ({
        let f = items[0];
        let q1 = q0 + 1 + f.len();
        &&& q1 <= q && q <= d.len()
        &&& d[q0] == f.len()
        &&& f == d.subrange(q0 + 1, q1)
        &&& lv8(d, q1, items.subrange(1, items.len() as int), q)
    }),
    decreases items.len()
{
    let n = items.len() as int;
    let it = items.last();
    let qm = q - 1 - it.len();
    if n == 1 {
        assert(items.drop_last().len() == 0);
        assert(lv8(d, q0, items.drop_last(), qm));
        assert(qm == q0);
        assert(items.subrange(1, n).len() == 0);
    } else {
        let dl = items.drop_last();
        lemma_lv8_front(d, q0, dl, qm);
        let f = items[0];
        assert(dl[0] == f);
        let q1 = q0 + 1 + f.len();
        let tl = items.subrange(1, n);
        assert(tl.last() == it);
        assert(tl.drop_last() =~= dl.subrange(1, n - 1));
    }
}
/// the list relation is a function of the bytes: two item lists tiling the same range are equal
pub proof fn lemma_lv8_det(d: Seq<u8>, q0: int, a: Seq<Seq<u8>>, b: Seq<Seq<u8>>, q: int)
    requires lv8(d, q0, a, q), lv8(d, q0, b, q),
    ensures a == b,
    decreases a.len()
{
    if a.len() == 0 {
        if b.len() > 0 { lemma_lv8_front(d, q0, b, q); }
        assert(a =~= b);
    } else {
        lemma_lv8_front(d, q0, a, q);
        if b.len() == 0 { assert(false); }
        lemma_lv8_front(d, q0, b, q);
        let q1 = q0 + 1 + a[0].len();
        assert(a[0] =~= b[0]);
        assert(a[0] == b[0]);
        lemma_lv8_det(d, q1, a.subrange(1, a.len() as int), b.subrange(1, b.len() as int), q);
        assert(a =~= seq![a[0]] + a.subrange(1, a.len() as int));
        assert(b =~= seq![b[0]] + b.subrange(1, b.len() as int));
    }
}

/// front view of the (back-to-front defined) list relation: the first item sits at q0 and the rest tiles what follows
pub proof fn lemma_wl8_front(d: Seq<u8>, q0: int, items: Seq<(u8, Seq<u8>)>, q: int)
    requires wl8(d, q0, items, q), items.len() > 0,
    ensures ({
        let f = items[0];
        let q1 = q0 + 2 + f.1.len();
        &&& q1 <= q && q <= d.len()
        &&& d[q0] == f.0 && d[q0 + 1] == f.1.len()
        &&& f.1 == d.subrange(q0 + 2, q1)
        &&& wl8(d, q1, items.subrange(1, items.len() as int), q)
    }),
    decreases items.len()
{
    let n = items.len() as int;
    let it = items.last();
    let qm = q - 2 - it.1.len();
    if n == 1 {
        assert(items.drop_last().len() == 0);
        assert(wl8(d, q0, items.drop_last(), qm));
        assert(qm == q0);
        assert(items.subrange(1, n).len() == 0);
    } else {
        let dl = items.drop_last();
        lemma_wl8_front(d, q0, dl, qm);
        let f = items[0];
        assert(dl[0] == f);
        let q1 = q0 + 2 + f.1.len();
        let tl = items.subrange(1, n);
        assert(tl.last() == it);
        assert(tl.drop_last() =~= dl.subrange(1, n - 1));
    }
}
/// the list relation is a function of the bytes: two item lists tiling the same range are equal
pub proof fn lemma_wl8_det(d: Seq<u8>, q0: int, a: Seq<(u8, Seq<u8>)>, b: Seq<(u8, Seq<u8>)>, q: int)
    requires wl8(d, q0, a, q), wl8(d, q0, b, q),
    ensures a == b,
    decreases a.len()
{
    if a.len() == 0 {
        if b.len() > 0 { lemma_wl8_front(d, q0, b, q); }
        assert(a =~= b);
    } else {
        lemma_wl8_front(d, q0, a, q);
        if b.len() == 0 { assert(false); }
        lemma_wl8_front(d, q0, b, q);
        let q1 = q0 + 2 + a[0].1.len();
        assert(a[0].1 =~= b[0].1);
        assert(a[0] == b[0]);
        lemma_wl8_det(d, q1, a.subrange(1, a.len() as int), b.subrange(1, b.len() as int), q);
        assert(a =~= seq![a[0]] + a.subrange(1, a.len() as int));
        assert(b =~= seq![b[0]] + b.subrange(1, b.len() as int));
    }
}


/// completeness helper: if a full list `items` tiles [q0, end) and the parser has read the prefix `done` up to pos < end,
/// then `done` is a proper prefix of `items` and the next item of `items` starts at pos and fits
pub proof fn lemma_tlv16_next(d: Seq<u8>, q0: int, items: Seq<(u16, Seq<u8>)>, end: int, done: Seq<(u16, Seq<u8>)>, pos: int)
    requires tlv16(d, q0, items, end), tlv16(d, q0, done, pos), pos < end
    ensures
        done.len() < items.len(),
        forall|i: int| 0 <= i < done.len() ==> items[i] == done[i],
        ({ let f = items[done.len() as int]; pos + 4 + f.1.len() <= end && end <= d.len() && f.0 == be16(d[pos], d[pos + 1]) && f.1.len() == be16(d[pos + 2], d[pos + 3]) && f.1 == d.subrange(pos + 4, pos + 4 + f.1.len()) }),
    decreases done.len()
{
    if items.len() == 0 {
        if done.len() > 0 { lemma_tlv16_front(d, q0, done, pos); }
        assert(false);
    }
    lemma_tlv16_front(d, q0, items, end);
    if done.len() > 0 {
        lemma_tlv16_front(d, q0, done, pos);
        assert(items[0].1 =~= done[0].1);
        assert(items[0] == done[0]);
        let q1 = q0 + 4 + items[0].1.len();
        let it = items.subrange(1, items.len() as int);
        let dt = done.subrange(1, done.len() as int);
        lemma_tlv16_next(d, q1, it, end, dt, pos);
        assert forall|i: int| 0 <= i < done.len() implies items[i] == done[i] by {
            if i > 0 { assert(it[i - 1] == items[i] && dt[i - 1] == done[i]); }
        }
        assert(it[dt.len() as int] == items[done.len() as int]);
    }
}

/// completeness helper: if a full list `items` tiles [q0, end) and the parser has read the prefix `done` up to pos < end,
/// then `done` is a proper prefix of `items` and the next item of `items` starts at pos and fits
pub proof fn lemma_lv8_next(d: Seq<u8>, q0: int, items: Seq<Seq<u8>>, end: int, done: Seq<Seq<u8>>, pos: int)
    requires lv8(d, q0, items, end), lv8(d, q0, done, pos), pos < end
    ensures
        done.len() < items.len(),
        forall|i: int| 0 <= i < done.len() ==> items[i] == done[i],
        ({ let f = items[done.len() as int]; pos + 1 + f.len() <= end && end <= d.len() && d[pos] == f.len() && f == d.subrange(pos + 1, pos + 1 + f.len()) }),
    decreases done.len()
{
    if items.len() == 0 {
        if done.len() > 0 { lemma_lv8_front(d, q0, done, pos); }
        assert(false);
    }
    lemma_lv8_front(d, q0, items, end);
    if done.len() > 0 {
        lemma_lv8_front(d, q0, done, pos);
        assert(items[0] =~= done[0]);
        assert(items[0] == done[0]);
        let q1 = q0 + 1 + items[0].len();
        let it = items.subrange(1, items.len() as int);
        let dt = done.subrange(1, done.len() as int);
        lemma_lv8_next(d, q1, it, end, dt, pos);
        assert forall|i: int| 0 <= i < done.len() implies items[i] == done[i] by {
            if i > 0 { assert(it[i - 1] == items[i] && dt[i - 1] == done[i]); }
        }
        assert(it[dt.len() as int] == items[done.len() as int]);
    }
}

/// completeness helper: if a full list `items` tiles [q0, end) and the parser has read the prefix `done` up to pos < end,
/// then `done` is a proper prefix of `items` and the next item of `items` starts at pos and fits
pub proof fn lemma_wl8_next(d: Seq<u8>, q0: int, items: Seq<(u8, Seq<u8>)>, end: int, done: Seq<(u8, Seq<u8>)>, pos: int)
    requires wl8(d, q0, items, end), wl8(d, q0, done, pos), pos < end
    ensures
        done.len() < items.len(),
        forall|i: int| 0 <= i < done.len() ==> items[i] == done[i],
        ({ let f = items[done.len() as int]; pos + 2 + f.1.len() <= end && end <= d.len() && d[pos] == f.0 && d[pos + 1] == f.1.len() && f.1 == d.subrange(pos + 2, pos + 2 + f.1.len()) }),
    decreases done.len()
{
    if items.len() == 0 {
        if done.len() > 0 { lemma_wl8_front(d, q0, done, pos); }
        assert(false);
    }
    lemma_wl8_front(d, q0, items, end);
    if done.len() > 0 {
        lemma_wl8_front(d, q0, done, pos);
        assert(items[0].1 =~= done[0].1);
        assert(items[0] == done[0]);
        let q1 = q0 + 2 + items[0].1.len();
        let it = items.subrange(1, items.len() as int);
        let dt = done.subrange(1, done.len() as int);
        lemma_wl8_next(d, q1, it, end, dt, pos);
        assert forall|i: int| 0 <= i < done.len() implies items[i] == done[i] by {
            if i > 0 { assert(it[i - 1] == items[i] && dt[i - 1] == done[i]); }
        }
        assert(it[dt.len() as int] == items[done.len() as int]);
    }
}

// ======================================================================== misc std specs
pub assume_specification<T, F: FnOnce(T) -> bool> [Option::<T>::is_some_and] (o: Option<T>, f: F) -> (r: bool)
    ensures o is None ==> !r,
            o is Some ==> f.requires((o.unwrap(),)) ==> f.ensures((o.unwrap(),), r);

pub uninterp spec fn ipv4_octets(a: std::net::Ipv4Addr) -> Seq<u8>;
pub uninterp spec fn ipv6_octets(a: std::net::Ipv6Addr) -> Seq<u8>;
pub assume_specification [std::net::Ipv4Addr::new] (a: u8, b: u8, c: u8, d: u8) -> (r: std::net::Ipv4Addr)
    ensures ipv4_octets(r) == seq![a, b, c, d];
pub assume_specification [std::net::Ipv4Addr::octets] (a: &std::net::Ipv4Addr) -> (r: [u8; 4])
    ensures r@ == ipv4_octets(*a), r@.len() == 4;
pub assume_specification [<std::net::Ipv6Addr as From<[u8; 16]>>::from] (o: [u8; 16]) -> (r: std::net::Ipv6Addr)
    ensures ipv6_octets(r) == o@;
pub assume_specification [std::net::Ipv6Addr::octets] (a: &std::net::Ipv6Addr) -> (r: [u8; 16])
    ensures r@ == ipv6_octets(*a), r@.len() == 16;

pub uninterp spec fn cow_deref_rel<B: ?Sized + ToOwned>(c: Cow<B>, r: &B) -> bool;
#[verifier::external_body]
pub broadcast proof fn axiom_cow_deref_bytes(c: Cow<[u8]>, r: &[u8])
    ensures #[trigger] cow_deref_rel::<[u8]>(c, r) ==> r@ == c@ {}
pub assume_specification<'a, 'b, B: ?Sized + ToOwned> [<Cow<'a, B> as std::ops::Deref>::deref] (c: &'b Cow<'a, B>) -> (r: &'b B)
    ensures cow_deref_rel::<B>(*c, r);

pub uninterp spec fn into_bytes_view<T>(t: T) -> Seq<u8>;
#[verifier::external_body]
pub broadcast proof fn axiom_into_bytes_view_slice(d: &[u8])
    ensures #[trigger] into_bytes_view(d) == d@ {}

pub broadcast proof fn ax_enc_be_len(v: nat, n: nat)
    ensures #[trigger] enc_be(v, n).len() == n
{ lemma_enc_be_len(v, n); }
pub broadcast proof fn ax_run_len(ls: Seq<Seq<u8>>)
    ensures #[trigger] run(ls).len() == wl(ls), wl(ls) >= 0
{ lemma_run_len(ls); }

/// closed forms of short big-endian strings and slices of slices: with them a parser that reads through
/// `from_be_bytes([d[p], d[p + 1]])` or through a re-sliced window (`let w = &d[p..p + 8]; .. w[2] ..`) meets the same
/// decoder clauses as one that reads `d[p..p + 2].try_into()?` (style changes must not need new proof hints)
pub broadcast proof fn ax_be_nat_2(s: Seq<u8>)
    requires s.len() == 2
    ensures #[trigger] be_nat(s) == s[0] as nat * 256 + s[1] as nat
{
    reveal_with_fuel(be_nat, 3);
    assert(s.drop_last().drop_last() =~= Seq::<u8>::empty());
    assert(s.drop_last()[0] == s[0]);
}
pub broadcast proof fn ax_be_nat_4(s: Seq<u8>)
    requires s.len() == 4
    ensures #[trigger] be_nat(s) == ((s[0] as nat * 256 + s[1] as nat) * 256 + s[2] as nat) * 256 + s[3] as nat
{ lemma_be4(s); }
pub broadcast proof fn ax_be16_nat(a: u8, b: u8)
    ensures (#[trigger] be16(a, b)) as nat == a as nat * 256 + b as nat
{ lemma_be16_nat(a, b); }
pub broadcast proof fn ax_subrange_subrange(s: Seq<u8>, a: int, b: int, c: int, d: int)
    requires 0 <= a <= b <= s.len(), 0 <= c <= d <= b - a
    ensures #[trigger] s.subrange(a, b).subrange(c, d) == s.subrange(a + c, a + d)
{ assert(s.subrange(a, b).subrange(c, d) =~= s.subrange(a + c, a + d)); }

pub broadcast group vx_axioms { axiom_cow_deref_bytes, axiom_into_bytes_view_slice, ax_enc_be_len, ax_run_len }
/// only in the bodies of the parse functions (contracts/style.py): elsewhere these rewrites cost more than they give
pub broadcast group vx_style { ax_be_nat_2, ax_be_nat_4, ax_be16_nat, ax_subrange_subrange }

/// Rust guarantee: an allocation never exceeds isize::MAX bytes, so a Vec of non-zero-sized elements has fewer than
/// usize::MAX elements (assumed; used for `len() + 1` in Packet::write_header)
#[verifier::external_body]
pub proof fn axiom_vec_len_bound<T>(v: &Vec<T>) ensures v@.len() <= isize::MAX {}

/// vacuity canary (vx/vacuity.py): every call must be reported as a failed precondition
pub proof fn vx_canary() requires false {}

#[verifier::external_body]
pub fn fmt_error() -> std::fmt::Error { std::fmt::Error }

} // verus!
