// D16 demonstration (public API only): place at simple-dns/tests/d16_demo.rs and run `cargo test -p simple-dns --test d16_demo`.
// The test FAILS on the pinned code: a response code above 15 needs the OPT record for its upper bits (RFC 6891 6.1.3); a packet
// that carries such a code without EDNS data is serialised with the low nibble only and reads back with a different code.
use simple_dns::{Packet, RCODE};

#[test]
fn extended_rcode_without_edns_changes_on_build_then_parse() {
    let mut p = Packet::new_reply(7);
    *p.rcode_mut() = RCODE::BADVERS;
    let bytes = p.build_bytes_vec().unwrap();
    let back = Packet::parse(&bytes).unwrap();
    assert_eq!(back.rcode(), RCODE::BADVERS, "BADVERS (16) without an OPT record is written as nibble 0 and parsed as NoError");
}
