// D18 demonstration (public API only): place at simple-dns/tests/d18_demo.rs and run `cargo test -p simple-dns --test d18_demo`.
// Values that the public constructors allow but that are not in the image of the parser ("not canonical"): they are
// serialised into something that reads back as a different value.  Each test FAILS on the pinned code.
use simple_dns::{rdata::*, Name, Packet, Question, ResourceRecord, CLASS, QCLASS, QTYPE, TYPE};

fn roundtrip_answer(rdata: RData<'static>) -> (RData<'static>, RData<'static>) {
    let mut p = Packet::new_reply(1);
    p.answers.push(ResourceRecord::new(Name::new_unchecked("a.b"), CLASS::IN, 1, rdata.clone()));
    let bytes = p.build_bytes_vec().unwrap();
    let back = Packet::parse(&bytes).unwrap();
    let b = back.answers[0].rdata.clone().into_owned();
    (rdata, b)
}

#[test]
fn txt_without_strings() {
    // written as one empty character-string (RFC 1035 wants at least one), read back as a TXT with one empty string
    let (a, b) = roundtrip_answer(RData::TXT(TXT::new()));
    assert_eq!(a, b);
}

#[test]
fn null_with_empty_data() {
    // RDLENGTH 0 reads back as RData::Empty(TYPE::NULL)
    let (a, b) = roundtrip_answer(RData::NULL(10, NULL::new(&[]).unwrap()));
    assert_eq!(a, b);
}

#[test]
fn opaque_record_with_the_code_of_a_typed_record() {
    // NULL(1, four bytes) is written under TYPE 1 and reads back as an A record
    let (a, b) = roundtrip_answer(RData::NULL(1, NULL::new(&[1, 2, 3, 4]).unwrap()));
    assert_eq!(a, b);
}

#[test]
fn question_type_unknown_255() {
    // QTYPE::TYPE(TYPE::Unknown(255)) is written as 255 and reads back as QTYPE::ANY
    let mut p = Packet::new_query(1);
    p.questions.push(Question::new(Name::new_unchecked("a.b"), QTYPE::TYPE(TYPE::Unknown(255)), QCLASS::CLASS(CLASS::IN), false));
    let bytes = p.build_bytes_vec().unwrap();
    let back = Packet::parse(&bytes).unwrap();
    assert_eq!(back.questions[0].qtype, QTYPE::TYPE(TYPE::Unknown(255)));
}
