//! vxreplay -- bounded stand-ins and counterexample search on the REAL crate (public API only).
//!
//! Used by ./check for (a) the functions a property depends on that are outside the deductive verifier's reach
//! (Name::new, Display for Name, TXT text/attribute conversions, TXT size cache, build_bytes_vec*), and (b) as a search for a
//! concrete failing input when the verifier reports a failing or undecidable obligation.  Every suite states its bound;
//! a suite never proves anything.  Output: one JSON object per line on stdout.
#![allow(clippy::all)]
use simple_dns::rdata::*;
use simple_dns::*;
use std::collections::hash_map::DefaultHasher;
use std::convert::TryFrom;
use std::hash::{Hash, Hasher};
use std::io::Cursor;
use std::panic::{catch_unwind, AssertUnwindSafe};
use std::sync::{Arc, Mutex};

fn hex(b: &[u8]) -> String { b.iter().map(|x| format!("{:02x}", x)).collect() }
fn jstr(s: &str) -> String {
    let mut o = String::from("\"");
    for c in s.chars() {
        match c { '"' => o.push_str("\\\""), '\\' => o.push_str("\\\\"), '\n' => o.push_str("\\n"), c if (c as u32) < 0x20 => o.push_str(&format!("\\u{:04x}", c as u32)), c => o.push(c) }
    }
    o.push('"'); o
}

struct Report { suite: &'static str, bound: &'static str, cases: u64, failures: Vec<(String, String, String)> }
impl Report {
    fn new(suite: &'static str, bound: &'static str) -> Self { Report { suite, bound, cases: 0, failures: vec![] } }
    fn fail(&mut self, check: &str, input: String, detail: String) {
        // at most 3 inputs per distinct check, so that one defect cannot hide another
        if self.failures.iter().filter(|f| f.0 == check).count() < 3 && self.failures.len() < 90 { self.failures.push((check.to_string(), input, detail)); }
    }
    fn print(&self) {
        let fs: Vec<String> = self.failures.iter().map(|(c, i, d)| format!("{{\"check\":{},\"input\":{},\"detail\":{}}}", jstr(c), jstr(i), jstr(d))).collect();
        println!("{{\"suite\":{},\"bound\":{},\"cases\":{},\"failures\":[{}]}}", jstr(self.suite), jstr(self.bound), self.cases, fs.join(","));
    }
}

// ------------------------------------------------------------------ reference oracles (written from the RFCs)
/// RFC 1035 4.1.4 name decoder: labels and the number of bytes occupied in place
fn ref_name(data: &[u8], start: usize) -> Option<(Vec<Vec<u8>>, usize)> {
    let mut labels = vec![]; let mut p = start; let mut size = 0usize; let mut inplace: Option<usize> = None;
    loop {
        if p >= data.len() || size >= 255 { return None; }
        let b = data[p];
        if b == 0 { if inplace.is_none() { inplace = Some(p + 1 - start); } break; }
        if b & 0xC0 == 0xC0 {
            if p + 2 > data.len() { return None; }
            let t = (((b & 0x3F) as usize) << 8) | data[p + 1] as usize;
            if t >= p { return None; }
            if inplace.is_none() { inplace = Some(p + 2 - start); }
            p = t; continue;
        }
        if b > 63 { return None; }
        let l = b as usize;
        if p + 1 + l > data.len() || size + 1 + l >= 255 { return None; }
        labels.push(data[p + 1..p + 1 + l].to_vec()); size += 1 + l; p += 1 + l;
    }
    Some((labels, inplace.unwrap()))
}
fn lossy_name(labels: &[Vec<u8>]) -> String { labels.iter().map(|l| String::from_utf8_lossy(l).into_owned()).collect::<Vec<_>>().join(".") }
fn be16(d: &[u8], p: usize) -> usize { ((d[p] as usize) << 8) | d[p + 1] as usize }

#[derive(Debug, Clone)]
struct EnvRR { owner: Vec<Vec<u8>>, typ: usize, class: usize, ttl: u32, rd_start: usize, rd_end: usize }
#[derive(Debug, Clone)]
struct Env { questions: Vec<(Vec<Vec<u8>>, usize, usize)>, sections: [Vec<EnvRR>; 3] }
/// independent RFC 1035 envelope walker: names, fixed 10-byte RR header, RDLENGTH skip
fn ref_walk(d: &[u8]) -> Option<Env> { ref_walk2(d, true) }
fn ref_walk2(d: &[u8], strict_end: bool) -> Option<Env> {
    if d.len() < 12 { return None; }
    let counts = [be16(d, 4), be16(d, 6), be16(d, 8), be16(d, 10)];
    let mut p = 12;
    let mut qs = vec![];
    for _ in 0..counts[0] {
        let (n, l) = ref_name(d, p)?; p += l;
        if p + 4 > d.len() { return None; }
        qs.push((n, be16(d, p), be16(d, p + 2))); p += 4;
    }
    let mut secs: [Vec<EnvRR>; 3] = [vec![], vec![], vec![]];
    for s in 0..3 {
        for _ in 0..counts[s + 1] {
            let (n, l) = ref_name(d, p)?; p += l;
            if p + 10 > d.len() { return None; }
            let rdlen = be16(d, p + 8);
            let ttl = ((be16(d, p + 4) as u32) << 16) | be16(d, p + 6) as u32;
            if p + 10 + rdlen > d.len() { return None; }
            secs[s].push(EnvRR { owner: n, typ: be16(d, p), class: be16(d, p + 2), ttl, rd_start: p + 10, rd_end: p + 10 + rdlen });
            p += 10 + rdlen;
        }
    }
    if strict_end && p != d.len() { return None; }
    Some(Env { questions: qs, sections: secs })
}

fn alnum(c: u8) -> bool { c.is_ascii_digit() || c.is_ascii_alphabetic() }
/// property C17 label grammar
fn ref_label_ok(l: &[u8]) -> bool {
    let n = l.len();
    if n < 1 || n > 63 { return false; }
    if !(alnum(l[0]) || l[0] == b'_') || !alnum(l[n - 1]) { return false; }
    l[1..].iter().all(|c| alnum(*c) || *c == b'-' || *c == b'_')
}
fn ref_name_text(s: &str) -> (bool, Vec<Vec<u8>>) {
    let labels: Vec<Vec<u8>> = s.as_bytes().split(|c| *c == b'.').filter(|l| !l.is_empty()).map(|l| l.to_vec()).collect();
    let wire: usize = labels.iter().map(|l| l.len() + 1).sum::<usize>() + 1;
    (labels.iter().all(|l| ref_label_ok(l)) && wire <= 255, labels)
}

// ------------------------------------------------------------------ suite: textual name API (C17)
fn suite_name_text(r: &mut Report) {
    let alphabet: [&str; 8] = ["a", "A", "1", "-", "_", ".", "\\", "\u{e9}"];
    // bounded-exhaustive: all strings of <= 5 symbols over the alphabet
    let mut cur: Vec<usize> = vec![];
    loop {
        let s: String = cur.iter().map(|i| alphabet[*i]).collect();
        check_name_text(r, &s);
        // next
        let mut k = cur.len();
        loop {
            if k == 0 { cur = vec![0; cur.len() + 1]; break; }
            k -= 1;
            if cur[k] + 1 < alphabet.len() { cur[k] += 1; for j in k + 1..cur.len() { cur[j] = 0; } break; }
        }
        if cur.len() > 5 { break; }
    }
    // label lengths 0..=70 and name lengths around 255
    for n in 0..=70usize { check_name_text(r, &"a".repeat(n)); check_name_text(r, &format!("x.{}", "b".repeat(n))); }
    for last in 55..=66usize { check_name_text(r, &format!("{}.{}.{}.{}", "a".repeat(63), "b".repeat(63), "c".repeat(63), "d".repeat(last))); }
    for k in 120..=130usize { check_name_text(r, &vec!["a"; k].join(".")); }
    for dots in [250usize, 255, 256, 290] { check_name_text(r, &format!("example{}com", ".".repeat(dots))); }
    // suffix algebra: all pairs of names with <= 3 labels over {a, b}
    let mut names: Vec<Vec<&str>> = vec![vec![]];
    for n in 1..=3 { for m in 0..(1 << n) { names.push((0..n).map(|i| if m >> i & 1 == 1 { "b" } else { "a" }).collect()); } }
    for x in &names { for y in &names {
        r.cases += 1;
        let lx: Vec<Label> = x.iter().map(|s| Label::new_unchecked(s.as_bytes())).collect();
        let ly: Vec<Label> = y.iter().map(|s| Label::new_unchecked(s.as_bytes())).collect();
        let (nx, ny) = (Name::new_with_labels(&lx), Name::new_with_labels(&ly));
        let want = x.len() > y.len() && x[x.len() - y.len()..] == y[..];
        if nx.is_subdomain_of(&ny) != want { r.fail("is_subdomain_of", format!("{:?} vs {:?}", x, y), format!("want {}", want)); }
        match nx.without(&ny) {
            Some(rest) => { if !want || rest.get_labels().len() != x.len() - y.len() || rest.to_string() != x[..x.len() - y.len()].join(".") { r.fail("without", format!("{:?} - {:?}", x, y), rest.to_string()); } }
            None => if want { r.fail("without", format!("{:?} - {:?}", x, y), "None".into()); }
        }
    } }
    for s in ["local", "LOCAL", "Local", "lOcAl", "locale", "loca", "xlocal", "host.local", "host.LOCAL", "local.host", "a.b.Local", ""] {
        r.cases += 1;
        let n = Name::new_unchecked(s);
        let want = s.rsplit('.').next().map(|l| l.eq_ignore_ascii_case("local")).unwrap_or(false);
        if n.is_link_local() != want { r.fail("is_link_local", s.to_string(), format!("want {}", want)); }
    }
}
fn check_name_text(r: &mut Report, s: &str) {
    r.cases += 1;
    let (want, labels) = ref_name_text(s);
    let got = catch_unwind(AssertUnwindSafe(|| Name::new(s)));
    match got {
        Err(_) => r.fail("Name::new panics", s.to_string(), String::new()),
        Ok(res) => {
            if res.is_ok() != want { r.fail("Name::new accepts exactly the grammar", s.to_string(), format!("library {} reference {}", res.is_ok(), want)); return; }
            if let Ok(n) = res {
                let shown = n.to_string();
                let want_shown = lossy_name(&labels);
                if shown != want_shown { r.fail("display gives back the text without empty labels", s.to_string(), shown.clone()); }
                match Name::new(&shown) { Ok(n2) => if n2 != n { r.fail("re-created name equal", s.to_string(), shown) }, Err(_) => r.fail("displayed name re-parses", s.to_string(), shown) }
            }
        }
    }
}

// ------------------------------------------------------------------ packet generator
fn name_pool() -> Vec<&'static str> {
    vec!["", "a", "b.a", "c.b.a", "x.a", "example.com", "www.example.com", "mail.example.com", "ns1.example.com", "example.org", "_sip._tcp.example.com", "com"]
}
fn rdata_kinds(i: usize, n1: &'static str, n2: &'static str) -> Option<RData<'static>> {
    let nm = |s: &'static str| Name::new_unchecked(s);
    let cs = |s: &'static str| CharacterString::new(s.as_bytes()).unwrap();
    Some(match i {
        0 => RData::A(A { address: 0x01020304 }),
        1 => RData::AAAA(AAAA { address: 0x0102030405060708090a0b0c0d0e0f10 }),
        2 => RData::NS(NS(nm(n1))), 3 => RData::MD(MD(nm(n1))), 4 => RData::CNAME(CNAME(nm(n1))), 5 => RData::MB(MB(nm(n1))),
        6 => RData::MG(MG(nm(n1))), 7 => RData::MR(MR(nm(n1))), 8 => RData::PTR(PTR(nm(n1))), 9 => RData::MF(MF(nm(n1))),
        10 => RData::HINFO(HINFO { cpu: cs("cpu"), os: cs("") }),
        11 => RData::MINFO(MINFO { rmailbox: nm(n1), emailbox: nm(n2) }),
        12 => RData::MX(MX { preference: 0x0102, exchange: nm(n1) }),
        13 => RData::TXT(TXT::new().with_string("k=v").unwrap().with_string("").unwrap()),
        14 => RData::SOA(SOA { mname: nm(n1), rname: nm(n2), serial: 0x01020304, refresh: -2, retry: 0x0a0b0c0d, expire: i32::MIN, minimum: u32::MAX }),
        15 => RData::WKS(WKS { address: 0x0a000001, protocol: 6, bit_map: vec![1, 2, 3].into() }),
        16 => RData::SRV(SRV { priority: 1, weight: 2, port: 3, target: nm(n1) }),
        17 => RData::RP(RP { mbox: nm(n1), txt: nm(n2) }),
        18 => RData::AFSDB(AFSDB { subtype: 2, hostname: nm(n1) }),
        19 => RData::ISDN(ISDN { address: cs("150862028003217"), sa: cs("004") }),
        20 => RData::RouteThrough(RouteThrough { preference: 7, intermediate_host: nm(n1) }),
        21 => RData::NAPTR(NAPTR { order: 1, preference: 2, flags: cs("U"), services: cs("E2U+sip"), regexp: cs("!^.*$!sip:x@y!"), replacement: nm(n1) }),
        22 => RData::NSAP(NSAP { afi: 0x47, idi: 0x0005, dfi: 0x80, aa: 0x005a00, rsvd: 0, rd: 0x0001, area: 0x0002, id: 0x0000_0102_0304_0506, sel: 9 }),
        23 => RData::NSAP_PTR(NSAP_PTR(nm(n1))),
        24 => RData::LOC(LOC { version: 0, size: 0x12, horizontal_precision: 0x16, vertical_precision: 0x13, latitude: -5, longitude: 7, altitude: 0x00989680 }),
        25 => RData::CAA(CAA { flag: 128, tag: cs("issue"), value: b"ca.example.net".to_vec().into() }),
        26 => { let mut s = SVCB::new(1, nm(n1)); s.set_port(443); s.set_param(7, &b"x"[..]).unwrap(); RData::SVCB(s) }
        27 => { let mut s = SVCB::new(0, nm(n1)); s.set_no_default_alpn(); RData::HTTPS(HTTPS(s)) }
        28 => RData::EUI48(EUI48 { address: [1, 2, 3, 4, 5, 6] }), 29 => RData::EUI64(EUI64 { address: [1, 2, 3, 4, 5, 6, 7, 8] }),
        30 => RData::CERT(CERT { type_code: 1, key_tag: 2, algorithm: 3, certificate: vec![9, 8, 7].into() }),
        31 => RData::ZONEMD(ZONEMD { serial: 5, scheme: 1, algorithm: 2, digest: vec![0xaa; 4].into() }),
        32 => RData::KX(KX { preference: 3, exchanger: nm(n1) }),
        33 => RData::DNSKEY(DNSKEY { flags: 0x0101, protocol: 3, algorithm: 8, public_key: vec![1, 2].into() }),
        34 => RData::RRSIG(RRSIG { type_covered: 1, algorithm: 8, labels: 2, original_ttl: 3600, signature_expiration: 0xfffffff0, signature_inception: 5, key_tag: 0xbeef, signer_name: nm(n1), signature: vec![7; 5].into() }),
        35 => RData::DS(DS { key_tag: 1, algorithm: 2, digest_type: 3, digest: vec![4; 3].into() }),
        36 => RData::NSEC(NSEC { next_name: nm(n1), type_bit_maps: vec![] }),
        37 => RData::DHCID(DHCID { identifier: 2, digest_type: 1, digest: vec![3; 3].into() }),
        38 => RData::NULL(10, NULL::new(b"\x01\x02").unwrap()),
        39 => RData::NULL(65280, NULL::new(b"\x00").unwrap()),
        40 => RData::Empty(TYPE::A),
        _ => return None,
    })
}
const NKINDS: usize = 41;
const CLASSES: [CLASS; 5] = [CLASS::IN, CLASS::CS, CLASS::CH, CLASS::HS, CLASS::NONE];

fn make_packets() -> Vec<(String, Packet<'static>)> {
    let pool = name_pool();
    let mut out = vec![];
    let mut seq = 0usize;
    // every record kind, with several owner / rdata name combinations that share suffixes
    for k in 0..NKINDS {
        for (o, a, b) in [(5usize, 6usize, 7usize), (6, 5, 5), (2, 3, 1), (0, 11, 0), (10, 5, 6)] {
            let mut p = Packet::new_reply((k * 7 + o) as u16);
            p.questions.push(Question::new(Name::new_unchecked(pool[o]), QTYPE::TYPE([TYPE::A, TYPE::NS, TYPE::SOA, TYPE::TXT, TYPE::SRV, TYPE::NULL, TYPE::HTTPS][k % 7]), QCLASS::CLASS(CLASSES[seq % 5]), seq % 3 == 0));
            let rd = rdata_kinds(k, pool[a], pool[b]).unwrap();
            let rr = ResourceRecord::new(Name::new_unchecked(pool[o]), CLASSES[(seq + 1) % 5], 0x01020304u32.wrapping_mul(seq as u32 + 1), rd).with_cache_flush(seq % 2 == 1);
            p.answers.push(rr.clone());
            p.name_servers.push(ResourceRecord::new(Name::new_unchecked(pool[a]), CLASS::IN, 1, rdata_kinds((k + 11) % NKINDS, pool[b], pool[o]).unwrap()));
            p.additional_records.push(ResourceRecord::new(Name::new_unchecked(pool[b]), CLASS::IN, u32::MAX, rdata_kinds((k + 23) % NKINDS, pool[o], pool[a]).unwrap()));
            p.additional_records.push(rr);
            if seq % 4 == 0 {
                *p.opt_mut() = Some(OPT { opt_codes: vec![OPTCode { code: 10, data: vec![1, 2, 3].into() }, OPTCode { code: 3, data: vec![].into() }], udp_packet_size: 1232, version: (seq % 256) as u8 });
                if seq % 8 == 0 { *p.rcode_mut() = RCODE::BADVERS; } else { *p.rcode_mut() = RCODE::Refused; }
            }
            if seq % 5 == 0 { p.set_flags(PacketFlag::AUTHENTIC_DATA | PacketFlag::RECURSION_DESIRED); }
            out.push((format!("kind{}-names{}/{}/{}", k, o, a, b), p));
            seq += 1;
        }
    }
    // a long message: a name that first appears beyond offset 16383, straddling names (C03)
    for start in [16300usize, 16370, 16380, 16383, 16384, 16400] {
        let mut p = Packet::new_reply(1);
        p.questions.push(Question::new(Name::new_unchecked("q.example"), QTYPE::ANY, QCLASS::ANY, false));
        let filler: &'static [u8] = Box::leak(vec![0xAB; start - 12 - 15 - 12].into_boxed_slice());
        p.answers.push(ResourceRecord::new(Name::new_unchecked(""), CLASS::IN, 0, RData::NULL(10, NULL::new(filler).unwrap())));
        p.answers.push(ResourceRecord::new(Name::new_unchecked("aaaa.bbbbbbbbbbbbbbbb.cccc.straddle.test"), CLASS::IN, 5, RData::A(A { address: 1 })));
        p.answers.push(ResourceRecord::new(Name::new_unchecked("cccc.straddle.test"), CLASS::IN, 5, RData::NS(NS(Name::new_unchecked("bbbbbbbbbbbbbbbb.cccc.straddle.test")))));
        p.answers.push(ResourceRecord::new(Name::new_unchecked("aaaa.bbbbbbbbbbbbbbbb.cccc.straddle.test"), CLASS::IN, 5, RData::MX(MX { preference: 1, exchange: Name::new_unchecked("straddle.test") })));
        out.push((format!("straddle-{}", start), p));
    }
    out
}

fn pkt_sig(p: &Packet) -> String {
    format!("id={} flags={:?} op={:?} rc={:?} opt={:?}\nQ={:?}\nA={:?}\nN={:?}\nX={:?}", p.id(),
        [PacketFlag::RESPONSE, PacketFlag::AUTHORITATIVE_ANSWER, PacketFlag::TRUNCATION, PacketFlag::RECURSION_DESIRED, PacketFlag::RECURSION_AVAILABLE, PacketFlag::AUTHENTIC_DATA, PacketFlag::CHECKING_DISABLED].iter().map(|f| p.has_flags(*f)).collect::<Vec<_>>(),
        p.opcode(), p.rcode(), p.opt(), p.questions, rr_sig(&p.answers), rr_sig(&p.name_servers), rr_sig(&p.additional_records))
}
fn rr_sig(v: &[ResourceRecord]) -> String { v.iter().map(|r| format!("[{:?} {:?} ttl={} cf={} {:?}]", r.name, r.class, r.ttl, r.cache_flush, r.rdata)).collect::<Vec<_>>().join(" ") }

const NOCOMP: [usize; 8] = [33, 35, 36, 46, 47, 45, 64, 65];
/// (type code, offsets of names inside the RDATA that may be compressed: leading names count / fixed prefix)
fn rdata_name_layout(t: usize) -> Option<(usize, usize)> {   // (fixed prefix bytes, number of consecutive names)
    match t { 2 | 3 | 4 | 5 | 7 | 8 | 9 | 12 | 23 => Some((0, 1)), 6 | 14 | 17 => Some((0, 2)), 15 | 18 | 21 => Some((2, 1)), _ => None }
}

// ------------------------------------------------------------------ suite: build / parse / compress round trips (C02 C03 C04 C07 C09 C11 C16)
fn suite_roundtrip(r: &mut Report) {
    for (label, p) in make_packets() {
        r.cases += 1;
        let res = catch_unwind(AssertUnwindSafe(|| {
            let mut fails: Vec<(String, String)> = vec![];
            let plain = match p.build_bytes_vec() { Ok(b) => b, Err(e) => { return vec![("build_bytes_vec fails".to_string(), format!("{:?}", e))]; } };
            let comp = match p.build_bytes_vec_compressed() { Ok(b) => b, Err(e) => { return vec![("build_bytes_vec_compressed fails".to_string(), format!("{:?}", e))]; } };
            let want = pkt_sig(&p);
            match Packet::parse(&plain) { Ok(q) => if pkt_sig(&q) != want { fails.push(("C02 build then parse returns the same packet".into(), format!("bytes {}", hex(&plain)))); }
                                          Err(e) => fails.push(("C02 plain output does not parse".into(), format!("{:?} bytes {}", e, hex(&plain)))) }
            match Packet::parse(&comp) { Ok(q) => if pkt_sig(&q) != want { fails.push(("C03 compressed output parses to a different packet".into(), format!("bytes {}", hex(&comp[..comp.len().min(400)])))); }
                                         Err(e) => fails.push(("C03 compressed output does not parse".into(), format!("{:?} bytes {}", e, hex(&comp[..comp.len().min(400)])))) }
            if comp.len() > plain.len() { fails.push(("C03 compressed longer than plain".into(), format!("{} > {}", comp.len(), plain.len()))); }
            // C04: framing by an independent walker, counts, writer agreement
            for (what, bytes) in [("plain", &plain), ("compressed", &comp)] {
                match ref_walk(bytes) {
                    None => fails.push((format!("C04 {} output is not well-framed (counts / RDLENGTH / trailing bytes)", what), hex(&bytes[..bytes.len().min(400)]))),
                    Some(env) => {
                        let n_opt = p.opt().is_some() as usize;
                        if env.questions.len() != p.questions.len() || env.sections[0].len() != p.answers.len() || env.sections[1].len() != p.name_servers.len()
                            || env.sections[2].len() != p.additional_records.len() + n_opt { fails.push((format!("C04 {} header counts", what), String::new())); }
                        if n_opt == 1 && env.sections[2].iter().filter(|e| e.typ == 41).count() != 1 { fails.push((format!("C09 {}: exactly one OPT record", what), String::new())); }
                    }
                }
            }
            let mut v = Vec::new();
            if p.write_to(&mut v).is_err() || v != plain { fails.push(("C04 write_to(Vec) differs from build_bytes_vec".into(), String::new())); }
            let mut c = Cursor::new(Vec::new());
            if p.write_compressed_to(&mut c).is_err() || c.into_inner() != comp { fails.push(("C04 write_compressed_to(Cursor) differs from build_bytes_vec_compressed".into(), String::new())); }
            for cap in [0usize, 11, 12, plain.len().saturating_sub(1)] {
                let mut buf = vec![0u8; cap];
                let mut w: &mut [u8] = &mut buf[..];
                if cap < plain.len() && p.write_to(&mut w).is_ok() { fails.push(("C04 too small writer reports success".into(), format!("capacity {}", cap))); }
            }
            // C07: pointers in the compressed output
            if let (Some(ec), Some(ep)) = (ref_walk(&comp), ref_walk(&plain)) {
                let mut seen_full: Vec<(Vec<Vec<u8>>, usize)> = vec![];   // complete names and where they start
                let mut check_name = |at: usize, must_be_full: bool, fails: &mut Vec<(String, String)>, seen: &mut Vec<(Vec<Vec<u8>>, usize)>| -> usize {
                    let (labels, inl) = match ref_name(&comp, at) { Some(x) => x, None => { fails.push(("C07 name does not decode".into(), format!("offset {}", at))); return 1; } };
                    // walk in-place bytes for a pointer
                    let mut q = at; let mut has_ptr = false;
                    while q < at + inl { let b = comp[q]; if b == 0 { break; } if b & 0xC0 == 0xC0 { has_ptr = true; let t = ((b as usize & 0x3F) << 8) | comp[q + 1] as usize; if t >= at || t > 16383 { fails.push(("C07 pointer not backwards / beyond 16383".into(), format!("at {} -> {}", q, t))); } break; } q += 1 + b as usize; }
                    if must_be_full && has_ptr { fails.push(("C07 name that must not be compressed is a pointer".into(), format!("offset {}", at))); }
                    if !must_be_full && !labels.is_empty() { if let Some((_, pos)) = seen.iter().find(|(l, pos)| *l == labels && *pos <= 16383) { if inl != 2 { fails.push(("C07 repeated name is not written as a pointer".into(), format!("offset {} (first at {})", at, pos))); } } }
                    if !labels.is_empty() { seen.push((labels, at)); }
                    inl
                };
                let mut p0 = 12;
                for _ in &ec.questions { let l = check_name(p0, false, &mut fails, &mut seen_full); p0 += l + 4; }
                for (si, sec) in ec.sections.iter().enumerate() {
                    for (ri, e) in sec.iter().enumerate() {
                        let owner_at = if si == 0 && ri == 0 { p0 } else { p0 };
                        let l = check_name(owner_at, false, &mut fails, &mut seen_full);
                        let _ = l;
                        if NOCOMP.contains(&e.typ) {
                            let pe = &ep.sections[si][ri];
                            if comp[e.rd_start..e.rd_end] != plain[pe.rd_start..pe.rd_end] { fails.push(("C07 RDATA of a no-compression type differs from the plain encoding".into(), format!("type {}", e.typ))); }
                        } else if let Some((pre, n)) = rdata_name_layout(e.typ) {
                            if e.rd_end > e.rd_start { let mut q = e.rd_start + pre; for _ in 0..n { q += check_name(q, false, &mut fails, &mut seen_full); } }
                        }
                        p0 = e.rd_end;
                    }
                }
            }
            // C16 / C12 observers on the parsed packet
            if let Ok(q) = Packet::parse(&comp) {
                for rr in q.answers.iter().chain(q.additional_records.iter()) {
                    let o = rr.clone().into_owned();
                    if o != *rr || format!("{:?}", o) != format!("{:?}", rr) { fails.push(("C16 into_owned differs".into(), format!("{:?}", rr))); }
                    let (mut h1, mut h2) = (DefaultHasher::new(), DefaultHasher::new());
                    o.hash(&mut h1); rr.hash(&mut h2);
                    if h1.finish() != h2.finish() { fails.push(("C16 equal records hash differently".into(), format!("{:?}", rr))); }
                    // values that compare equal must hash equally: vary everything equality may ignore
                    let mut v = rr.clone(); v.ttl = rr.ttl.wrapping_add(1); v.cache_flush = !rr.cache_flush;
                    let (mut h3, mut h4) = (DefaultHasher::new(), DefaultHasher::new());
                    v.hash(&mut h3); rr.hash(&mut h4);
                    if v == *rr && h3.finish() != h4.finish() { fails.push(("C16 records that compare equal hash differently".into(), format!("{:?}", rr))); }
                    let shown = rr.name.to_string();
                    if let Ok(n2) = Name::new(&shown) { let (mut h5, mut h6) = (DefaultHasher::new(), DefaultHasher::new()); n2.hash(&mut h5); rr.name.hash(&mut h6);
                        if n2 == rr.name && h5.finish() != h6.finish() { fails.push(("C16 names that compare equal hash differently".into(), shown.clone())); }
                        // names differing only in letter case: whatever equality decides, hashing must agree
                        let up = shown.to_ascii_uppercase();
                        if let Ok(n3) = Name::new(&up) { let (mut h7, mut h8) = (DefaultHasher::new(), DefaultHasher::new()); n3.hash(&mut h7); rr.name.hash(&mut h8);
                            if n3 == rr.name && h7.finish() != h8.finish() { fails.push(("C16 names that compare equal hash differently".into(), format!("{} / {}", shown, up))); } }
                        if n2 != rr.name && rr.name.get_labels().iter().all(|l| l.len() > 0) && Name::new(&shown).map(|x| x.to_string()) == Ok(shown.clone()) && !shown.contains('\u{fffd}') && shown.is_ascii() && !shown.contains("..") {
                            // same labels built from text and from the wire must be equal
                            if format!("{:?}", n2) == format!("{:?}", rr.name) { fails.push(("C16 names with the same labels compare unequal".into(), shown)); }
                        }
                    }
                    // owned copy serialises to identical bytes
                    let mut pa = Packet::new_reply(1); pa.answers.push(rr.clone());
                    let mut pb = Packet::new_reply(1); pb.answers.push(o.clone());
                    if pa.build_bytes_vec().ok() != pb.build_bytes_vec().ok() { fails.push(("C16 owned copy serialises differently".into(), format!("{:?}", rr))); }
                }
            }
            fails
        }));
        match res { Err(_) => r.fail("panic while building / parsing", label.clone(), String::new()), Ok(fs) => for (c, d) in fs { r.fail(&c, label.clone(), d); } }
    }
}

// ------------------------------------------------------------------ suite: malformed inputs (C01 C05 C06) with a watchdog for hangs
fn malformed_bases() -> (Vec<Vec<u8>>, Vec<Vec<u8>>) {
    let mut bases: Vec<Vec<u8>> = vec![];
    let mut must_accept: Vec<Vec<u8>> = vec![];
    for (i, (_, p)) in make_packets().into_iter().enumerate() { if i % 5 == 0 && !format!("{}", i).is_empty() { if let Ok(b) = p.build_bytes_vec_compressed() { if b.len() < 600 { must_accept.push(b.clone()); bases.push(b); } } } }
    // hand-made pointer graphs (C06): cycles, forward pointers, reserved label types, pointer into header, label ending at the end
    let hdr = |qd: u8, an: u8| vec![0, 1, 0x80, 0, 0, qd, 0, an, 0, 0, 0, 0];
    for tail in [vec![0xC0u8, 0x0C], vec![0xC0, 0x00], vec![0x40, 0x0C], vec![0x80, 0x0C], vec![1, b'a', 0xC0, 0x0C], vec![0xC0, 0x0E, 0xC0, 0x0C], vec![63], vec![64, 0], vec![2, 0xC0, 0x0B]] {
        let mut m = hdr(1, 0); m.extend_from_slice(&tail); m.extend_from_slice(&[0, 1, 0, 1]); bases.push(m.clone());
        let mut m2 = hdr(0, 1); m2.extend_from_slice(&[1, b'x', 0, 0, 10, 0, 1, 0, 0, 0, 0, 0, 1, 1]); m2.extend_from_slice(&tail); bases.push(m2);
    }
    // a pointer whose target label run covers the pointer itself (the decoder passes over the pointer's own bytes)
    for l0 in [1u8, 2] {
        let mut m = vec![0x12, 0x34, 0x81, 0x80, 0, 0, 0, 2, 0, 0, 0, 0];
        m.extend_from_slice(&[0x00, 0, 10, 0, 1, 0, 0, 0, 0, 0, 1, l0]);
        m.extend_from_slice(&[0xc0, 23]);
        m.extend_from_slice(&[0, 10, 0, 1, b'a', b'b', b'c', b'd', 0, 14]);
        m.extend_from_slice(b"nopqrstuvwxyz\x00");
        must_accept.push(m.clone());
        bases.push(m);
    }
    // accepted-but-unusual shapes that only the parser produces (C11): each is one answer record after a root question
    let rec = |typ: u16, class: u16, rdata: &[u8]| -> Vec<u8> {
        let mut m = vec![0, 9, 0x84, 0, 0, 1, 0, 1, 0, 0, 0, 0, 0, 0, 1, 0, 1];
        m.extend_from_slice(&[1, b'x', 0]); m.extend_from_slice(&typ.to_be_bytes()); m.extend_from_slice(&class.to_be_bytes());
        m.extend_from_slice(&[0, 0, 1, 0]); m.extend_from_slice(&(rdata.len() as u16).to_be_bytes()); m.extend_from_slice(rdata); m
    };
    for m in [rec(47, 1, &[0, 0, 1, 0x40, 1, 0]), rec(47, 1, &[1, b'n', 0, 3, 0]), rec(47, 0x8003, &[0, 2, 2, 0, 1]),   // NSEC with zero-length windows
              rec(16, 0x8003, &[0]), rec(16, 3, &[1, b'a', 0, 0]), rec(16, 0x80fe, &[0, 0]),                                  // TXT with empty strings, CH/NONE + cache-flush
              rec(64, 1, &[0, 1, 0, 0, 1, 0, 0, 0, 3, 0, 0]), rec(65, 0x8001, &[0, 0, 1, b't', 0]),                           // SVCB / HTTPS with empty values
              rec(10, 2, &[]), rec(65280, 0x8004, &[1, 2, 3]), rec(1, 4, &[]), rec(99, 1, &[0xff]),                            // NULL, unknown, empty
              rec(2, 0x8002, &[0xc0, 0x0c]), rec(6, 1, &[0xc0, 0x0c, 0xc0, 0x11, 0, 0, 0, 1, 0xff, 0xff, 0xff, 0xff, 0, 0, 0, 2, 0x80, 0, 0, 0, 0, 0, 0, 3])] {
        must_accept.push(m.clone()); bases.push(m);
    }
    (bases, must_accept)
}

fn suite_malformed(r: &mut Report, current: &Arc<Mutex<String>>) {
    let (bases, must_accept) = malformed_bases();
    for m in &must_accept {
        r.cases += 1;
        *current.lock().unwrap() = hex(m);
        match catch_unwind(AssertUnwindSafe(|| Packet::parse(m).map(|_| ()))) {
            Ok(Ok(())) => {}
            Ok(Err(e)) => r.fail("C06/C05 well-formed message (RFC envelope walker accepts, opaque or library-built content) is rejected", hex(m), format!("{:?}", e)),
            Err(_) => r.fail("C01/C12 panic", hex(m), String::new()),
        }
    }
    for b in &bases {
        let mut variants: Vec<Vec<u8>> = vec![b.clone()];
        for cut in 0..b.len() { variants.push(b[..cut].to_vec()); }
        for i in 0..b.len() { for d in [1u8, 0xFF] { let mut v = b.clone(); v[i] = v[i].wrapping_add(d); variants.push(v); } for val in [0u8, 0xC0, 0x3F, 0x40] { if b[i] != val { let mut v = b.clone(); v[i] = val; variants.push(v); } } }
        for v in variants { check_variant(r, current, v); }
    }
}

/// one candidate message: header peeks and parse must not panic; if accepted, the result must agree with the RFC envelope
/// walker (C05, C06, C09) and survive re-serialisation (C11) and the observers (C12)
fn check_variant(r: &mut Report, current: &Arc<Mutex<String>>, v: Vec<u8>) {
    {
        {
            r.cases += 1;
            *current.lock().unwrap() = hex(&v);
            let res = catch_unwind(AssertUnwindSafe(|| {
                let mut fails: Vec<(String, String)> = vec![];
                for f in 0..8 { let _ = match f { 0 => header_buffer::id(&v).map(|_| ()), 1 => header_buffer::questions(&v).map(|_| ()), 2 => header_buffer::answers(&v).map(|_| ()), 3 => header_buffer::name_servers(&v).map(|_| ()),
                    4 => header_buffer::additional_records(&v).map(|_| ()), 5 => header_buffer::has_flags(&v, PacketFlag::RESPONSE).map(|_| ()), 6 => header_buffer::rcode(&v).map(|_| ()), _ => header_buffer::opcode(&v).map(|_| ()) }; }
                let parsed = Packet::parse(&v);
                let env = ref_walk2(&v, false);
                if let Ok(p) = &parsed {
                    match &env {
                        None => fails.push(("C05/C06 accepted although the RFC envelope walker rejects".into(), String::new())),
                        Some(e) => {
                            if p.questions.len() != e.questions.len() { fails.push(("C05 question count".into(), String::new())); }
                            for (q, eq) in p.questions.iter().zip(e.questions.iter()) { if q.qname.to_string() != lossy_name(&eq.0) { fails.push(("C06 question name differs from the RFC decoder".into(), format!("{} vs {}", q.qname, lossy_name(&eq.0)))); } }
                            let secs = [&p.answers, &p.name_servers];
                            for s in 0..2 { if secs[s].len() != e.sections[s].len() { fails.push(("C05 section count".into(), String::new())); }
                                for (rr, er) in secs[s].iter().zip(e.sections[s].iter()) {
                                    if rr.name.to_string() != lossy_name(&er.owner) { fails.push(("C06 owner name differs from the RFC decoder".into(), format!("{} vs {}", rr.name, lossy_name(&er.owner)))); }
                                    if u16::from(rr.rdata.type_code()) as usize != er.typ || rr.ttl != er.ttl { fails.push(("C05 type / ttl are not those of the entry".into(), format!("{:?}", rr))); }
                                    if er.typ != 41 && (rr.class as usize != (er.class & 0x7FFF) || rr.cache_flush != (er.class & 0x8000 != 0)) { fails.push(("C05 class / cache-flush are not those of the entry".into(), format!("{:?} wire class {:#x}", rr, er.class))); }
                                } }
                            let n_opt = e.sections[2].iter().filter(|x| x.typ == 41).count().min(1);
                            if p.additional_records.len() + n_opt != e.sections[2].len() { fails.push(("C05/C09 additional section count".into(), String::new())); }
                        }
                    }
                    // C11: re-serialisation of what was accepted, C12: observers
                    let sig = pkt_sig(p);
                    let _ = format!("{:?} {}", p, p.questions.iter().map(|q| q.qname.to_string()).collect::<String>());
                    for rr in p.answers.iter().chain(p.name_servers.iter()).chain(p.additional_records.iter()) { if let RData::TXT(t) = &rr.rdata { let _ = t.attributes(); let _ = t.clone().long_attributes(); let _ = String::try_from(t.clone()); } let _ = rr.clone().into_owned(); }
                    for build in [0, 1] {
                        let out = if build == 0 { p.build_bytes_vec() } else { p.build_bytes_vec_compressed() };
                        match out { Err(e) => fails.push(("C11 re-serialising an accepted message fails".into(), format!("{:?}", e))),
                            Ok(o) => match Packet::parse(&o) { Err(e) => fails.push(("C11 re-serialised message does not parse".into(), format!("{:?} {}", e, hex(&o)))),
                                Ok(p2) => if pkt_sig(&p2) != sig {
                                    let fl = be16(&v, 2); let (op, rc) = ((fl >> 11) & 0xF, fl & 0xF);
                                    let reserved = op == 3 || op >= 6 || rc >= 11;
                                    fails.push((if reserved { "C11 D11 reserved opcode/rcode is rewritten on re-serialisation".into() } else { "C11 re-serialised message parses to a different packet".into() }, hex(&o))); } } }
                    }
                }
                fails
            }));
            match res { Err(_) => r.fail("C01/C12 panic", hex(&v), String::new()), Ok(fs) => for (c, d) in fs { r.fail(&c, hex(&v), d); } }
        }
    }
}

// ------------------------------------------------------------------ suite: seeded random variants (thorough tier)
struct Rng(u64);
impl Rng {
    fn next(&mut self) -> u64 { let mut x = self.0; x ^= x << 13; x ^= x >> 7; x ^= x << 17; self.0 = x; x }
    fn below(&mut self, n: usize) -> usize { if n == 0 { 0 } else { (self.next() % n as u64) as usize } }
}
fn suite_fuzz(r: &mut Report, current: &Arc<Mutex<String>>) {
    let seed: u64 = std::env::var("VERIF_SEED").ok().and_then(|s| s.parse().ok()).unwrap_or(0);
    let n: usize = std::env::var("VX_FUZZ_N").ok().and_then(|s| s.parse().ok()).unwrap_or(200000);
    let mut rng = Rng(seed.wrapping_mul(0x9E3779B97F4A7C15) ^ 0xD1B54A32D192ED03 | 1);
    let (bases, _) = malformed_bases();
    for _ in 0..n {
        let mut v = bases[rng.below(bases.len())].clone();
        for _ in 0..(1 + rng.below(4)) {
            match rng.below(7) {
                0 => { if !v.is_empty() { let i = rng.below(v.len()); v[i] = rng.next() as u8; } }
                1 => { if !v.is_empty() { let i = rng.below(v.len()); v[i] ^= 1 << rng.below(8); } }
                2 => { let cut = rng.below(v.len() + 1); v.truncate(cut); }
                3 => { let i = rng.below(v.len() + 1); v.insert(i, [0u8, 0xC0, 0x3F, 0xFF, 1][rng.below(5)]); }
                4 => { if v.len() > 13 { let i = 12 + rng.below(v.len() - 12); v[i] = 0xC0; if i + 1 < v.len() { v[i + 1] = rng.below(v.len()) as u8; } } }   // plant a pointer
                5 => { let o = &bases[rng.below(bases.len())]; if o.len() > 12 { let a = 12 + rng.below(o.len() - 12); let b = a + rng.below(o.len() - a + 1); let i = rng.below(v.len() + 1).max(12.min(v.len())); let ins = o[a..b].to_vec(); v.splice(i..i, ins); } }   // splice a fragment of another message
                _ => { if v.len() >= 12 { let i = 4 + rng.below(8); v[i] = rng.below(4) as u8; } }   // perturb a header count
            }
        }
        if v.len() > 2000 { v.truncate(2000); }
        check_variant(r, current, v);
    }
}

// ------------------------------------------------------------------ suite: observers on hostile bytes (C12)
fn suite_observers(r: &mut Report) {
    let hostile: Vec<Vec<u8>> = vec![b"caf\xC3".to_vec(), b"eur\xE2\x82".to_vec(), b"\xFF".to_vec(), b"\x00".to_vec(), b"a.b".to_vec(), b"a\\b".to_vec(), vec![0xF0, 0x9F, 0x8C, 0xBD], "k\u{23D}v".as_bytes().to_vec(),
        "\u{1F33D}=x".as_bytes().to_vec(), "a=\u{23B}".as_bytes().to_vec(), b"=".to_vec(), b";".to_vec(), b"k=".to_vec(), b"=v".to_vec(), b"k=v;k2".to_vec(), vec![], vec![b'x'; 63], vec![0x80; 63], b"\xC3\x28".to_vec(), b"\xE2\x28\xA1".to_vec()];
    for h in &hostile {
        for as_txt in [false, true] {
            r.cases += 1;
            let mut m = vec![0, 1, 0x80, 0, 0, 0, 0, 1, 0, 0, 0, 0];
            if as_txt {
                m.extend_from_slice(&[0, 0, 16, 0, 1, 0, 0, 0, 1]); let l = h.len().min(255);
                m.extend_from_slice(&[((l + 1) >> 8) as u8, (l + 1) as u8, l as u8]); m.extend_from_slice(&h[..l]);
            } else {
                if h.is_empty() || h.len() > 63 { continue; }
                m.push(h.len() as u8); m.extend_from_slice(h); m.push(0); m.extend_from_slice(&[0, 1, 0, 1, 0, 0, 0, 1, 0, 4, 1, 2, 3, 4]);
            }
            let res = catch_unwind(AssertUnwindSafe(|| {
                let p = match Packet::parse(&m) { Ok(p) => p, Err(e) => return Some(format!("does not parse: {:?}", e)) };
                let _ = format!("{:?}", p);
                for rr in &p.answers {
                    let _ = rr.name.to_string(); let _ = format!("{}", rr.name); let _ = rr.clone().into_owned(); let mut hh = DefaultHasher::new(); rr.hash(&mut hh);
                    let _ = rr.match_qtype(QTYPE::ANY); let _ = rr == rr;
                    if let RData::TXT(t) = &rr.rdata { let _ = t.attributes(); let _ = t.clone().long_attributes(); let _ = String::try_from(t.clone()); let _ = format!("{:?}", t); }
                }
                None
            }));
            match res { Err(_) => r.fail("C12 observer panics", hex(&m), String::from_utf8_lossy(h).into_owned()), Ok(Some(d)) => r.fail("hostile message rejected", hex(&m), d), Ok(None) => {} }
        }
    }
}

// ------------------------------------------------------------------ suite: TXT text conversion and size cache (C04 / C19 subset)
fn suite_txt(r: &mut Report) {
    for n in [0usize, 1, 253, 254, 255, 256, 300, 508, 509, 600] {
        r.cases += 1;
        let s: String = "x".repeat(n);
        let s: &'static str = Box::leak(s.into_boxed_str());
        let res = catch_unwind(AssertUnwindSafe(|| {
            let txt = match TXT::try_from(s) { Ok(t) => t, Err(e) => return Some(format!("TXT::try_from fails: {:?}", e)) };
            let mut p = Packet::new_reply(1);
            p.answers.push(ResourceRecord::new(Name::new_unchecked("t.example"), CLASS::IN, 1, RData::TXT(txt)));
            p.answers.push(ResourceRecord::new(Name::new_unchecked("u.example"), CLASS::IN, 1, RData::A(A { address: 1 })));
            let b = p.build_bytes_vec().unwrap();
            match ref_walk(&b) { None => return Some(format!("plain output not well-framed (RDLENGTH != RDATA bytes), text length {}", n)), Some(_) => {} }
            match Packet::parse(&b) { Ok(q) => { if q.answers.len() != 2 { return Some("records lost".into()); }
                if let RData::TXT(t) = &q.answers[0].rdata { if n > 0 { match String::try_from(t.clone()) { Ok(back) => if back != s { return Some("text changed".into()); }, Err(_) => return Some("text not recovered".into()) } } } None }
                Err(e) => Some(format!("does not parse: {:?}", e)) }
        }));
        match res { Err(_) => r.fail("panic", format!("text length {}", n), String::new()), Ok(Some(d)) => r.fail("C04 TXT RDLENGTH / text round trip", format!("text length {}", n), d), Ok(None) => {} }
    }
    // <character-string> construction (C10): accepted exactly when the *bytes* fit 255, whatever the characters are;
    // an accepted string is written with its own length octet (never truncated)
    for (unit, reps) in [("x", 255usize), ("x", 256), ("x", 257), ("\u{e9}", 127), ("\u{e9}", 128), ("\u{e9}", 200), ("\u{4e2d}", 85), ("\u{4e2d}", 86), ("\u{1F600}", 63), ("\u{1F600}", 64)] {
        r.cases += 1;
        let s: String = unit.repeat(reps);
        let nbytes = s.len();
        let st: &'static str = Box::leak(s.clone().into_boxed_str());
        let input = format!("{} x {:?} = {} bytes", reps, unit, nbytes);
        let res = catch_unwind(AssertUnwindSafe(|| {
            let mut bad: Vec<String> = vec![];
            let a = CharacterString::new(st.as_bytes()).is_ok();
            let b = CharacterString::try_from(st).is_ok();
            let c = CharacterString::try_from(s.clone()).is_ok();
            if a != (nbytes <= 255) || b != (nbytes <= 255) || c != (nbytes <= 255) { bad.push(format!("new={} try_from(&str)={} try_from(String)={} for {} bytes", a, b, c, nbytes)); }
            if let Ok(cs) = CharacterString::try_from(st) {
                let mut p = Packet::new_reply(1);
                p.answers.push(ResourceRecord::new(Name::new_unchecked("h.example"), CLASS::IN, 1, RData::HINFO(HINFO { cpu: cs.clone(), os: cs })));
                if let Ok(bytes) = p.build_bytes_vec() { if ref_walk(&bytes).is_none() || Packet::parse(&bytes).is_err() { bad.push("an accepted string is not written as a well-framed record".into()); } }
            }
            bad
        }));
        match res { Err(_) => r.fail("C10 panic while constructing a character-string", input.clone(), String::new()), Ok(bad) => for d in bad { r.fail("C10 character-string accepted / refused by something other than its byte length (255)", input.clone(), d); } }
    }
}

fn main() {
    let args: Vec<String> = std::env::args().collect();
    let which: Vec<&str> = if args.len() > 1 { args[1].split(',').collect() } else { vec!["name_text", "roundtrip", "malformed", "observers", "txt"] };
    std::panic::set_hook(Box::new(|_| {}));
    for w in which {
        let current = Arc::new(Mutex::new(String::new()));
        let cur2 = current.clone();
        let w2 = w.to_string();
        let (tx, rx) = std::sync::mpsc::channel();
        std::thread::Builder::new().stack_size(64 << 20).spawn(move || {
            let mut r = match w2.as_str() {
                "name_text" => Report::new("name_text", "all strings of <= 5 symbols over {a,A,1,-,_,.,\\,e-acute}; label lengths 0..=70; names around 255 bytes; all name pairs of <= 3 labels over {a,b}"),
                "roundtrip" => Report::new("roundtrip", "210 generated packets (every constructible record kind x 5 name combinations with shared suffixes, EDNS on every 4th) + 6 messages straddling offset 16384"),
                "malformed" => Report::new("malformed", "every truncation, +-1 and 4 fixed values at every byte of ~45 generated messages (< 600 bytes) and 18 hand-made pointer graphs"),
                "observers" => Report::new("observers", "20 hostile byte strings as label and as TXT string"),
                "fuzz" => Report::new("fuzz", "VX_FUZZ_N (default 200000) random variants, seeded by VERIF_SEED, of the base messages of `malformed`: 1-4 mutations each (byte, bit, truncate, insert, planted pointer, spliced fragment, header count)"),
                _ => Report::new("txt", "text lengths 0,1,253..256,300,508,509,600; character-string construction for 10 ASCII / 2-, 3-, 4-byte UTF-8 strings around 255 bytes"),
            };
            match w2.as_str() { "name_text" => suite_name_text(&mut r), "roundtrip" => suite_roundtrip(&mut r), "malformed" => suite_malformed(&mut r, &cur2), "fuzz" => suite_fuzz(&mut r, &cur2), "observers" => suite_observers(&mut r), _ => suite_txt(&mut r) }
            let _ = tx.send(r);
        }).unwrap();
        match rx.recv_timeout(std::time::Duration::from_secs(240)) {
            Ok(r) => r.print(),
            Err(_) => println!("{{\"suite\":{},\"bound\":\"\",\"cases\":0,\"failures\":[{{\"check\":\"C01 hang (no result within 240 s)\",\"input\":{},\"detail\":\"\"}}]}}", jstr(w), jstr(&current.lock().unwrap())),
        }
    }
}
