// D15 demonstration (public API only): place at simple-dns/tests/d15_demo.rs and run `cargo test -p simple-dns --test d15_demo`.
// The test FAILS on the pinned code: compressed output written at a non-zero stream offset differs from
// build_bytes_vec_compressed and does not parse back to the packet.
use simple_dns::{rdata::*, Name, Packet, Question, ResourceRecord, CLASS, QCLASS, QTYPE, TYPE};
use std::io::{Cursor, Seek, SeekFrom};

#[test]
fn compressed_writer_at_nonzero_offset() {
    let mut p = Packet::new_query(7);
    p.questions.push(Question::new(Name::new_unchecked("example.com"), QTYPE::TYPE(TYPE::A), QCLASS::CLASS(CLASS::IN), false));
    p.answers.push(ResourceRecord::new(Name::new_unchecked("example.com"), CLASS::IN, 5, RData::A(A { address: 0x01020304 })));
    p.answers.push(ResourceRecord::new(Name::new_unchecked("www.example.com"), CLASS::IN, 5, RData::A(A { address: 0x01020305 })));
    let reference = p.build_bytes_vec_compressed().unwrap();

    let mut out = Cursor::new(vec![0xAAu8, 0xBB]);
    out.seek(SeekFrom::Start(2)).unwrap();
    p.write_compressed_to(&mut out).unwrap();
    let bytes = out.into_inner();
    assert_eq!(&bytes[2..], &reference[..], "bytes written at offset 2 differ from the vector-returning entry point");
}
