// RDLENGTH / section counts are 16-bit fields: content that does not fit must be refused, not truncated
use simple_dns::{rdata::*, CharacterString, Name, Packet, ResourceRecord, CLASS};

#[test]
fn oversized_rdata_is_refused_not_truncated() {
    let chunk = [b'x'; 255];
    let mut txt = TXT::new();
    for _ in 0..300 { txt.add_char_string(CharacterString::new(&chunk).unwrap()); }   // 300 * 256 = 76800 bytes of RDATA
    let mut p = Packet::new_reply(1);
    p.answers.push(ResourceRecord::new(Name::new_unchecked("a.b"), CLASS::IN, 1, RData::TXT(txt)));
    for bytes in [p.build_bytes_vec(), p.build_bytes_vec_compressed()] {
        match bytes {
            Err(_) => {}
            Ok(b) => {
                // header 12, name 5, type/class/ttl 8, then RDLENGTH
                let rdlength = u16::from_be_bytes([b[25], b[26]]) as usize;
                assert_eq!(rdlength, b.len() - 27, "RDLENGTH {} but {} RDATA bytes follow", rdlength, b.len() - 27);
            }
        }
    }
}
