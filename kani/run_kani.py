#!/usr/bin/env python3
"""Kani runner: scratch copy of /repo/simple-dns + harness module, one `cargo kani` per harness (parallel),
wall-clock limit and RSS watchdog per harness; a failing harness is re-run with concrete playback to extract
the counterexample bytes."""
import os, sys, re, json, time, shutil, subprocess, tempfile, threading, signal
from concurrent.futures import ThreadPoolExecutor

HERE = os.path.dirname(os.path.abspath(__file__))
VERIF = os.path.dirname(HERE)
sys.path.insert(0, HERE)
import gen_harness

REPO = os.environ.get('VERIF_REPO', '/repo')

def prepare(scratch):
    dst = os.path.join(scratch, 'ksimple-dns')
    shutil.rmtree(dst, ignore_errors=True)
    shutil.copytree(os.path.join(REPO, 'simple-dns'), dst, ignore=shutil.ignore_patterns('target', 'benches'))
    shutil.copy(os.path.join(REPO, 'Cargo.lock'), os.path.join(dst, 'Cargo.lock'))
    ct = open(os.path.join(dst, 'Cargo.toml')).read()
    # drop the bench target and dev-dependencies (not needed, criterion is slow to resolve)
    ct = re.sub(r'\[\[bench\]\][^\[]*', '', ct)
    ct = re.sub(r'\[dev-dependencies\][^\[]*', '', ct)
    ct += '\n[workspace]\n\n[lints.rust]\nunexpected_cfgs = { level = "allow", check-cfg = [\'cfg(kani)\'] }\n'
    open(os.path.join(dst, 'Cargo.toml'), 'w').write(ct)
    os.makedirs(os.path.join(dst, '.cargo'), exist_ok=True)
    open(os.path.join(dst, '.cargo', 'config.toml'), 'w').write('[net]\noffline = true\n')
    modrs = os.path.join(dst, 'src', 'dns', 'mod.rs')
    s = open(modrs).read()
    s += '\n#[cfg(kani)]\nmod vx_kani;\n'
    open(modrs, 'w').write(s)
    open(os.path.join(dst, 'src', 'dns', 'vx_kani.rs'), 'w').write(gen_harness.emit())
    return dst

def rss_kb(pid):
    """resident set of pid and all descendants (kB)"""
    tot = 0
    try:
        out = subprocess.run(['ps', '-eo', 'pid,ppid,rss'], capture_output=True, text=True).stdout.split('\n')[1:]
    except Exception:
        return 0
    kids = {}
    rss = {}
    for l in out:
        p = l.split()
        if len(p) == 3:
            kids.setdefault(int(p[1]), []).append(int(p[0]))
            rss[int(p[0])] = int(p[2])
    stack = [pid]
    while stack:
        x = stack.pop()
        tot += rss.get(x, 0)
        stack += kids.get(x, [])
    return tot

def run_one(dst, harness, timeout, rss_limit_kb, extra=()):
    env = dict(os.environ, CARGO_NET_OFFLINE='true', CARGO_TARGET_DIR=os.path.join(os.path.dirname(dst), 'ktarget'))
    cmd = ['cargo', 'kani', '--harness', harness, '--default-unwind', '2'] + list(extra)
    t0 = time.time()
    p = subprocess.Popen(cmd, cwd=dst, env=env, stdout=subprocess.PIPE, stderr=subprocess.STDOUT, text=True,
                         start_new_session=True)
    out = []
    status = {'v': None}

    def reader():
        for line in p.stdout:
            out.append(line)
    th = threading.Thread(target=reader, daemon=True)
    th.start()
    while p.poll() is None:
        time.sleep(1.0)
        if time.time() - t0 > timeout:
            status['v'] = 'timeout'
        elif rss_kb(p.pid) > rss_limit_kb:
            status['v'] = 'memory'
        if status['v']:
            try:
                os.killpg(p.pid, signal.SIGKILL)
            except Exception:
                pass
            break
    p.wait()
    th.join(timeout=5)
    text = ''.join(out)
    res = {'harness': harness, 'wall_s': round(time.time() - t0, 2), 'cmd': ' '.join(cmd), 'output_tail': text[-6000:]}
    if status['v']:
        res['status'] = status['v']
        return res
    m = re.search(r'VERIFICATION:- (SUCCESSFUL|FAILED)', text)
    if not m:
        res['status'] = 'error'
        return res
    res['status'] = 'ok' if m.group(1) == 'SUCCESSFUL' else 'failed'
    m2 = re.search(r'\*\* (\d+) of (\d+) failed', text)
    if m2:
        res['checks'] = int(m2.group(2))
        res['checks_failed'] = int(m2.group(1))
    m3 = re.findall(r'Verification Time: ([0-9.]+)s', text)
    if m3:
        res['cbmc_s'] = float(m3[-1])
    res['failed_checks'] = re.findall(r'Failed Checks: (.*)', text)
    cov = re.findall(r'Status: (SATISFIED|UNSATISFIABLE|UNREACHABLE)\s*\n\s*Description: "cover', text)
    m4 = re.search(r'\*\* (\d+) of (\d+) cover properties satisfied', text)
    if m4:
        res['covers'] = int(m4.group(2))
        res['covers_satisfied'] = int(m4.group(1))
    return res

def playback(dst, harness, timeout=600):
    """re-run a failing harness with concrete playback and return the printed unit test (concrete values)"""
    r = run_one(dst, harness, timeout, 16 * 1024 * 1024, extra=['-Z', 'concrete-playback', '--concrete-playback=print'])
    txt = r.get('output_tail', '')
    m = re.search(r'Concrete playback unit test for `[^`]*`:\s*```\s*(.*?)```', txt, flags=re.S)
    return m.group(1) if m else None

def run(scratch, harnesses, timeout=300, jobs=8, rss_limit_gb=16):
    t0 = time.time()
    dst = prepare(scratch)
    # first harness alone: it also compiles the crate, the rest reuse the build
    results = []
    if not harnesses:
        return {'results': [], 'wall_s': 0.0, 'dst': dst}
    results.append(run_one(dst, harnesses[0], timeout + 300, rss_limit_gb * 1024 * 1024))
    if results[0]['status'] == 'error':
        return {'results': results, 'wall_s': time.time() - t0, 'dst': dst, 'build_error': True}
    with ThreadPoolExecutor(max_workers=jobs) as ex:
        futs = [ex.submit(run_one, dst, h, timeout, rss_limit_gb * 1024 * 1024) for h in harnesses[1:]]
        for f in futs:
            results.append(f.result())
    return {'results': results, 'wall_s': time.time() - t0, 'dst': dst}

if __name__ == '__main__':
    import argparse
    ap = argparse.ArgumentParser()
    ap.add_argument('harness', nargs='*')
    ap.add_argument('--scratch', default='/tmp/vx/kdev')
    ap.add_argument('--timeout', type=int, default=300)
    ap.add_argument('--all', action='store_true')
    a = ap.parse_args()
    hs = a.harness
    if a.all:
        hs = re.findall(r'#\[kani::proof\]\s*(?:#\[kani::unwind\(\d+\)\]\s*)?fn (\w+)', gen_harness.emit())
    os.makedirs(a.scratch, exist_ok=True)
    r = run(a.scratch, hs, a.timeout)
    for x in r['results']:
        print('%-32s %-8s %6.1fs checks=%s failed=%s %s' % (x['harness'], x['status'], x['wall_s'], x.get('checks'), x.get('checks_failed'), x.get('failed_checks', '')))
        if x['status'] in ('error',):
            print(x['output_tail'][-3000:])
    print('total %.1fs' % r['wall_s'])
