// /verif/kani/harness.rs -- Kani harnesses, appended to a scratch copy of the real crate as src/dns/vx_kani.rs
// (`#[cfg(kani)] mod vx_kani;` at the end of src/dns/mod.rs).  Loop-free harnesses over full domains are complete
// proofs; harnesses that need #[kani::unwind(n)] over a length-limited input are labelled BOUNDED.
#![allow(unused_imports, dead_code)]
use super::*;
use super::header::Header;
use super::rdata::{RData, NULL, OPT, OPTCode};
use std::convert::TryFrom;

// ---------------------------------------------------------------- reference: RFC 1035 4.1.1 header layout
//   0  1  2  3  4  5  6  7  8  9  A  B  C  D  E  F
// |QR|   Opcode  |AA|TC|RD|RA| Z|AD|CD|   RCODE   |
const QR: u16 = 0x8000; const AA: u16 = 0x0400; const TC: u16 = 0x0200; const RD: u16 = 0x0100;
const RA: u16 = 0x0080; const Z: u16 = 0x0040; const AD: u16 = 0x0020; const CD: u16 = 0x0010;
const FLAG_BITS: u16 = QR | AA | TC | RD | RA | AD | CD;
fn ref_opcode(flags: u16) -> u16 { (flags >> 11) & 0xF }
fn ref_rcode(flags: u16) -> u16 { flags & 0xF }
fn be(a: u8, b: u8) -> u16 { (a as u16) * 256 + b as u16 }

fn any_named_rcode() -> RCODE {
    let v: u16 = kani::any();
    kani::assume(v <= 10 || v == 16);
    RCODE::from(v)
}
fn any_named_opcode() -> OPCODE {
    let v: u16 = kani::any();
    kani::assume(v <= 2 || v == 4 || v == 5);
    OPCODE::from(v)
}
fn any_flags() -> PacketFlag { PacketFlag::from_bits_truncate(kani::any()) }

// ================================================================ C01: header peek / Header::parse never panic
#[kani::proof]
#[kani::unwind(2)]
fn header_peek_short_buffers() {
    let buf: [u8; 13] = kani::any();
    let n: usize = kani::any();
    kani::assume(n <= 13);
    let b = &buf[..n];
    let flags = any_flags();
    // totality: every call returns (a panic fails the harness); errors exactly when the field is not there
    assert!(header_buffer::id(b).is_ok() == (n >= 2));
    assert!(header_buffer::questions(b).is_ok() == (n >= 6));
    assert!(header_buffer::answers(b).is_ok() == (n >= 8));
    assert!(header_buffer::name_servers(b).is_ok() == (n >= 10));
    assert!(header_buffer::additional_records(b).is_ok() == (n >= 12));
    assert!(header_buffer::has_flags(b, flags).is_ok() == (n >= 4));
    assert!(header_buffer::rcode(b).is_ok() == (n >= 4));
    assert!(header_buffer::opcode(b).is_ok() == (n >= 4));
    kani::cover!(n == 0);
    kani::cover!(n == 13);
}

#[kani::proof]
#[kani::unwind(2)]
fn header_parse_total() {
    let buf: [u8; 13] = kani::any();
    let n: usize = kani::any();
    kani::assume(n <= 13);
    let r = Header::parse(&buf[..n]);
    if n < 12 { assert!(r.is_err()); }
    kani::cover!(r.is_ok());
}

// ================================================================ C08: header bits per RFC 1035 4.1.1
#[kani::proof]
#[kani::unwind(2)]
fn header_parse_layout() {
    let buf: [u8; 12] = kani::any();
    let flags = be(buf[2], buf[3]);
    match Header::parse(&buf) {
        Ok(h) => {
            assert!(flags & Z == 0);
            assert!(h.id == be(buf[0], buf[1]));
            assert!(h.has_flags(PacketFlag::RESPONSE) == (flags & QR != 0));
            assert!(h.has_flags(PacketFlag::AUTHORITATIVE_ANSWER) == (flags & AA != 0));
            assert!(h.has_flags(PacketFlag::TRUNCATION) == (flags & TC != 0));
            assert!(h.has_flags(PacketFlag::RECURSION_DESIRED) == (flags & RD != 0));
            assert!(h.has_flags(PacketFlag::RECURSION_AVAILABLE) == (flags & RA != 0));
            assert!(h.has_flags(PacketFlag::AUTHENTIC_DATA) == (flags & AD != 0));
            assert!(h.has_flags(PacketFlag::CHECKING_DISABLED) == (flags & CD != 0));
            assert!(h.z_flags.bits() == flags & FLAG_BITS);
            assert!(h.opcode == OPCODE::from(ref_opcode(flags)));
            assert!(h.response_code == RCODE::from(ref_rcode(flags)));
            assert!(h.opt.is_none());
        }
        Err(_) => assert!(flags & Z != 0),
    }
    kani::cover!(flags & Z != 0);
    kani::cover!(flags & Z == 0);
}

#[kani::proof]
#[kani::unwind(2)]
fn header_peek_layout() {
    let buf: [u8; 12] = kani::any();
    let flags = be(buf[2], buf[3]);
    let f = any_flags();
    assert!(header_buffer::id(&buf).unwrap() == be(buf[0], buf[1]));
    assert!(header_buffer::questions(&buf).unwrap() == be(buf[4], buf[5]));
    assert!(header_buffer::answers(&buf).unwrap() == be(buf[6], buf[7]));
    assert!(header_buffer::name_servers(&buf).unwrap() == be(buf[8], buf[9]));
    assert!(header_buffer::additional_records(&buf).unwrap() == be(buf[10], buf[11]));
    assert!(header_buffer::has_flags(&buf, f).unwrap() == (flags & f.bits() == f.bits()));
    assert!(header_buffer::rcode(&buf).unwrap() == RCODE::from(ref_rcode(flags)));
    assert!(header_buffer::opcode(&buf).unwrap() == OPCODE::from(ref_opcode(flags)));
}

#[kani::proof]
#[kani::unwind(14)]
fn header_write_layout() {
    let id: u16 = kani::any();
    let mut h = Header::new_query(id);
    h.opcode = any_named_opcode();
    h.response_code = any_named_rcode();
    let bits: u16 = kani::any();
    h.z_flags = PacketFlag::from_bits_truncate(bits);
    let (q, a, n, r): (u16, u16, u16, u16) = (kani::any(), kani::any(), kani::any(), kani::any());
    let mut out = [0u8; 12];
    let mut w: &mut [u8] = &mut out[..];
    h.write_to(&mut w, q, a, n, r).unwrap();
    assert!(w.len() == 0);   // exactly 12 bytes were written
    let flags = be(out[2], out[3]);
    assert!(be(out[0], out[1]) == id);
    assert!(flags & FLAG_BITS == bits & FLAG_BITS);
    assert!(ref_opcode(flags) == h.opcode as u16);
    assert!(ref_rcode(flags) == (h.response_code as u16) & 0xF);
    assert!(flags & Z == 0);
    assert!(be(out[4], out[5]) == q && be(out[6], out[7]) == a && be(out[8], out[9]) == n && be(out[10], out[11]) == r);
    // and it parses back to the same header fields
    let h2 = Header::parse(&out).unwrap();
    assert!(h2.id == id && h2.opcode == h.opcode && h2.z_flags == h.z_flags);
    assert!(h2.response_code as u16 == (h.response_code as u16) & 0xF || h.response_code == RCODE::BADVERS);
}

#[kani::proof]
#[kani::unwind(2)]
fn header_flags_algebra() {
    let mut h = Header::new_query(kani::any());
    h.opcode = any_named_opcode();
    h.response_code = any_named_rcode();
    let a = any_flags();
    let b = any_flags();
    h.z_flags = a;
    let (id, op, rc) = (h.id, h.opcode, h.response_code);
    h.set_flags(b);
    assert!(h.z_flags.bits() == a.bits() | b.bits());
    assert!(h.has_flags(b));
    assert!(h.id == id && h.opcode == op && h.response_code == rc);
    h.z_flags = a;
    h.remove_flags(b);
    assert!(h.z_flags.bits() == a.bits() & !b.bits());
    assert!(h.id == id && h.opcode == op && h.response_code == rc);
    h.z_flags = a;
    assert!(h.has_flags(b) == (a.bits() & b.bits() == b.bits()));
    assert!(a.bits() & !FLAG_BITS == 0);
}

// ================================================================ C18: code tables
#[kani::proof]
fn type_table_all_codes() {
    let v: u16 = kani::any();
    let t = TYPE::from(v);
    assert!(u16::from(t) == v);
    let ok = match v {
/*@IANA_ARMS@*/
            _ => matches!(t, TYPE::Unknown(x) if x == v),
    };
    assert!(ok);
}

#[kani::proof]
fn type_mnemonics() {
/*@IANA_MNEMONICS@*/
    let x: u16 = kani::any();
    assert!(u16::from(TYPE::Unknown(x)) == x);
}

#[kani::proof]
fn class_table_all_codes() {
    let v: u16 = kani::any();
    match CLASS::try_from(v) {
        Ok(c) => {
            assert!(c as u16 == v);
            assert!(v == 1 || v == 2 || v == 3 || v == 4 || v == 254);
            assert!((v == 1) == (c == CLASS::IN) && (v == 2) == (c == CLASS::CS) && (v == 3) == (c == CLASS::CH)
                && (v == 4) == (c == CLASS::HS) && (v == 254) == (c == CLASS::NONE));
        }
        Err(e) => {
            assert!(!(v == 1 || v == 2 || v == 3 || v == 4 || v == 254));
            assert!(matches!(e, crate::SimpleDnsError::InvalidClass(x) if x == v));
        }
    }
}

#[kani::proof]
fn qclass_table_all_codes() {
    let v: u16 = kani::any();
    match QCLASS::try_from(v) {
        Ok(q) => {
            assert!(u16::from(q) == v);
            assert!((v == 255) == (q == QCLASS::ANY));
            if v != 255 { assert!(q == QCLASS::CLASS(CLASS::try_from(v).unwrap())); assert!(q == QCLASS::from(CLASS::try_from(v).unwrap())); }
        }
        Err(_) => assert!(v != 255 && CLASS::try_from(v).is_err()),
    }
}

#[kani::proof]
fn qtype_table_all_codes() {
    let v: u16 = kani::any();
    match QTYPE::try_from(v) {
        Ok(q) => {
            assert!(u16::from(q) == v);
            assert!((v == 251) == (q == QTYPE::IXFR) && (v == 252) == (q == QTYPE::AXFR) && (v == 253) == (q == QTYPE::MAILB)
                && (v == 254) == (q == QTYPE::MAILA) && (v == 255) == (q == QTYPE::ANY));
            if !(251..=255).contains(&v) {
                assert!(q == QTYPE::TYPE(TYPE::from(v)));
                assert!(q == QTYPE::from(TYPE::from(v)));
                assert!(!matches!(TYPE::from(v), TYPE::Unknown(_)));
            }
        }
        Err(e) => {
            assert!(!(251..=255).contains(&v));
            assert!(matches!(TYPE::from(v), TYPE::Unknown(_)));
            assert!(matches!(e, crate::SimpleDnsError::InvalidQType(x) if x == v));
        }
    }
}

fn any_class() -> CLASS {
    let v: u16 = kani::any();
    match CLASS::try_from(v) { Ok(c) => c, Err(_) => { kani::assume(false); CLASS::IN } }
}

#[kani::proof]
#[kani::unwind(2)]
fn match_qclass_matrix() {
    let class = any_class();
    let rr = ResourceRecord::new(Name::new_with_labels(&[]), class, 0, RData::Empty(TYPE::A));
    let qv: u16 = kani::any();
    if let Ok(q) = QCLASS::try_from(qv) {
        let want = qv == 255 || qv == class as u16;
        assert!(rr.match_qclass(q) == want);
    }
}

#[kani::proof]
#[kani::unwind(2)]
fn match_qtype_matrix() {
    let t: u16 = kani::any();
    let built: bool = kani::any();
    // a record whose type code is t: either an empty-RDATA record of that type or an opaque (NULL / unknown) one
    let rdata = if built { RData::Empty(TYPE::from(t)) } else { RData::NULL(t, NULL::new(&[]).unwrap()) };
    let rr = ResourceRecord::new(Name::new_with_labels(&[]), CLASS::IN, 0, rdata);
    // the type reported for a record is the one its type code denotes
    assert!(rr.rdata.type_code() == TYPE::from(t));
    assert!(u16::from(rr.rdata.type_code()) == t);
    let qv: u16 = kani::any();
    if let Ok(q) = QTYPE::try_from(qv) {
        let got = rr.match_qtype(q);
        if qv == 255 { assert!(got); }
        else if qv == 253 { assert!(got == (t == 7 || t == 8 || t == 9)); }     // MAILB = MB, MG, MR
        else if !(251..=255).contains(&qv) { assert!(got == (qv == t)); }          // own type only
        // MAILA / AXFR / IXFR are not constrained by the property
    }
}

// ================================================================ C09: EDNS TTL layout (RFC 6891 6.1.3)
#[kani::proof]
#[kani::unwind(2)]
fn opt_ttl_layout() {
    let mut h = Header::new_query(kani::any());
    h.response_code = any_named_rcode();
    let version: u8 = kani::any();
    let opt = OPT { opt_codes: Vec::new(), udp_packet_size: kani::any(), version };
    let ttl = opt.encode_ttl(&h);
    let code = h.response_code as u32;
    assert!(ttl >> 24 == code >> 4);                 // EXTENDED-RCODE: bits 24..31 = upper 8 bits of the 12-bit rcode
    assert!((ttl >> 16) & 0xff == version as u32);   // VERSION: bits 16..23
    assert!(ttl & 0xffff == 0);                      // flags: none are modelled by the crate
    // parse side: recombination of the 12-bit code from header nibble + OPT byte
    let mut h2 = Header::new_query(0);
    h2.response_code = RCODE::from(code as u16 & 0xF);
    let back = OPT::extract_rcode_from_ttl(ttl, &h2);
    assert!(back == h.response_code);
}

#[kani::proof]
#[kani::unwind(2)]
fn opt_ttl_parse_side() {
    // a peer's TTL word: ext-rcode e, version v, flags f; header nibble lo in 0..=10 (named)
    let e: u8 = kani::any(); let v: u8 = kani::any(); let f: u16 = kani::any();
    let lo: u16 = kani::any(); kani::assume(lo <= 10);
    let ttl = ((e as u32) << 24) | ((v as u32) << 16) | f as u32;
    let mut h = Header::new_query(0);
    h.response_code = RCODE::from(lo);
    let rc = OPT::extract_rcode_from_ttl(ttl, &h);
    assert!(rc == RCODE::from(((e as u16) << 4) | lo));
}

// the pseudo-record handed to the writers (Header::opt_rr): present iff EDNS data is set, root owner, class IN slot (the
// writer puts the payload size there), TTL word as laid out above, RDATA = the packet's OPT value.
// BOUNDED in the option list only (empty: the list is copied by the derived Clone); every other field symbolic.
#[kani::proof]
#[kani::unwind(2)]
fn opt_rr_shape() {
    let mut h = Header::new_query(kani::any());
    h.response_code = any_named_rcode();
    assert!(h.opt_rr().is_none());
    let version: u8 = kani::any();
    let size: u16 = kani::any();
    h.opt = Some(OPT { opt_codes: Vec::new(), udp_packet_size: size, version });
    let rr = h.opt_rr().unwrap();
    assert!(rr.name.get_labels().is_empty());
    assert!(rr.class == CLASS::IN);
    assert!(!rr.cache_flush);
    let code = h.response_code as u32;
    assert!(rr.ttl == ((code >> 4) << 24) | ((version as u32) << 16));
    match &rr.rdata {
        RData::OPT(o) => { assert!(o.udp_packet_size == size && o.version == version && o.opt_codes.is_empty()); }
        _ => panic!("not an OPT record"),
    }
}

// ================================================================ R1: the std facts behind the byte-order helpers of the Verus prelude
// (vx.rs: be_u16 / be_u32 / be_i32 / be_u128 / arr / vx_to_be_bytes / le_* are `external_body` there; these loop-free
// harnesses prove the same statements about std: big-endian value of a slice, Err exactly when the length differs)
fn nat_be(b: &[u8]) -> u128 { let mut v: u128 = 0; let mut i = 0; while i < b.len() { v = v * 256 + b[i] as u128; i += 1; } v }

#[kani::proof]
#[kani::unwind(6)]
fn r1_from_be_bytes_small() {
    use std::convert::TryInto;
    let a: [u8; 5] = kani::any();
    let n: usize = kani::any();
    kani::assume(n <= 5);
    let s = &a[..n];
    let r2: Result<[u8; 2], _> = s.try_into();
    assert!(r2.is_ok() == (n == 2));
    if let Ok(x) = r2 { assert!(u16::from_be_bytes(x) as u128 == nat_be(s)); assert!(u16::from_be_bytes(x) == be(s[0], s[1]));
                        assert!(u16::from_le_bytes(x) as u128 == nat_be(&[s[1], s[0]])); }
    let r4: Result<[u8; 4], _> = s.try_into();
    assert!(r4.is_ok() == (n == 4));
    if let Ok(x) = r4 { assert!(u32::from_be_bytes(x) as u128 == nat_be(s)); assert!(i32::from_be_bytes(x) as u32 as u128 == nat_be(s));
                        assert!(u32::from_le_bytes(x) as u128 == nat_be(&[s[3], s[2], s[1], s[0]])); }
    let r1: Result<[u8; 1], _> = s.try_into();
    assert!(r1.is_ok() == (n == 1));
    if let Ok(x) = r1 { assert!(u8::from_be_bytes(x) == s[0]); }
}

#[kani::proof]
#[kani::unwind(18)]
fn r1_from_be_bytes_wide() {
    use std::convert::TryInto;
    let a: [u8; 17] = kani::any();
    let n: usize = kani::any();
    kani::assume(n <= 17);
    let s = &a[..n];
    let r16: Result<[u8; 16], _> = s.try_into();
    assert!(r16.is_ok() == (n == 16));
    if let Ok(x) = r16 { assert!(u128::from_be_bytes(x) == nat_be(s)); let mut rev = x; rev.reverse(); assert!(u128::from_le_bytes(x) == nat_be(&rev)); }
    let r8: Result<[u8; 8], _> = s.try_into();
    assert!(r8.is_ok() == (n == 8));
    if let Ok(x) = r8 { assert!(u64::from_be_bytes(x) as u128 == nat_be(s)); }
}

#[kani::proof]
#[kani::unwind(18)]
fn r1_to_be_bytes() {
    let a: u16 = kani::any(); let b: u32 = kani::any(); let c: i32 = kani::any(); let d: u64 = kani::any(); let e: u128 = kani::any(); let f: u8 = kani::any();
    assert!(f.to_be_bytes() == [f]);
    assert!(nat_be(&a.to_be_bytes()) == a as u128 && a.to_be_bytes() == [(a >> 8) as u8, a as u8]);
    assert!(nat_be(&b.to_be_bytes()) == b as u128);
    assert!(nat_be(&c.to_be_bytes()) == c as u32 as u128);
    assert!(nat_be(&d.to_be_bytes()) == d as u128);
    assert!(nat_be(&e.to_be_bytes()) == e);
    let mut la = a.to_le_bytes(); la.reverse(); assert!(la == a.to_be_bytes());
    let mut lb = b.to_le_bytes(); lb.reverse(); assert!(lb == b.to_be_bytes());
    let mut lc = c.to_le_bytes(); lc.reverse(); assert!(lc == c.to_be_bytes());
    let mut ld = d.to_le_bytes(); ld.reverse(); assert!(ld == d.to_be_bytes());
    let mut le = e.to_le_bytes(); le.reverse(); assert!(le == e.to_be_bytes());
}

// ================================================================ C17: textual name API  (BOUNDED harnesses, bounds stated per harness)
fn alnum(c: u8) -> bool { (48..=57).contains(&c) || (65..=90).contains(&c) || (97..=122).contains(&c) }

// std fact assumed by the Verus prelude (vx.rs: assume_specification [u8::is_ascii_alphanumeric]): complete, all 256 values
#[kani::proof]
fn r17_is_ascii_alphanumeric_table() {
    let c: u8 = kani::any();
    let want = (48 <= c && c <= 57) || (65 <= c && c <= 90) || (97 <= c && c <= 122);
    assert!(c.is_ascii_alphanumeric() == want);
}

// label grammar, all byte strings of length 0..=65 (lengths > 63 take the loop-free early return): BOUNDED by length 65
#[kani::proof]
#[kani::unwind(67)]
fn label_grammar_le65() {
    const N: usize = 65;
    let buf: [u8; N] = kani::any();
    let n: usize = kani::any();
    kani::assume(n <= N);
    let d = &buf[..n];
    let got = Label::new(d).is_ok();
    // reference (property text): 1-63 chars, starts with letter/digit/underscore, continues with letters/digits/hyphens/
    // underscores, ends with letter or digit
    let mut want = n >= 1 && n <= 63;
    if want {
        want = (alnum(d[0]) || d[0] == b'_') && alnum(d[n - 1]);
        let mut i = 1;
        while i < n {
            if !(alnum(d[i]) || d[i] == b'-' || d[i] == b'_') { want = false; }
            i += 1;
        }
    }
    assert!(got == want);
}

// suffix algebra on fixed shapes: names of NA and NB one-byte labels with symbolic bytes: BOUNDED (NA, NB <= 3, 1-byte labels)
macro_rules! suffix_shape {
    ($h:ident, $na:expr, $nb:expr) => {
        #[kani::proof]
        #[kani::unwind(6)]
        fn $h() {
            const NA: usize = $na; const NB: usize = $nb;
            let ra: [u8; 3] = kani::any();
            let rb: [u8; 3] = kani::any();
            let sa = [[ra[0]], [ra[1]], [ra[2]]];
            let sb = [[rb[0]], [rb[1]], [rb[2]]];
            let la = [Label::new_unchecked(&sa[0][..]), Label::new_unchecked(&sa[1][..]), Label::new_unchecked(&sa[2][..])];
            let lb = [Label::new_unchecked(&sb[0][..]), Label::new_unchecked(&sb[1][..]), Label::new_unchecked(&sb[2][..])];
            let a = Name::new_with_labels(&la[..NA]);
            let b = Name::new_with_labels(&lb[..NB]);
            // reference: strictly longer and ends with the other's labels
            let mut want = NA > NB;
            let mut i = 0;
            while i < NB {
                if NA > NB && ra[NA - NB + i] != rb[i] { want = false; }
                i += 1;
            }
            assert!(a.is_subdomain_of(&b) == want);
            match a.without(&b) {
                Some(rest) => {
                    assert!(want);
                    let keep = NA.saturating_sub(NB);
                    assert!(rest.get_labels().len() == keep);
                    let mut k = 0;
                    while k < keep { assert!(rest.get_labels()[k] == la[k]); k += 1; }
                }
                None => assert!(!want),
            }
        }
    };
}
suffix_shape!(suffix_0_0, 0, 0); suffix_shape!(suffix_1_0, 1, 0); suffix_shape!(suffix_0_1, 0, 1); suffix_shape!(suffix_1_1, 1, 1);
suffix_shape!(suffix_2_1, 2, 1); suffix_shape!(suffix_1_2, 1, 2); suffix_shape!(suffix_2_2, 2, 2); suffix_shape!(suffix_3_1, 3, 1);
suffix_shape!(suffix_3_2, 3, 2); suffix_shape!(suffix_2_3, 2, 3); suffix_shape!(suffix_3_3, 3, 3); suffix_shape!(suffix_3_0, 3, 0);
suffix_shape!(suffix_2_0, 2, 0); suffix_shape!(suffix_0_2, 0, 2); suffix_shape!(suffix_0_3, 0, 3); suffix_shape!(suffix_1_3, 1, 3);

// link-local: last label of length 4, 5 or 6 with symbolic bytes, one label before it: BOUNDED by these shapes
macro_rules! link_local_shape {
    ($h:ident, $n:expr) => {
        #[kani::proof]
        #[kani::unwind(8)]
        fn $h() {
            const N: usize = $n;
            let last: [u8; N] = kani::any();
            let first: [u8; 1] = kani::any();
            let two: bool = kani::any();
            let ls = [Label::new_unchecked(&first[..]), Label::new_unchecked(&last[..])];
            let name = if two { Name::new_with_labels(&ls[..]) } else { Name::new_with_labels(&ls[1..]) };
            let mut want = N == 5;
            if want {
                let w = b"local";
                let mut i = 0;
                while i < 5 {
                    let c = if last[i] >= b'A' && last[i] <= b'Z' { last[i] + 32 } else { last[i] };
                    if c != w[i] { want = false; }
                    i += 1;
                }
            }
            assert!(name.is_link_local() == want);
        }
    };
}
link_local_shape!(link_local_4, 4); link_local_shape!(link_local_5, 5); link_local_shape!(link_local_6, 6);

#[kani::proof]
#[kani::unwind(2)]
fn link_local_root() {
    let name = Name::new_with_labels(&[]);
    assert!(!name.is_link_local());
}

// ================================================================ C11: a parsed header survives re-serialisation
#[kani::proof]
#[kani::unwind(14)]
fn header_reserialise_named() {
    let buf: [u8; 12] = kani::any();
    let fl = be(buf[2], buf[3]);
    let (op, rc) = (ref_opcode(fl), ref_rcode(fl));
    kani::assume(!(op == 3 || op >= 6 || rc >= 11));      // named opcodes / rcodes
    if let Ok(h) = Header::parse(&buf) {
        let mut out = [0u8; 12];
        let mut w: &mut [u8] = &mut out[..];
        h.write_to(&mut w, be(buf[4], buf[5]), be(buf[6], buf[7]), be(buf[8], buf[9]), be(buf[10], buf[11])).unwrap();
        assert!(out == buf);
    }
}

// D11 (known finding): reserved opcodes / rcodes are collapsed into one `Reserved` variant and written back as 6 / 1
#[kani::proof]
#[kani::unwind(14)]
fn header_reserialise_reserved() {
    let buf: [u8; 12] = kani::any();
    let fl = be(buf[2], buf[3]);
    let (op, rc) = (ref_opcode(fl), ref_rcode(fl));
    kani::assume(op == 3 || op >= 6 || rc >= 11);
    if let Ok(h) = Header::parse(&buf) {
        let mut out = [0u8; 12];
        let mut w: &mut [u8] = &mut out[..];
        h.write_to(&mut w, be(buf[4], buf[5]), be(buf[6], buf[7]), be(buf[8], buf[9]), be(buf[10], buf[11])).unwrap();
        assert!(out == buf);
    }
}
