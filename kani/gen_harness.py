#!/usr/bin/env python3
"""Emit src/dns/vx_kani.rs for the scratch copy: the hand-written harnesses of harness.rs plus the tables generated
from contracts/schema.py (IANA codes)."""
import os, sys
HERE = os.path.dirname(os.path.abspath(__file__))
sys.path.insert(0, os.path.join(HERE, '..', 'contracts'))
from schema import IANA

def table():
    arms = '\n'.join('            %d => matches!(t, TYPE::%s),' % (c, n) for n, c in sorted(IANA.items(), key=lambda kv: kv[1]))
    mn = '\n'.join('        assert!(u16::from(TYPE::%s) == %d);' % (n, c) for n, c in sorted(IANA.items(), key=lambda kv: kv[1]))
    return arms, mn

def emit():
    src = open(os.path.join(HERE, 'harness.rs')).read()
    arms, mn = table()
    return src.replace('/*@IANA_ARMS@*/', arms).replace('/*@IANA_MNEMONICS@*/', mn)

if __name__ == '__main__':
    print(emit())
