#!/usr/bin/env python3
"""Writes MANIFEST.json from vx/props.py (claimed checks) + the not-applicable table below."""
import json, os, sys, subprocess
VERIF = os.path.dirname(os.path.abspath(__file__))
sys.path.insert(0, os.path.join(VERIF, 'vx'))
import props as P

NOT_APPLICABLE = {
    'C13': "mDNS reply construction lives in iterator chains over HashSet/radix_trie (filter/flatten/cloned/extend, external trie) and to_string-based keys: no Verus specs exist or can be added (orphan rule) and Kani does not terminate on the formatting machinery; the type/class filter and the subdomain test it relies on are decided under C18/C17",
    'C14': "receive loops run on threads over sockets with an RwLock-guarded store: Kani has no threads/sockets, Verus would need permission types the code does not use; the pure parsing/peeking part is C01, the fmt root of the lock-poisoning panic is C12",
    'C15': "a property over histories of announcements crossing the wire through HashSet/HashMap conversions and from_records iterator code in simple-mdns: no single-call contract expresses it and the code is outside both tools (see C13)",
    'C19': "TXT conversions are built on chunks/split/splitn/fold closures and HashMap<String,_>: no vstd specifications are available or addable, and bounded Kani harnesses did not terminate within 600-900 s even on 3-4 byte inputs (DESIGN.md 4); the 255-byte construction rule is decided under C10",
    'C20': "temporal property over histories with a real clock (Instant::now is FFI; no clock model in Verus, unsupported in Kani) and interleavings of time advances and operations",
}
NOT_BUILT = "not built yet: the contracts for this property are still under construction (see DESIGN.md 6, build order)"

def main():
    props = [json.loads(l) for l in open(os.path.join(VERIF, 'properties.jsonl'))]
    checks = []
    na = []
    for p in props:
        pid = p['id']
        if pid in P.PROPS:
            sp = P.PROPS[pid]
            checks.append({
                'property_id': pid,
                'quick_cmd': './check %s quick' % pid,
                'thorough_cmd': './check %s thorough' % pid,
                'evidence_file': '/verif/evidence/%s.json' % pid,
                'replay_cmd_template': './check --replay {path}',
                'engine': '+'.join((['verus'] if sp.get('verus') else []) + (['kani'] if sp.get('kani') or sp.get('kani_thorough') else [])),
                'level_claimed': {'category': sp.get('level', 'proof'), 'text': sp['text'], 'design_ref': 'DESIGN.md section 4, ' + pid},
                'level_note': sp['note'],
                'technique': sp['technique'],
            })
        else:
            na.append({'property_id': pid, 'reason': NOT_APPLICABLE.get(pid, NOT_BUILT)})
    m = {
        'version': 1,
        'setup_cmd': './setup.sh',
        'hooks': {'guard': 'simple_dns_verif',
                  'enable': 'no hooks: contracts are spliced into a scratch copy of /repo/simple-dns on every run (DESIGN.md 2.2); Kani harnesses are appended to a second scratch copy under #[cfg(kani)]',
                  'baseline_off_cmd': 'cd /repo && (cargo nextest run --workspace --no-fail-fast --offline || cargo test --workspace --no-fail-fast --offline)',
                  'source_commits': [], 'add_only': True},
        'engines': [
            {'name': 'verus', 'path': '/verif/vx', 'serves_properties': [k for k, v in P.PROPS.items() if v.get('verus')],
             'kind_free_text': 'Verus 0.2026.09.13 on the whole real crate, annotated in situ on a scratch copy (contracts in /verif/contracts)'},
            {'name': 'kani', 'path': '/verif/kani', 'serves_properties': [k for k, v in P.PROPS.items() if v.get('kani') or v.get('kani_thorough')],
             'kind_free_text': 'Kani 0.68 / CBMC 6.11 harnesses over full domains (loop-free = complete) appended to a scratch copy of the real crate'},
        ],
        'checks': checks,
        'not_applicable': na,
        'notes': 'fix: commits made in /repo are listed in /verif/known_findings.txt as fixed: lines; every check exits 2 (undecided, no VIOLATION line) on lost anchors / unsupported constructs / resource limits',
    }
    json.dump(m, open(os.path.join(VERIF, 'MANIFEST.json'), 'w'), indent=1)

if __name__ == '__main__':
    main()
