"""Hand-written ghost definitions for the RDATA types with loops, unions or odd widths
(TXT, OPT, SVCB, NSEC, IPSECKEY, NSAP, NULL)."""
import re
from xf import AnchorLost
from typed import wrap_type, list_fns, impl_header

WEAK = """    open spec fn wf_ok(&self) -> bool { true }
    closed spec fn wf_enc(&self) -> Seq<u8> { arbitrary() }
    open spec fn wf_dec(data: Seq<u8>, p: int, v: &Self, p2: int) -> bool { true }
    open spec fn wf_cdec(data: Seq<u8>, p: int, v: &Self, p2: int) -> bool { true }
    open spec fn wf_canon(&self) -> bool { true }
    open spec fn wf_in_rdata() -> bool { true }
    open spec fn wf_nocomp() -> bool { false }
    open spec fn wf_eqv(&self, other: &Self) -> bool { true }
    proof fn lemma_det(data: Seq<u8>, p: int, v1: &Self, e1: int, v2: &Self, e2: int) {}
    open spec fn wf_fit(&self) -> bool { true }
    open spec fn wf_empty_ok() -> bool { false }
    proof fn lemma_dec_ok(data: Seq<u8>, p: int, v: &Self, p2: int) {}
    proof fn lemma_rt(&self, pre: Seq<u8>) {}
"""

LOOP_INV = """
            invariant *position <= data.len(), data.len() <= isize::MAX,
            decreases data.len() - *position,
"""

def apply(c):
    # ---- LOC: the parser re-slices `data`; relate the sub-slices to the original buffer
    c.ghost('dns/rdata/loc.rs', "impl<'a> WireFormat<'a> for LOC {", 'parse', "let data = &data[*position..*position + 16];",
            "        let ghost d0 = data@;\n        let ghost p0 = *position as int;", where='before')
    c.ghost('dns/rdata/loc.rs', "impl<'a> WireFormat<'a> for LOC {", 'parse', "Ok(LOC {", """
        proof {
            assert(data@ == d0.subrange(p0, p0 + 16));
            assert(data@.subrange(4, 8) =~= d0.subrange(p0 + 4, p0 + 8));
            assert(data@.subrange(8, 12) =~= d0.subrange(p0 + 8, p0 + 12));
            assert(data@.subrange(12, 16) =~= d0.subrange(p0 + 12, p0 + 16));
        }
""", where='before')
    # ---- SOA::write_common
    c.contract('dns/rdata/soa.rs', "impl<'a> SOA<'a> {", 'write_common', """
        ensures r is Ok ==> wrote(old(out), final(out), enc_be(self.serial as nat, 4) + enc_be(i32_bits(self.refresh), 4)
            + enc_be(i32_bits(self.retry), 4) + enc_be(i32_bits(self.expire), 4) + enc_be(self.minimum as nat, 4)), // @C10:encoded-per-rfc,C02:encoded-per-rfc,C04:emits-exactly-its-encoding
""")
    # ---- NULL
    rel = 'dns/rdata/null.rs'
    c.append(rel, """verus!{
impl<'a> NULL<'a> {
    pub closed spec fn dview(&self) -> Seq<u8> { self.data@ }
    pub closed spec fn lfield(&self) -> u16 { self.length }
}
}
""")
    wrap_type(c, rel, 'NULL', """    open spec fn wf_ok(&self) -> bool { self.lfield() as int == self.dview().len() }
    open spec fn wf_enc(&self) -> Seq<u8> { self.dview() }
    open spec fn wf_dec(data: Seq<u8>, p: int, v: &Self, p2: int) -> bool {
        p <= data.len() && v.dview() == data.subrange(p, data.len() as int) && p2 == data.len() && v.lfield() as int == v.dview().len()
    }
    open spec fn wf_cdec(data: Seq<u8>, p: int, v: &Self, p2: int) -> bool { Self::wf_dec(data, p, v, p2) }
    open spec fn wf_canon(&self) -> bool { true }
    open spec fn wf_in_rdata() -> bool { true }
    open spec fn wf_nocomp() -> bool { false }
    open spec fn wf_eqv(&self, other: &Self) -> bool { self.dview() == other.dview() && self.lfield() == other.lfield() }
    proof fn lemma_det(data: Seq<u8>, p: int, v1: &Self, e1: int, v2: &Self, e2: int) {}
    open spec fn wf_fit(&self) -> bool { true }
    open spec fn wf_empty_ok() -> bool { false }
    proof fn lemma_dec_ok(data: Seq<u8>, p: int, v: &Self, p2: int) {}
    proof fn lemma_rt(&self, pre: Seq<u8>) {
        let d = pre + self.wf_enc();
        assert(d.subrange(pre.len() as int, d.len() as int) =~= self.dview());
    }
""", verified_inherent=('new',), external_trait_fns=())
    c.contract(rel, "impl<'a> NULL<'a> {", 'new', """
        ensures data.len() <= 65535 ==> r is Ok && r.unwrap().dview() == data@ && r.unwrap().lfield() as int == data.len(),
                data.len() > 65535 ==> r is Err,
""")
    # ---- weak for now
    # ---- OPT (RFC 6891 6.1.2): CLASS slot = UDP payload size, TTL = ext-rcode | version | flags, RDATA = options
    rel = 'dns/rdata/opt.rs'
    c.append(rel, """verus!{
pub open spec fn opt_items(cs: Seq<OPTCode>) -> Seq<(u16, Seq<u8>)> { cs.map(|i: int, c: OPTCode| (c.code, c.data@)) }
/// the options fit an RDATA (RDLENGTH is 16 bits)
pub closed spec fn opt_fits(cs: Seq<OPTCode>) -> bool { tlv16_enc(opt_items(cs)).len() <= 65535 }
pub proof fn lemma_opt_fits(cs: Seq<OPTCode>)
    ensures opt_fits(cs) == (tlv16_enc(opt_items(cs)).len() <= 65535) {}
impl<'a> OPT<'a> {
    /// an OPT value within limits has an RDATA that fits RDLENGTH
    pub proof fn lemma_fits(&self) requires self.wf_ok() ensures self.wf_enc().len() <= 65535 {}
}
pub proof fn lemma_opt_items_push(cs: Seq<OPTCode>, c: OPTCode)
    ensures opt_items(cs.push(c)) == opt_items(cs).push((c.code, c.data@)),
            opt_items(cs.push(c)).drop_last() == opt_items(cs),
{
    assert(opt_items(cs.push(c)) =~= opt_items(cs).push((c.code, c.data@)));
    assert(opt_items(cs).push((c.code, c.data@)).drop_last() =~= opt_items(cs));
}
}
""")
    OPT_WF = impl_header(c, rel, 'OPT')
    wrap_type(c, rel, 'OPT', """    open spec fn wf_ok(&self) -> bool { tlv16_ok(opt_items(self.opt_codes@)) && opt_fits(self.opt_codes@) }
    open spec fn wf_enc(&self) -> Seq<u8> { tlv16_enc(opt_items(self.opt_codes@)) }
    /// `p` is the offset of the record's TYPE field (the OPT parser reads CLASS and TTL itself); data ends with the RDATA
    open spec fn wf_dec(data: Seq<u8>, p: int, v: &Self, p2: int) -> bool {
        &&& 0 <= p && p + 10 <= data.len()
        &&& v.udp_packet_size == be16(data[p + 2], data[p + 3])   // CLASS slot
        &&& v.version == data[p + 5]                                // TTL: ext-rcode(p+4) VERSION(p+5) flags(p+6..p+8)
        &&& tlv16(data, p + 10, opt_items(v.opt_codes@), data.len() as int)
        &&& p2 == data.len()
    }
    /// the options alone (write_to emits only the RDATA; class/ttl slots are written by the record)
    open spec fn wf_cdec(data: Seq<u8>, p: int, v: &Self, p2: int) -> bool {
        tlv16(data, p, opt_items(v.opt_codes@), data.len() as int) && p2 == data.len()
    }
    open spec fn wf_canon(&self) -> bool { true }
    open spec fn wf_in_rdata() -> bool { true }
    open spec fn wf_nocomp() -> bool { false }
    open spec fn wf_eqv(&self, other: &Self) -> bool {
        self.udp_packet_size == other.udp_packet_size && self.version == other.version && opt_items(self.opt_codes@) == opt_items(other.opt_codes@)
    }
    proof fn lemma_det(data: Seq<u8>, p: int, v1: &Self, e1: int, v2: &Self, e2: int) { lemma_tlv16_det(data, p + 10, opt_items(v1.opt_codes@), opt_items(v2.opt_codes@), data.len() as int); }
    open spec fn wf_fit(&self) -> bool { true }
    open spec fn wf_empty_ok() -> bool { true }
    proof fn lemma_dec_ok(data: Seq<u8>, p: int, v: &Self, p2: int) { lemma_tlv16_dec_len(data, p + 10, opt_items(v.opt_codes@), data.len() as int); lemma_opt_fits(v.opt_codes@); }
    proof fn lemma_rt(&self, pre: Seq<u8>) { lemma_tlv16_rt(pre, opt_items(self.opt_codes@)); }
""", verified_inherent=('extract_rcode_from_ttl', 'encode_ttl'), external_trait_fns=())
    # OPT::len: R11 + fold invariant
    c.sum_loop(rel, OPT_WF, 'len', """
                invariant
                    self.wf_ok(), 0 <= vx_it.index@ <= self.opt_codes@.len(),
                    vx_sum == tlv16_enc(opt_items(self.opt_codes@).subrange(0, vx_it.index@ as int)).len(),
""", body_pre="""
                proof {
                    let i = vx_it.index@ as int;
                    let items = opt_items(self.opt_codes@);
                    assert(items[i].1 == o.data@);
                    lemma_tlv16_len_step(items, i);
                    lemma_tlv16_len_mono(items, i + 1);
                }
""")
    c.contract(rel, OPT_WF, 'len', "", pre_body="""
        proof { assert(opt_items(self.opt_codes@).subrange(0, 0) =~= Seq::<(u16, Seq<u8>)>::empty()); }
""")
    c.ghost(rel, OPT_WF, 'len', "vx_sum }", """
            proof { assert(opt_items(self.opt_codes@).subrange(0, self.opt_codes@.len() as int) =~= opt_items(self.opt_codes@)); }
""", where='before')
    OPT_IMPL = "impl<'a> OPT<'a> {"
    c.contract(rel, OPT_IMPL, 'encode_ttl', """
        ensures r == crate::dns::header::opt_ttl(header.response_code, self.version), // @C09:ttl-layout
""", pre_body="\n        proof { lemma_tz_consts(); }\n")
    c.contract(rel, OPT_IMPL, 'extract_rcode_from_ttl', """
        ensures r == rcode_of_code((((ttl >> 24u32) as u16) << 4u16) | crate::dns::header::rcode_code(header.response_code)), // @C09:rcode-recombined
""", pre_body="\n        proof { lemma_tz_consts(); }\n")
    c.ghost(rel, OPT_IMPL, 'extract_rcode_from_ttl', "RCODE::from(rcode as u16)", """
        proof {
            let hc = crate::dns::header::rcode_code(header.response_code);
            assert(hc <= 17);
            assert(((((ttl & 0xFF00_0000u32) >> 24u32) << 4u32) | (hc as u32)) as u16 == (((ttl >> 24u32) as u16) << 4u16) | hc) by(bit_vector) requires hc <= 17;
        }
""", where='before')
    c.contract(rel, OPT_WF, 'parse', "", pre_body="""
        let ghost p0 = *position as int;
        proof { lemma_tz_consts(); }
""")
    c.ghost(rel, OPT_WF, 'parse', "let version = ((ttl & masks::VERSION_MASK)", """
        proof { lemma_u32_octets(ttl, data@.subrange(p0 + 4, p0 + 8)); }
""", where='before')
    c.loop_spec(rel, OPT_WF, 'parse', 0, """
            invariant *position <= data.len(), data.len() <= isize::MAX, p0 + 10 <= *position, p0 == *old(position),
                tlv16(data@, p0 + 10, opt_items(opt_codes@), *position as int), // @C09:options-decoded
            decreases data.len() - *position,
""")
    # completeness: an error inside the option loop means that no option list tiles the RDATA (C09: options are *exactly* the triples)
    OPT_NONE = """
                proof {
                    assert forall|v: Self, e: int| !Self::wf_dec(data@, p0, &v, e) by {
                        if Self::wf_dec(data@, p0, &v, e) {
                            lemma_tlv16_next(data@, p0 + 10, opt_items(v.opt_codes@), data.len() as int, opt_items(opt_codes@), *position as int);
                        }
                    }
                }
"""
    c.ghost_loop_exits(rel, OPT_WF, 'parse', OPT_NONE)
    c.ghost(rel, OPT_WF, 'parse', "opt_codes.push(OPTCode {", "            let ghost old_codes = opt_codes@;", where='before')
    c.ghost(rel, OPT_WF, 'parse', "*position += 4 + length;", """
            proof {
                lemma_opt_items_push(old_codes, opt_codes@.last());
                assert(opt_codes@ =~= old_codes.push(opt_codes@.last()));
            }
""", where='after')
    c.contract(rel, OPT_WF, 'write_to', "", pre_body="""
        let ghost items = opt_items(self.opt_codes@);
        proof { assert(items.subrange(0, 0) =~= Seq::<(u16, Seq<u8>)>::empty()); }
""")
    c.loop_spec(rel, OPT_WF, 'write_to', 0, """
            invariant items == opt_items(self.opt_codes@), tlv16_ok(items), 0 <= vx_it.index@ <= items.len(), items.len() == self.opt_codes@.len(),
                vx_it.seq() == self.opt_codes@.map(|i: int, x: OPTCode<'a>| &x),
                wrote(old(out), out, tlv16_enc(items.subrange(0, vx_it.index@ as int))), // @C09:options-encoded
""", iter_name='vx_it')
    c.ghost(rel, OPT_WF, 'write_to', "out.write_all(&code.data)?;", """
            proof {
                let i = vx_it.index@ as int;
                assert(items[i] == (code.code, code.data@));
                assert(items.subrange(0, i + 1).drop_last() =~= items.subrange(0, i));
                assert(items.subrange(0, i + 1).last() == items[i]);
            }
""", where='after')
    c.ghost_every(rel, OPT_WF, 'write_to', "Ok(())", "        proof { assert(items.subrange(0, items.len() as int) =~= items); }")

    # ---- TXT (RFC 1035 3.3.14): one or more <character-string>s
    rel = 'dns/rdata/txt.rs'
    c.append(rel, """verus!{
pub open spec fn txt_items(cs: Seq<CharacterString>) -> Seq<Seq<u8>> { cs.map(|i: int, c: CharacterString| c.bytes()) }
pub proof fn lemma_txt_items_push(cs: Seq<CharacterString>, c: CharacterString)
    ensures txt_items(cs.push(c)) == txt_items(cs).push(c.bytes()), txt_items(cs.push(c)).drop_last() == txt_items(cs),
{
    assert(txt_items(cs.push(c)) =~= txt_items(cs).push(c.bytes()));
    assert(txt_items(cs).push(c.bytes()).drop_last() =~= txt_items(cs));
}
impl<'a> TXT<'a> {
    pub closed spec fn items(&self) -> Seq<Seq<u8>> { txt_items(self.strings@) }
    pub closed spec fn sz(&self) -> usize { self.size }
}
}
""")
    TXT_WF = impl_header(c, rel, 'TXT')
    wrap_type(c, rel, 'TXT', """    /// the size field is the cached encoded length (invariant kept by add_char_string and parse)
    open spec fn wf_ok(&self) -> bool { lv8_ok(self.items()) && self.sz() == lv8_enc(self.items()).len() && self.sz() <= 65535 }
    open spec fn wf_enc(&self) -> Seq<u8> { if self.items().len() == 0 { seq![0u8] } else { lv8_enc(self.items()) } }
    open spec fn wf_dec(data: Seq<u8>, p: int, v: &Self, p2: int) -> bool {
        lv8(data, p, v.items(), data.len() as int) && p2 == data.len() && v.sz() == p2 - p
    }
    /// an empty TXT is written as one empty string and reads back as such (not as an empty list): canonical = non-empty
    open spec fn wf_cdec(data: Seq<u8>, p: int, v: &Self, p2: int) -> bool { Self::wf_dec(data, p, v, p2) }
    open spec fn wf_canon(&self) -> bool { self.items().len() > 0 }
    open spec fn wf_in_rdata() -> bool { true }
    open spec fn wf_nocomp() -> bool { false }
    open spec fn wf_eqv(&self, other: &Self) -> bool { self.items() == other.items() && self.sz() == other.sz() }
    proof fn lemma_det(data: Seq<u8>, p: int, v1: &Self, e1: int, v2: &Self, e2: int) { lemma_lv8_det(data, p, v1.items(), v2.items(), data.len() as int); }
    open spec fn wf_fit(&self) -> bool { true }
    open spec fn wf_empty_ok() -> bool { false }
    proof fn lemma_dec_ok(data: Seq<u8>, p: int, v: &Self, p2: int) { lemma_lv8_dec_len(data, p, v.items(), data.len() as int); if v.items().len() == 0 { assert(p == data.len()); } }
    proof fn lemma_rt(&self, pre: Seq<u8>) { lemma_lv8_rt(pre, self.items()); }
""", verified_inherent=('new', 'add_char_string'), external_trait_fns=())
    # construction keeps the cached size equal to the encoded length: a TXT built through the public API is well formed
    TXT_IMPL = "impl<'a> TXT<'a> {"
    c.contract(rel, TXT_IMPL, 'new', """
        ensures r.items().len() == 0, r.wf_ok(), // @C02:constructed-values-are-ok,C04:txt-size-tracks-content
""", pre_body="\n        proof { assert(txt_items(Seq::<CharacterString>::empty()) =~= Seq::<Seq<u8>>::empty()); }\n")
    ADD_SPEC = """
        requires old(self).wf_ok(), %s
        ensures
            %s final(self).items() == old(self).items().push(%s), // @C02:constructed-values-are-ok
            %s final(self).sz() == old(self).sz() + 1 + %s.len(), // @C04:txt-size-tracks-content
            %s (final(self).sz() <= 65535 ==> final(self).wf_ok()), // @C02:constructed-values-are-ok,C04:txt-size-tracks-content
"""
    c.contract(rel, TXT_IMPL, 'add_char_string', ADD_SPEC % ('char_string.wf_ok(),', '', 'char_string.bytes()', '', 'char_string.bytes()', ''), ret=None,
               pre_body="\n        let ghost vx_old = self.strings@;\n        let ghost vx_cs = char_string;\n")
    c.ghost(rel, TXT_IMPL, 'add_char_string', "self.strings.push(char_string);", """
        proof {
            lemma_txt_items_push(vx_old, vx_cs);
            assert(self.strings@ =~= vx_old.push(vx_cs));
            assert(self.items().drop_last() =~= txt_items(vx_old));
        }
""", where='after')
    c.contract(rel, TXT_WF, 'parse', "", pre_body="\n        let ghost p0 = *position as int;\n")
    c.loop_spec(rel, TXT_WF, 'parse', 0, """
            invariant *position <= data.len(), data.len() <= isize::MAX, p0 <= *position, p0 == *old(position),
                lv8(data@, p0, txt_items(strings@), *position as int), // @C10:txt-strings-decoded
            decreases data.len() - *position,
""", body_pre="""
            let ghost old_strings = strings@;
            proof {
                // completeness: if the next string does not fit, no list of strings tiles the RDATA
                if !(*position + 1 + data@[*position as int] <= data.len()) {
                    assert forall|v: Self, e: int| !Self::wf_dec(data@, p0, &v, e) by {
                        if Self::wf_dec(data@, p0, &v, e) {
                            lemma_lv8_next(data@, p0, v.items(), data.len() as int, txt_items(strings@), *position as int);
                        }
                    }
                }
            }
""")
    c.ghost(rel, TXT_WF, 'parse', "strings.push(char_str);", """
            proof {
                lemma_txt_items_push(old_strings, strings@.last());
                assert(strings@ =~= old_strings.push(strings@.last()));
            }
""", where='after')
    c.contract(rel, TXT_WF, 'write_to', "", pre_body="""
        let ghost items = self.items();
        proof { assert(items.subrange(0, 0) =~= Seq::<Seq<u8>>::empty()); assert(items.len() == self.strings@.len()); }
""")
    c.loop_spec(rel, TXT_WF, 'write_to', 0, """
            invariant items == txt_items(self.strings@), lv8_ok(items), 0 <= vx_it.index@ <= items.len(), items.len() == self.strings@.len(),
                wrote(old(out), out, lv8_enc(items.subrange(0, vx_it.index@ as int))), // @C10:txt-strings-encoded
""", iter_name='vx_it', body_pre="""
            proof {
                let i = vx_it.index@ as int;
                assert(items[i] == string.bytes());
                assert(items.subrange(0, i + 1).drop_last() =~= items.subrange(0, i));
                assert(items.subrange(0, i + 1).last() == items[i]);
            }
""")
    c.ghost_every(rel, TXT_WF, 'write_to', "Ok(())", "        proof { assert(items.subrange(0, items.len() as int) =~= items); }")

    # ---- NSEC (RFC 4034 4.1): next domain name (never compressed) + type bit maps with strictly increasing windows
    rel = 'dns/rdata/nsec.rs'
    c.append(rel, """verus!{
/// the type bit maps as the (assumed) writer emits them: a function of the (window, bitmap) list
pub uninterp spec fn nsec_tail(items: Seq<(u8, Seq<u8>)>) -> Seq<u8>;
pub open spec fn nsec_items(ms: Seq<TypeBitMap>) -> Seq<(u8, Seq<u8>)> { ms.map(|i: int, m: TypeBitMap| (m.window_block, m.bitmap@)) }
pub proof fn lemma_nsec_items_push(ms: Seq<TypeBitMap>, m: TypeBitMap)
    ensures nsec_items(ms.push(m)) == nsec_items(ms).push((m.window_block, m.bitmap@)), nsec_items(ms.push(m)).drop_last() == nsec_items(ms),
{
    assert(nsec_items(ms.push(m)) =~= nsec_items(ms).push((m.window_block, m.bitmap@)));
    assert(nsec_items(ms).push((m.window_block, m.bitmap@)).drop_last() =~= nsec_items(ms));
}
}
""")
    NSEC_WF = impl_header(c, rel, 'NSEC')
    wrap_type(c, rel, 'NSEC', """    open spec fn wf_ok(&self) -> bool { name_ok(self.next_name.lv()) }
    /// next domain name, then the type bit maps as the (assumed) writer orders them
    open spec fn wf_enc(&self) -> Seq<u8> { name_enc(self.next_name.lv()) + nsec_tail(nsec_items(self.type_bit_maps@)) }
    open spec fn wf_dec(data: Seq<u8>, p: int, v: &Self, p2: int) -> bool {
        &&& dec_labels(data, p, 0) == Some(v.next_name.lv())
        &&& wl8(data, p + inplace_len(data, p), nsec_items(v.type_bit_maps@), data.len() as int)
        &&& strictly_increasing_u8(nsec_items(v.type_bit_maps@))   // windows not increasing => rejected
        &&& p2 == data.len()
    }
    open spec fn wf_cdec(data: Seq<u8>, p: int, v: &Self, p2: int) -> bool { Self::wf_dec(data, p, v, p2) }
    open spec fn wf_canon(&self) -> bool { true }
    open spec fn wf_in_rdata() -> bool { true }
    open spec fn wf_nocomp() -> bool { true }
    open spec fn wf_eqv(&self, other: &Self) -> bool { self.next_name.lv() == other.next_name.lv() && nsec_items(self.type_bit_maps@) == nsec_items(other.type_bit_maps@) }
    proof fn lemma_det(data: Seq<u8>, p: int, v1: &Self, e1: int, v2: &Self, e2: int) { lemma_wl8_det(data, p + inplace_len(data, p), nsec_items(v1.type_bit_maps@), nsec_items(v2.type_bit_maps@), data.len() as int); }
    open spec fn wf_fit(&self) -> bool { true }
    open spec fn wf_empty_ok() -> bool { false }
    proof fn lemma_dec_ok(data: Seq<u8>, p: int, v: &Self, p2: int) { lemma_name_dec_ok(data, p, v.next_name.lv()); }
    #[verifier::external_body]
    proof fn lemma_rt(&self, pre: Seq<u8>) {}
""", external_trait_fns=('write_to', 'len'))
    # closure contract generated from the closure's own body text (whatever comparison it makes is what `b` equals); the
    # window-order rule itself is the loop invariant strictly_increasing_u8 below
    s_n = c.rd(rel)
    m_n = re.search(r"is_some_and\(\|f: &TypeBitMap<'_>\| ([^|{}\n]+?)\)\s*\{", s_n)
    if not m_n:
        raise AnchorLost('%s: window-order predicate lost' % rel)
    body_n = m_n.group(1).strip()
    c.wr(rel, s_n[:m_n.start()] + "is_some_and(|f: &TypeBitMap<'_>| -> (b: bool) ensures b == (%s) { %s }) {" % (body_n, body_n) + s_n[m_n.end():])
    c.log.append(('closure-contract', rel, 'NSEC::parse: window-order predicate gets `ensures b == (f.window_block >= window_block)`'))
    c.contract(rel, NSEC_WF, 'parse', "", pre_body="\n        let ghost p0 = *position as int;\n")
    c.ghost(rel, NSEC_WF, 'parse', "let mut type_bit_maps = Vec::new();", "        let ghost q0 = *position as int;", where='after')
    c.loop_spec(rel, NSEC_WF, 'parse', 0, """
            invariant *position <= data.len(), data.len() <= isize::MAX, q0 <= *position, p0 == *old(position),
                dec_labels(data@, p0, 0) == Some(next_name.lv()), q0 == p0 + inplace_len(data@, p0),
                wl8(data@, q0, nsec_items(type_bit_maps@), *position as int), // @C10:nsec-bitmaps-decoded
                strictly_increasing_u8(nsec_items(type_bit_maps@)), // @C10:nsec-windows-increasing
            decreases data.len() - *position,
""", body_pre="\n            let ghost old_maps = type_bit_maps@;\n            let ghost vx_q = *position as int;\n")
    NSEC_NONE = """
                proof {
                    assert forall|v: Self, e: int| !Self::wf_dec(data@, p0, &v, e) by {
                        if Self::wf_dec(data@, p0, &v, e) {
                            let full = nsec_items(v.type_bit_maps@);
                            let done = nsec_items(old_maps);
                            lemma_wl8_next(data@, q0, full, data.len() as int, done, vx_q);
                            let k = done.len() as int;
                            if k > 0 {
                                assert(full[k - 1] == done[k - 1]);
                                assert(done[k - 1].0 == old_maps.last().window_block);
                                assert(full[k - 1].0 < full[k].0);
                            }
                        }
                    }
                }
"""
    c.ghost_loop_exits(rel, NSEC_WF, 'parse', NSEC_NONE)
    c.ghost(rel, NSEC_WF, 'parse', "type_bit_maps.push(TypeBitMap {", """
            proof {
                assert forall|i: int| 0 <= i < old_maps.len() implies (#[trigger] nsec_items(old_maps)[i]).0 < window_block by {
                    let n = old_maps.len() as int;
                    assert(nsec_items(old_maps)[n - 1].0 == old_maps.last().window_block);
                    assert(old_maps.last().window_block < window_block);
                    if i < n - 1 { assert(nsec_items(old_maps)[i].0 < nsec_items(old_maps)[n - 1].0); }
                }
            }
""", where='before')
    c.ghost(rel, NSEC_WF, 'parse', "type_bit_maps.push(TypeBitMap {", """
            proof {
                lemma_nsec_items_push(old_maps, type_bit_maps@.last());
                assert(type_bit_maps@ =~= old_maps.push(type_bit_maps@.last()));
            }
""", where='after')

    # ---- SVCB / HTTPS (RFC 9460 2.2): priority, target name (never compressed), SvcParams with strictly increasing keys
    rel = 'dns/rdata/svcb.rs'
    c.append(rel, """verus!{
pub uninterp spec fn svcb_tail(v: &SVCB) -> Seq<u8>;
/// the parameter map holds exactly the items of the wire list
pub open spec fn params_match(m: Map<u16, Cow<[u8]>>, items: Seq<(u16, Seq<u8>)>) -> bool {
    &&& forall|k: u16| #[trigger] m.contains_key(k) <==> exists|i: int| 0 <= i < items.len() && (#[trigger] items[i]).0 == k
    &&& forall|i: int| 0 <= i < items.len() ==> m.contains_key((#[trigger] items[i]).0) && m[items[i].0]@ == items[i].1
}
impl<'a> SVCB<'a> {
    pub closed spec fn pv(&self) -> Map<u16, Cow<'a, [u8]>> { self.params@ }
    pub closed spec fn prio(&self) -> u16 { self.priority }
    pub closed spec fn tgt(&self) -> Seq<Seq<u8>> { self.target.lv() }
}
}
""")
    SVCB_WF = impl_header(c, rel, 'SVCB')
    wrap_type(c, rel, 'SVCB', """    open spec fn wf_ok(&self) -> bool { name_ok(self.tgt()) }
    /// priority, target name, then the parameters as the (assumed) writer emits them
    open spec fn wf_enc(&self) -> Seq<u8> { enc16(self.prio()) + name_enc(self.tgt()) + svcb_tail(self) }
    open spec fn wf_dec(data: Seq<u8>, p: int, v: &Self, p2: int) -> bool {
        &&& p + 2 <= data.len()
        &&& v.prio() as nat == be_nat(data.subrange(p, p + 2))
        &&& dec_labels(data, p + 2, 0) == Some(v.tgt())
        &&& p2 == data.len()
        &&& exists|items: Seq<(u16, Seq<u8>)>| #[trigger] tlv16(data, p + 2 + inplace_len(data, p + 2), items, data.len() as int)
                && strictly_increasing_u16(items) && params_match(v.pv(), items)   // keys not increasing / value overrunning => rejected
    }
    open spec fn wf_cdec(data: Seq<u8>, p: int, v: &Self, p2: int) -> bool { Self::wf_dec(data, p, v, p2) }
    open spec fn wf_canon(&self) -> bool { true }
    open spec fn wf_in_rdata() -> bool { true }
    open spec fn wf_nocomp() -> bool { true }
    open spec fn wf_eqv(&self, other: &Self) -> bool {
        &&& self.prio() == other.prio() && self.tgt() == other.tgt()
        &&& forall|k: u16| self.pv().contains_key(k) == other.pv().contains_key(k)
        &&& forall|k: u16| self.pv().contains_key(k) ==> #[trigger] self.pv()[k]@ == other.pv()[k]@
    }
    proof fn lemma_det(data: Seq<u8>, p: int, v1: &Self, e1: int, v2: &Self, e2: int) {
        let q = p + 2 + inplace_len(data, p + 2);
        let a = choose|items: Seq<(u16, Seq<u8>)>| #[trigger] tlv16(data, q, items, data.len() as int) && strictly_increasing_u16(items) && params_match(v1.pv(), items);
        let b = choose|items: Seq<(u16, Seq<u8>)>| #[trigger] tlv16(data, q, items, data.len() as int) && strictly_increasing_u16(items) && params_match(v2.pv(), items);
        lemma_tlv16_det(data, q, a, b, data.len() as int);
        assert forall|k: u16| v1.pv().contains_key(k) implies #[trigger] v1.pv()[k]@ == v2.pv()[k]@ by {
            let i = choose|i: int| 0 <= i < a.len() && (#[trigger] a[i]).0 == k;
            assert(v1.pv()[a[i].0]@ == a[i].1 && v2.pv()[b[i].0]@ == b[i].1);
        }
    }
    open spec fn wf_fit(&self) -> bool { true }
    open spec fn wf_empty_ok() -> bool { false }
    proof fn lemma_dec_ok(data: Seq<u8>, p: int, v: &Self, p2: int) { lemma_name_dec_ok(data, p + 2, v.tgt()); }
    #[verifier::external_body]
    proof fn lemma_rt(&self, pre: Seq<u8>) {}
""", external_trait_fns=('write_to', 'len'))
    c.contract(rel, SVCB_WF, 'parse', "", pre_body="\n        let ghost p0 = *position as int;\n")
    c.mark(rel, SVCB_WF, 'parse', '#[verifier::rlimit(30)]')
    c.ghost(rel, SVCB_WF, 'parse', "let mut params = BTreeMap::new();", "        let ghost q0 = *position as int;\n        let ghost mut items: Seq<(u16, Seq<u8>)> = Seq::empty();", where='after')
    c.loop_spec(rel, SVCB_WF, 'parse', 0, """
            invariant *position <= data.len(), data.len() <= isize::MAX, q0 <= *position, p0 == *old(position),
                q0 == p0 + 2 + inplace_len(data@, p0 + 2), p0 + 2 <= data.len(),
                tlv16(data@, q0, items, *position as int), // @C10:svcb-params-decoded
                strictly_increasing_u16(items), // @C10:svcb-keys-increasing
                params_match(params@, items), // @C10:svcb-params-decoded
                -1 <= previous_key <= 65535,
                items.len() == 0 ==> previous_key == -1, items.len() > 0 ==> items.last().0 == previous_key,
                forall|i: int| 0 <= i < items.len() ==> (#[trigger] items[i]).0 <= previous_key,
            decreases data.len() - *position,
""", body_pre="\n            let ghost old_items = items;\n            let ghost old_map = params@;\n")
    SVCB_NONE = """
                proof {
                    assert forall|v: Self, e: int| !Self::wf_dec(data@, p0, &v, e) by {
                        if Self::wf_dec(data@, p0, &v, e) {
                            let full = choose|its: Seq<(u16, Seq<u8>)>| #[trigger] tlv16(data@, q0, its, data.len() as int) && strictly_increasing_u16(its) && params_match(v.pv(), its);
                            lemma_tlv16_next(data@, q0, full, data.len() as int, old_items, *position as int);
                            let k = old_items.len() as int;
                            if k > 0 { assert(full[k - 1] == old_items[k - 1]); assert(old_items[k - 1] == old_items.last()); assert(full[k - 1].0 < full[k].0); }
                        }
                    }
                }
"""
    c.ghost_loop_exits(rel, SVCB_WF, 'parse', SVCB_NONE)
    c.ghost(rel, SVCB_WF, 'parse', "*position += 4 + value_length;", """
            proof {
                let val = data@.subrange(*position + 4, *position + 4 + value_length);
                items = old_items.push((key, val));
                assert(items.drop_last() =~= old_items);
                assert(params@ == old_map.insert(key, params@[key]));
                assert(params@[key]@ == val);
                assert forall|k: u16| #[trigger] params@.contains_key(k) <==> exists|i: int| 0 <= i < items.len() && (#[trigger] items[i]).0 == k by {
                    if params@.contains_key(k) {
                        if k == key { assert(items[items.len() - 1].0 == k); }
                        else {
                            assert(old_map.contains_key(k));
                            let i = choose|i: int| 0 <= i < old_items.len() && (#[trigger] old_items[i]).0 == k;
                            assert(items[i].0 == k);
                        }
                    }
                    if exists|i: int| 0 <= i < items.len() && (#[trigger] items[i]).0 == k {
                        let i = choose|i: int| 0 <= i < items.len() && (#[trigger] items[i]).0 == k;
                        if i < old_items.len() { assert(old_items[i].0 == k); }
                    }
                }
                assert forall|i: int| 0 <= i < items.len() implies params@.contains_key((#[trigger] items[i]).0) && params@[items[i].0]@ == items[i].1 by {
                    if i < old_items.len() { assert(old_items[i] == items[i]); assert(old_items[i].0 != key); }
                }
            }
""", where='before')

    # ---- IPSECKEY (RFC 4025 2.1): precedence, gateway type, algorithm, gateway (none / IPv4 / IPv6 / uncompressed name), public key
    rel = 'dns/rdata/ipseckey.rs'
    c.wrap(rel, "pub enum Gateway<'a> {")
    c.append(rel, """verus!{
pub open spec fn gw_type(g: &Gateway) -> u8 { match g { Gateway::None => 0, Gateway::IPv4(_) => 1, Gateway::IPv6(_) => 2, Gateway::Domain(_) => 3 } }
pub open spec fn gw_enc(g: &Gateway) -> Seq<u8> {
    match g { Gateway::None => Seq::empty(), Gateway::IPv4(a) => ipv4_octets(*a), Gateway::IPv6(a) => ipv6_octets(*a), Gateway::Domain(n) => name_enc(n.lv()) }
}
}
""")
    IPS_WF = impl_header(c, rel, 'IPSECKEY')
    wrap_type(c, rel, 'IPSECKEY', """    open spec fn wf_ok(&self) -> bool {
        &&& self.public_key@.len() <= 65535
        &&& (match self.gateway { Gateway::Domain(n) => name_ok(n.lv()), Gateway::IPv4(a) => ipv4_octets(a).len() == 4,
                                  Gateway::IPv6(a) => ipv6_octets(a).len() == 16, Gateway::None => true })
    }
    open spec fn wf_enc(&self) -> Seq<u8> {
        seq![self.precedence, gw_type(&self.gateway), self.algorithm] + gw_enc(&self.gateway) + self.public_key@
    }
    open spec fn wf_dec(data: Seq<u8>, p: int, v: &Self, p2: int) -> bool {
        &&& p + 3 <= data.len()
        &&& v.precedence == data[p] && v.algorithm == data[p + 2]
        &&& gw_type(&v.gateway) == data[p + 1]     // unknown gateway type => rejected
        &&& ({
            let q = p + 3;
            match v.gateway {
                Gateway::None => v.public_key@ == data.subrange(q, data.len() as int),
                Gateway::IPv4(a) => q + 4 <= data.len() && ipv4_octets(a) == data.subrange(q, q + 4) && v.public_key@ == data.subrange(q + 4, data.len() as int),
                Gateway::IPv6(a) => q + 16 <= data.len() && ipv6_octets(a) == data.subrange(q, q + 16) && v.public_key@ == data.subrange(q + 16, data.len() as int),
                Gateway::Domain(n) => dec_labels(data, q, 0) == Some(n.lv()) && v.public_key@ == data.subrange(q + inplace_len(data, q), data.len() as int),
            }
        })
        &&& p2 == data.len()
    }
    open spec fn wf_cdec(data: Seq<u8>, p: int, v: &Self, p2: int) -> bool { Self::wf_dec(data, p, v, p2) }
    open spec fn wf_canon(&self) -> bool { true }
    open spec fn wf_in_rdata() -> bool { true }
    open spec fn wf_nocomp() -> bool { true }
    open spec fn wf_eqv(&self, other: &Self) -> bool {
        &&& self.precedence == other.precedence && self.algorithm == other.algorithm && self.public_key@ == other.public_key@
        &&& (match (self.gateway, other.gateway) {
                (Gateway::None, Gateway::None) => true,
                (Gateway::IPv4(a), Gateway::IPv4(b)) => ipv4_octets(a) == ipv4_octets(b),
                (Gateway::IPv6(a), Gateway::IPv6(b)) => ipv6_octets(a) == ipv6_octets(b),
                (Gateway::Domain(a), Gateway::Domain(b)) => a.lv() == b.lv(),
                _ => false,
            })
    }
    proof fn lemma_det(data: Seq<u8>, p: int, v1: &Self, e1: int, v2: &Self, e2: int) {}
    open spec fn wf_fit(&self) -> bool { true }
    open spec fn wf_empty_ok() -> bool { false }
    proof fn lemma_dec_ok(data: Seq<u8>, p: int, v: &Self, p2: int) {
        match v.gateway {
            Gateway::Domain(n) => { lemma_name_dec_ok(data, p + 3, n.lv()); lemma_inplace_bound(data, p + 3, 0); }
            Gateway::IPv4(a) => { assert(data.subrange(p + 3, p + 7).len() == 4); }
            Gateway::IPv6(a) => { assert(data.subrange(p + 3, p + 19).len() == 16); }
            Gateway::None => {}
        }
        assert(v.public_key@.len() <= 65535);
        assert(match v.gateway { Gateway::Domain(n) => name_ok(n.lv()), Gateway::IPv4(a) => ipv4_octets(a).len() == 4,
                                  Gateway::IPv6(a) => ipv6_octets(a).len() == 16, Gateway::None => true });
        assert(v.wf_enc().len() > 0);
    }
    proof fn lemma_rt(&self, pre: Seq<u8>) {
        let d = pre + self.wf_enc();
        let q = pre.len() as int + 3;
        match self.gateway {
            Gateway::None => { assert(d.subrange(q, d.len() as int) =~= self.public_key@); }
            Gateway::IPv4(a) => { assert(d.subrange(q, q + 4) =~= ipv4_octets(a)); assert(d.subrange(q + 4, d.len() as int) =~= self.public_key@); }
            Gateway::IPv6(a) => { assert(d.subrange(q, q + 16) =~= ipv6_octets(a)); assert(d.subrange(q + 16, d.len() as int) =~= self.public_key@); }
            Gateway::Domain(n) => {
                let q2 = q + wl(n.lv()) + 1;
                lemma_name_roundtrip(d.subrange(0, q), n.lv(), d.subrange(q2, d.len() as int));
                assert(d =~= d.subrange(0, q) + name_enc(n.lv()) + d.subrange(q2, d.len() as int));
                assert(d.subrange(q2, d.len() as int) =~= self.public_key@);
            }
        }
    }
""", external_trait_fns=())
    c.ghost(rel, IPS_WF, 'parse', "*position += 4;", """
                proof { assert(seq![data@[*position as int], data@[*position + 1], data@[*position + 2], data@[*position + 3]] =~= data@.subrange(*position as int, *position + 4)); }
""", where='before')

    # ---- NSAP (RFC 1706, 20-octet GOSIP form): afi(1) idi(2) dfi(1) aa(3) rsvd(2) rd(2) area(2) id(6) sel(1)
    rel = 'dns/rdata/nsap.rs'
    NSAP_WF = impl_header(c, rel, 'NSAP')
    wrap_type(c, rel, 'NSAP', """    open spec fn wf_ok(&self) -> bool { self.aa < 0x100_0000 && self.id < 0x1_0000_0000_0000 }
    open spec fn wf_enc(&self) -> Seq<u8> {
        seq![self.afi] + enc_be(self.idi as nat, 2) + seq![self.dfi] + enc_be(self.aa as nat, 3) + enc_be(self.rsvd as nat, 2)
        + enc_be(self.rd as nat, 2) + enc_be(self.area as nat, 2) + enc_be(self.id as nat, 6) + seq![self.sel]
    }
    open spec fn wf_dec(data: Seq<u8>, p: int, v: &Self, p2: int) -> bool {
        &&& p + 20 <= data.len() && p2 == p + 20
        &&& v.afi == data[p] && v.dfi == data[p + 3] && v.sel == data[p + 19]
        &&& v.idi as nat == be_nat(data.subrange(p + 1, p + 3))
        &&& v.aa as nat == be_nat(data.subrange(p + 4, p + 7))
        &&& v.rsvd as nat == be_nat(data.subrange(p + 7, p + 9))
        &&& v.rd as nat == be_nat(data.subrange(p + 9, p + 11))
        &&& v.area as nat == be_nat(data.subrange(p + 11, p + 13))
        &&& v.id as nat == be_nat(data.subrange(p + 13, p + 19))
    }
    open spec fn wf_cdec(data: Seq<u8>, p: int, v: &Self, p2: int) -> bool { Self::wf_dec(data, p, v, p2) }
    open spec fn wf_canon(&self) -> bool { true }
    open spec fn wf_in_rdata() -> bool { true }
    open spec fn wf_nocomp() -> bool { false }
    open spec fn wf_eqv(&self, other: &Self) -> bool {
        self.afi == other.afi && self.idi == other.idi && self.dfi == other.dfi && self.aa == other.aa && self.rsvd == other.rsvd
        && self.rd == other.rd && self.area == other.area && self.id == other.id && self.sel == other.sel
    }
    proof fn lemma_det(data: Seq<u8>, p: int, v1: &Self, e1: int, v2: &Self, e2: int) {}
    open spec fn wf_fit(&self) -> bool { true }
    open spec fn wf_empty_ok() -> bool { false }
    proof fn lemma_dec_ok(data: Seq<u8>, p: int, v: &Self, p2: int) { lemma_pow256_vals(); lemma_enc_be_inj(data.subrange(p + 4, p + 7)); lemma_enc_be_inj(data.subrange(p + 13, p + 19)); }
    proof fn lemma_rt(&self, pre: Seq<u8>) {
        lemma_pow256_vals();
        let d = pre + self.wf_enc();
        let p = pre.len() as int;
        lemma_be_enc(self.idi as nat, 2); assert(d.subrange(p + 1, p + 3) =~= enc_be(self.idi as nat, 2));
        lemma_be_enc(self.aa as nat, 3); assert(d.subrange(p + 4, p + 7) =~= enc_be(self.aa as nat, 3));
        lemma_be_enc(self.rsvd as nat, 2); assert(d.subrange(p + 7, p + 9) =~= enc_be(self.rsvd as nat, 2));
        lemma_be_enc(self.rd as nat, 2); assert(d.subrange(p + 9, p + 11) =~= enc_be(self.rd as nat, 2));
        lemma_be_enc(self.area as nat, 2); assert(d.subrange(p + 11, p + 13) =~= enc_be(self.area as nat, 2));
        lemma_be_enc(self.id as nat, 6); assert(d.subrange(p + 13, p + 19) =~= enc_be(self.id as nat, 6));
    }
""", external_trait_fns=())
    c.ghost(rel, NSAP_WF, 'parse', "let data = &data[*position..*position + 20];", "        let ghost d0 = data@;\n        let ghost p0 = *position as int;", where='before')
    c.ghost(rel, NSAP_WF, 'parse', "Ok(Self {", """
        proof {
            assert(data@ == d0.subrange(p0, p0 + 20));
            assert(seq![data@[1], data@[2]] =~= d0.subrange(p0 + 1, p0 + 3));
            assert(seq![0u8, data@[4], data@[5], data@[6]] =~= seq![0u8] + d0.subrange(p0 + 4, p0 + 7));
            lemma_be_nat_prepend_zero(d0.subrange(p0 + 4, p0 + 7));
            assert(seq![data@[7], data@[8]] =~= d0.subrange(p0 + 7, p0 + 9));
            assert(seq![data@[9], data@[10]] =~= d0.subrange(p0 + 9, p0 + 11));
            assert(seq![data@[11], data@[12]] =~= d0.subrange(p0 + 11, p0 + 13));
            let t = d0.subrange(p0 + 13, p0 + 19);
            assert(seq![0u8, 0u8, data@[13], data@[14], data@[15], data@[16], data@[17], data@[18]] =~= seq![0u8] + (seq![0u8] + t));
            lemma_be_nat_prepend_zero(t);
            lemma_be_nat_prepend_zero(seq![0u8] + t);
        }
""", where='before')
    c.contract(rel, NSAP_WF, 'write_to', "", pre_body="""
        proof {
            lemma_pow256_vals();
            lemma_enc_be_leading_zero(self.aa as nat, 3);
            assert(enc_be(self.aa as nat, 4).subrange(1, 4) =~= enc_be(self.aa as nat, 3));
            lemma_enc_be_leading_zero(self.id as nat, 6);
            lemma_enc_be_leading_zero(self.id as nat, 7);
            assert(enc_be(self.id as nat, 8).subrange(2, 8) =~= enc_be(self.id as nat, 6));
        }
""")
    c.wrap('dns/rdata/opt.rs', "pub mod masks {")
    c.wrap('dns/rdata/opt.rs', "pub struct OPTCode<'a> {")
    c.wrap('dns/rdata/nsec.rs', "pub struct TypeBitMap<'a> {")
