"""Hand-written ghost definitions for the RDATA types with loops, unions or odd widths
(TXT, OPT, SVCB, NSEC, IPSECKEY, NSAP, NULL)."""
import re
from typed import wrap_type, list_fns, impl_header

WEAK = """    open spec fn wf_ok(&self) -> bool { true }
    closed spec fn wf_enc(&self) -> Seq<u8> { arbitrary() }
    open spec fn wf_dec(data: Seq<u8>, p: int, v: &Self, p2: int) -> bool { true }
"""

LOOP_INV = """
            invariant *position <= data.len(), data.len() <= isize::MAX,
            decreases data.len() - *position,
"""

def apply(c):
    # ---- LOC: the parser re-slices `data`; relate the sub-slices to the original buffer
    c.ghost('dns/rdata/loc.rs', "impl<'a> WireFormat<'a> for LOC {", 'parse', "let data = &data[*position..*position + 16];",
            "        let ghost d0 = data@;\n        let ghost p0 = *position as int;", where='before')
    c.ghost('dns/rdata/loc.rs', "impl<'a> WireFormat<'a> for LOC {", 'parse', "Ok(LOC {", """
        proof {
            assert(data@ == d0.subrange(p0, p0 + 16));
            assert(data@.subrange(4, 8) =~= d0.subrange(p0 + 4, p0 + 8));
            assert(data@.subrange(8, 12) =~= d0.subrange(p0 + 8, p0 + 12));
            assert(data@.subrange(12, 16) =~= d0.subrange(p0 + 12, p0 + 16));
        }
""", where='before')
    # ---- SOA::write_common
    c.contract('dns/rdata/soa.rs', "impl<'a> SOA<'a> {", 'write_common', """
        ensures r is Ok ==> wrote(old(out), final(out), enc_be(self.serial as nat, 4) + enc_be(i32_bits(self.refresh), 4)
            + enc_be(i32_bits(self.retry), 4) + enc_be(i32_bits(self.expire), 4) + enc_be(self.minimum as nat, 4)), // @C10:encoded-per-rfc
""")
    # ---- NULL
    rel = 'dns/rdata/null.rs'
    c.append(rel, """verus!{
impl<'a> NULL<'a> {
    pub closed spec fn dview(&self) -> Seq<u8> { self.data@ }
    pub closed spec fn lfield(&self) -> u16 { self.length }
}
}
""")
    wrap_type(c, rel, 'NULL', """    open spec fn wf_ok(&self) -> bool { self.lfield() as int == self.dview().len() }
    open spec fn wf_enc(&self) -> Seq<u8> { self.dview() }
    open spec fn wf_dec(data: Seq<u8>, p: int, v: &Self, p2: int) -> bool {
        p <= data.len() && v.dview() == data.subrange(p, data.len() as int) && p2 == data.len() && v.lfield() as int == v.dview().len()
    }
""", verified_inherent=('new',), external_trait_fns=())
    c.contract(rel, "impl<'a> NULL<'a> {", 'new', """
        ensures data.len() <= 65535 ==> r is Ok && r.unwrap().dview() == data@ && r.unwrap().lfield() as int == data.len(),
                data.len() > 65535 ==> r is Err,
""")
    # ---- weak for now
    # ---- OPT (RFC 6891 6.1.2): CLASS slot = UDP payload size, TTL = ext-rcode | version | flags, RDATA = options
    rel = 'dns/rdata/opt.rs'
    c.append(rel, """verus!{
pub open spec fn opt_items(cs: Seq<OPTCode>) -> Seq<(u16, Seq<u8>)> { cs.map(|i: int, c: OPTCode| (c.code, c.data@)) }
pub proof fn lemma_opt_items_push(cs: Seq<OPTCode>, c: OPTCode)
    ensures opt_items(cs.push(c)) == opt_items(cs).push((c.code, c.data@)),
            opt_items(cs.push(c)).drop_last() == opt_items(cs),
{
    assert(opt_items(cs.push(c)) =~= opt_items(cs).push((c.code, c.data@)));
    assert(opt_items(cs).push((c.code, c.data@)).drop_last() =~= opt_items(cs));
}
}
""")
    OPT_WF = impl_header(c, rel, 'OPT')
    wrap_type(c, rel, 'OPT', """    open spec fn wf_ok(&self) -> bool { tlv16_ok(opt_items(self.opt_codes@)) }
    open spec fn wf_enc(&self) -> Seq<u8> { tlv16_enc(opt_items(self.opt_codes@)) }
    /// `p` is the offset of the record's TYPE field (the OPT parser reads CLASS and TTL itself); data ends with the RDATA
    open spec fn wf_dec(data: Seq<u8>, p: int, v: &Self, p2: int) -> bool {
        &&& 0 <= p && p + 10 <= data.len()
        &&& v.udp_packet_size == be16(data[p + 2], data[p + 3])   // CLASS slot
        &&& v.version == data[p + 5]                                // TTL: ext-rcode(p+4) VERSION(p+5) flags(p+6..p+8)
        &&& tlv16(data, p + 10, opt_items(v.opt_codes@), data.len() as int)
        &&& p2 == data.len()
    }
""", verified_inherent=('extract_rcode_from_ttl', 'encode_ttl'), external_trait_fns=('write_compressed_to', 'len'))
    OPT_IMPL = "impl<'a> OPT<'a> {"
    c.contract(rel, OPT_IMPL, 'encode_ttl', """
        ensures r == crate::dns::header::opt_ttl(header.response_code, self.version), // @C09:ttl-layout
""", pre_body="\n        proof { lemma_tz_consts(); }\n")
    c.contract(rel, OPT_IMPL, 'extract_rcode_from_ttl', """
        ensures crate::dns::header::rcode_code(header.response_code) < 16 ==>
            r == rcode_of_code((((ttl >> 24u32) as u16) << 4u16) | crate::dns::header::rcode_code(header.response_code)), // @C09:rcode-recombined
""", pre_body="\n        proof { lemma_tz_consts(); }\n")
    c.ghost(rel, OPT_IMPL, 'extract_rcode_from_ttl', "RCODE::from(rcode as u16)", """
        proof {
            let hc = crate::dns::header::rcode_code(header.response_code);
            assert(hc < 16 ==> ((((ttl & 0xFF00_0000u32) >> 24u32) << 4u32) | (hc as u32)) as u16 == (((ttl >> 24u32) as u16) << 4u16) | hc) by(bit_vector);
        }
""", where='before')
    c.contract(rel, OPT_WF, 'parse', "", pre_body="""
        let ghost p0 = *position as int;
        proof { lemma_tz_consts(); }
""")
    c.ghost(rel, OPT_WF, 'parse', "let version = ((ttl & masks::VERSION_MASK)", """
        proof { lemma_u32_octets(ttl, data@.subrange(p0 + 4, p0 + 8)); }
""", where='before')
    c.loop_spec(rel, OPT_WF, 'parse', 0, """
            invariant *position <= data.len(), data.len() <= isize::MAX, p0 + 10 <= *position,
                tlv16(data@, p0 + 10, opt_items(opt_codes@), *position as int), // @C09:options-decoded
            decreases data.len() - *position,
""")
    c.ghost(rel, OPT_WF, 'parse', "opt_codes.push(OPTCode {", "            let ghost old_codes = opt_codes@;", where='before')
    c.ghost(rel, OPT_WF, 'parse', "*position += 4 + length;", """
            proof {
                lemma_opt_items_push(old_codes, opt_codes@.last());
                assert(opt_codes@ =~= old_codes.push(opt_codes@.last()));
            }
""", where='after')
    c.contract(rel, OPT_WF, 'write_to', "", pre_body="""
        let ghost items = opt_items(self.opt_codes@);
        proof { assert(items.subrange(0, 0) =~= Seq::<(u16, Seq<u8>)>::empty()); }
""")
    c.loop_spec(rel, OPT_WF, 'write_to', 0, """
            invariant items == opt_items(self.opt_codes@), tlv16_ok(items), 0 <= vx_it.index@ <= items.len(), items.len() == self.opt_codes@.len(),
                vx_it.seq() == self.opt_codes@.map(|i: int, x: OPTCode<'a>| &x),
                wrote(old(out), out, tlv16_enc(items.subrange(0, vx_it.index@ as int))), // @C09:options-encoded
""", iter_name='vx_it')
    c.ghost(rel, OPT_WF, 'write_to', "out.write_all(&code.data)?;", """
            proof {
                let i = vx_it.index@ as int;
                assert(items[i] == (code.code, code.data@));
                assert(items.subrange(0, i + 1).drop_last() =~= items.subrange(0, i));
                assert(items.subrange(0, i + 1).last() == items[i]);
            }
""", where='after')
    c.ghost(rel, OPT_WF, 'write_to', "Ok(())", "        proof { assert(items.subrange(0, items.len() as int) =~= items); }", where='before')

    for t, f, ext in [('TXT', 'txt', ('write_to', 'len')), ('SVCB', 'svcb', ('write_to', 'len')),
                      ('NSEC', 'nsec', ('write_to', 'len')), ('IPSECKEY', 'ipseckey', ('write_to', 'len')), ('NSAP', 'nsap', ('write_to', 'len'))]:
        rel = 'dns/rdata/%s.rs' % f
        wrap_type(c, rel, t, WEAK, external_trait_fns=('write_compressed_to',) + ext)
    for f in ('txt', 'svcb', 'nsec'):
        rel = 'dns/rdata/%s.rs' % f
        t = {'txt': 'TXT', 'opt': 'OPT', 'svcb': 'SVCB', 'nsec': 'NSEC'}[f]
        c.loop_spec(rel, impl_header(c, rel, t), 'parse', 0, LOOP_INV)
    c.wrap('dns/rdata/opt.rs', "pub mod masks {")
    c.wrap('dns/rdata/opt.rs', "pub struct OPTCode<'a> {")
    c.wrap('dns/rdata/nsec.rs', "pub struct TypeBitMap<'a> {")
    c.wrap('dns/rdata/ipseckey.rs', "pub enum Gateway<'a> {")
