"""Hand-written ghost definitions for the RDATA types with loops, unions or odd widths
(TXT, OPT, SVCB, NSEC, IPSECKEY, NSAP, NULL)."""
import re
from typed import wrap_type, list_fns, impl_header

WEAK = """    open spec fn wf_ok(&self) -> bool { true }
    closed spec fn wf_enc(&self) -> Seq<u8> { arbitrary() }
    open spec fn wf_dec(data: Seq<u8>, p: int, v: &Self, p2: int) -> bool { true }
"""

LOOP_INV = """
            invariant *position <= data.len(), data.len() <= isize::MAX,
            decreases data.len() - *position,
"""

def apply(c):
    # ---- LOC: the parser re-slices `data`; relate the sub-slices to the original buffer
    c.ghost('dns/rdata/loc.rs', "impl<'a> WireFormat<'a> for LOC {", 'parse', "let data = &data[*position..*position + 16];",
            "        let ghost d0 = data@;\n        let ghost p0 = *position as int;", where='before')
    c.ghost('dns/rdata/loc.rs', "impl<'a> WireFormat<'a> for LOC {", 'parse', "Ok(LOC {", """
        proof {
            assert(data@ == d0.subrange(p0, p0 + 16));
            assert(data@.subrange(4, 8) =~= d0.subrange(p0 + 4, p0 + 8));
            assert(data@.subrange(8, 12) =~= d0.subrange(p0 + 8, p0 + 12));
            assert(data@.subrange(12, 16) =~= d0.subrange(p0 + 12, p0 + 16));
        }
""", where='before')
    # ---- SOA::write_common
    c.contract('dns/rdata/soa.rs', "impl<'a> SOA<'a> {", 'write_common', """
        ensures r is Ok ==> wrote(old(out), final(out), enc_be(self.serial as nat, 4) + enc_be(i32_bits(self.refresh), 4)
            + enc_be(i32_bits(self.retry), 4) + enc_be(i32_bits(self.expire), 4) + enc_be(self.minimum as nat, 4)), // @C10:encoded-per-rfc
""")
    # ---- NULL
    rel = 'dns/rdata/null.rs'
    c.append(rel, """verus!{
impl<'a> NULL<'a> {
    pub closed spec fn dview(&self) -> Seq<u8> { self.data@ }
    pub closed spec fn lfield(&self) -> u16 { self.length }
}
}
""")
    wrap_type(c, rel, 'NULL', """    open spec fn wf_ok(&self) -> bool { self.lfield() as int == self.dview().len() }
    open spec fn wf_enc(&self) -> Seq<u8> { self.dview() }
    open spec fn wf_dec(data: Seq<u8>, p: int, v: &Self, p2: int) -> bool {
        p <= data.len() && v.dview() == data.subrange(p, data.len() as int) && p2 == data.len() && v.lfield() as int == v.dview().len()
    }
""", verified_inherent=('new',), external_trait_fns=())
    c.contract(rel, "impl<'a> NULL<'a> {", 'new', """
        ensures data.len() <= 65535 ==> r is Ok && r.unwrap().dview() == data@ && r.unwrap().lfield() as int == data.len(),
                data.len() > 65535 ==> r is Err,
""")
    # ---- weak for now
    for t, f, ext in [('TXT', 'txt', ('write_to', 'len')), ('OPT', 'opt', ('write_to', 'len')), ('SVCB', 'svcb', ('write_to', 'len')),
                      ('NSEC', 'nsec', ('write_to', 'len')), ('IPSECKEY', 'ipseckey', ('write_to', 'len')), ('NSAP', 'nsap', ('write_to', 'len'))]:
        rel = 'dns/rdata/%s.rs' % f
        wrap_type(c, rel, t, WEAK, external_trait_fns=('write_compressed_to',) + ext)
    for f in ('txt', 'opt', 'svcb', 'nsec'):
        rel = 'dns/rdata/%s.rs' % f
        t = {'txt': 'TXT', 'opt': 'OPT', 'svcb': 'SVCB', 'nsec': 'NSEC'}[f]
        c.loop_spec(rel, impl_header(c, rel, t), 'parse', 0, LOOP_INV)
    c.wrap('dns/rdata/opt.rs', "pub mod masks {")
    c.wrap('dns/rdata/opt.rs', "pub struct OPTCode<'a> {")
    c.wrap('dns/rdata/nsec.rs', "pub struct TypeBitMap<'a> {")
    c.wrap('dns/rdata/ipseckey.rs', "pub enum Gateway<'a> {")
