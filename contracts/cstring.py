"""Contracts for dns/character_string.rs (C01, C10, C02)."""
from typed import list_fns

CS_WF = "impl<'a> WireFormat<'a> for CharacterString<'a> {"
CS_IMPL = "impl<'a> CharacterString<'a> {"

def apply(c):
    rel = 'dns/character_string.rs'
    c.append(rel, """verus!{
impl<'a> CharacterString<'a> {
    /// ghost: the bytes of the string (without the length octet)
    pub closed spec fn bytes(&self) -> Seq<u8> { self.data@ }
}
}
""")
    for fn in list_fns(c, rel, CS_IMPL):
        if fn not in ('new', 'internal_new'):
            c.mark(rel, CS_IMPL, fn, '#[verifier::external]')
    # construction: at most 255 bytes or an error, never truncation
    c.contract(rel, CS_IMPL, 'new', """
        ensures
            (r is Ok) == (data@.len() <= 255), // @C10:over-long-string-refused
            r is Ok ==> r.unwrap().bytes() == data@ && r.unwrap().wf_ok(), // @C10:string-kept-as-given,C02:constructed-values-are-ok
""")
    c.contract(rel, CS_IMPL, 'internal_new', """
        ensures
            (r is Ok) == (data@.len() <= 255), // @C10:over-long-string-refused
            r is Ok ==> r.unwrap().bytes() == data@ && r.unwrap().wf_ok(), // @C10:string-kept-as-given,C02:constructed-values-are-ok
""", pre_body="\n        broadcast use crate::vx::vx_axioms;\n")
    c.wrap(rel, CS_IMPL)
    c.sub(rel, CS_WF, CS_WF + """
    open spec fn wf_ok(&self) -> bool { self.bytes().len() <= 255 }
    open spec fn wf_enc(&self) -> Seq<u8> { cs_enc(self.bytes()) }
    open spec fn wf_dec(data: Seq<u8>, p: int, v: &Self, p2: int) -> bool {
        p < data.len() && p + 1 + data[p] <= data.len() && v.bytes() == data.subrange(p + 1, p + 1 + data[p]) && p2 == p + 1 + data[p]
    }
    open spec fn wf_cdec(data: Seq<u8>, p: int, v: &Self, p2: int) -> bool { Self::wf_dec(data, p, v, p2) }
    open spec fn wf_canon(&self) -> bool { true }
    open spec fn wf_in_rdata() -> bool { true }
    open spec fn wf_nocomp() -> bool { false }
    open spec fn wf_eqv(&self, other: &Self) -> bool { self.bytes() == other.bytes() }
    proof fn lemma_det(data: Seq<u8>, p: int, v1: &Self, e1: int, v2: &Self, e2: int) {}
    open spec fn wf_fit(&self) -> bool { true }
    open spec fn wf_empty_ok() -> bool { false }
    proof fn lemma_dec_ok(data: Seq<u8>, p: int, v: &Self, p2: int) {}
    proof fn lemma_rt(&self, pre: Seq<u8>) {
        let d = pre + self.wf_enc();
        assert(d[pre.len() as int] == self.bytes().len() as u8);
        assert(d.subrange(pre.len() as int + 1, d.len() as int) =~= self.bytes());
    }
""")
    c.contract(rel, CS_WF, 'parse', """
        ensures r is Err ==> !(*old(position) < data.len() && *old(position) + 1 + data@[*old(position) as int] <= data.len()), // @C10:accepts-what-the-spec-decodes,C02:accepts-what-the-spec-decodes
""", pre_body="\n        let ghost d0 = data@;\n        let ghost p0 = *position as int;\n")
    c.ghost(rel, CS_WF, 'parse', "Ok(Self {", """
        proof {
            assert(data@ == d0.subrange(p0 + 1, p0 + 1 + length));
            assert(length == d0[p0]);
            assert(*position == p0 + 1 + d0[p0]);
            let cw: Cow<'a, [u8]> = Cow::Borrowed(data);
            assert(cw@ == data@);
            let cs = CharacterString { data: cw };
            assert(cs.bytes() == data@);
            assert(Self::wf_dec(d0, p0, &cs, *position as int));
        }
""", where='before')
    c.wrap(rel, CS_WF)
    # TryFrom<&str>: same rule as `new` on the UTF-8 bytes
    TF = "impl<'a> TryFrom<&'a str> for CharacterString<'a> {"
    c.contract(rel, TF, 'try_from', """
        ensures
            (r is Ok) == (vstd::string::StringSliceAdditionalSpecFns::spec_bytes(value).len() <= 255), // @C10:over-long-string-refused
            r is Ok ==> r.unwrap().bytes() == vstd::string::StringSliceAdditionalSpecFns::spec_bytes(value) && r.unwrap().wf_ok(), // @C10:string-kept-as-given
""")
    c.wrap(rel, TF)
    c.append(rel, """verus!{
impl<'a> vstd::std_specs::convert::TryFromSpecImpl<&'a str> for CharacterString<'a> {
    open spec fn obeys_try_from_spec() -> bool { false }
    open spec fn try_from_spec(v: &'a str) -> Result<Self, crate::SimpleDnsError> { arbitrary() }
}
}
""")
