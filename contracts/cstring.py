"""Contracts for dns/character_string.rs (C01, C10, C02)."""
from typed import list_fns

CS_WF = "impl<'a> WireFormat<'a> for CharacterString<'a> {"
CS_IMPL = "impl<'a> CharacterString<'a> {"

def apply(c):
    rel = 'dns/character_string.rs'
    c.append(rel, """verus!{
impl<'a> CharacterString<'a> {
    /// ghost: the bytes of the string (without the length octet)
    pub closed spec fn bytes(&self) -> Seq<u8> { self.data@ }
}
}
""")
    for fn in list_fns(c, rel, CS_IMPL):
        c.mark(rel, CS_IMPL, fn, '#[verifier::external]')
    c.wrap(rel, CS_IMPL)
    c.sub(rel, CS_WF, CS_WF + """
    open spec fn wf_ok(&self) -> bool { self.bytes().len() <= 255 }
    open spec fn wf_enc(&self) -> Seq<u8> { cs_enc(self.bytes()) }
    open spec fn wf_dec(data: Seq<u8>, p: int, v: &Self, p2: int) -> bool {
        p < data.len() && p + 1 + data[p] <= data.len() && v.bytes() == data.subrange(p + 1, p + 1 + data[p]) && p2 == p + 1 + data[p]
    }
    open spec fn wf_cdec(data: Seq<u8>, p: int, v: &Self, p2: int) -> bool { Self::wf_dec(data, p, v, p2) }
    open spec fn wf_canon(&self) -> bool { true }
    open spec fn wf_in_rdata() -> bool { true }
    open spec fn wf_nocomp() -> bool { false }
    proof fn lemma_rt(&self, pre: Seq<u8>) {
        let d = pre + self.wf_enc();
        assert(d[pre.len() as int] == self.bytes().len() as u8);
        assert(d.subrange(pre.len() as int + 1, d.len() as int) =~= self.bytes());
    }
""")
    c.contract(rel, CS_WF, 'parse', "", pre_body="\n        let ghost d0 = data@;\n        let ghost p0 = *position as int;\n")
    c.ghost(rel, CS_WF, 'parse', "Ok(Self {", """
        proof {
            assert(data@ == d0.subrange(p0 + 1, p0 + 1 + length));
            assert(length == d0[p0]);
            assert(*position == p0 + 1 + d0[p0]);
            let cw: Cow<'a, [u8]> = Cow::Borrowed(data);
            assert(cw@ == data@);
            let cs = CharacterString { data: cw };
            assert(cs.bytes() == data@);
            assert(Self::wf_dec(d0, p0, &cs, *position as int));
        }
""", where='before')
    c.wrap(rel, CS_WF)
