"""rdata_enum! / rr_wrapper! expansions (RData, TYPE, parse_rdata, the Name/CharacterString/SVCB wrappers)."""

def apply(c):
    rel = 'dns/rdata/macros.rs'
    m = c.rd(rel)
    # ---- rr_wrapper!: wrap the whole expansion
    c.sub(rel, "    (#[doc=$doc:expr] $t:ident: $w:ident = $c:literal) => {\n",
          "    (#[doc=$doc:expr] $t:ident: $w:ident = $c:literal) => {\n        verus!{\n")
    c.sub(rel, """        impl<'a> std::ops::DerefMut for $t<'a> {
            fn deref_mut(&mut self) -> &mut Self::Target {
                &mut self.0
            }
        }
    };""", """        impl<'a> std::ops::DerefMut for $t<'a> {
            #[verifier::external_body]
            fn deref_mut(&mut self) -> &mut Self::Target {
                &mut self.0
            }
        }
        }
    };""")
    c.sub(rel, "        impl<'a> WireFormat<'a> for $t<'a> {\n", """        impl<'a> WireFormat<'a> for $t<'a> {
            open spec fn wf_ok(&self) -> bool { self.0.wf_ok() }
            open spec fn wf_enc(&self) -> Seq<u8> { self.0.wf_enc() }
            open spec fn wf_dec(data: Seq<u8>, p: int, v: &Self, p2: int) -> bool { $w::wf_dec(data, p, &v.0, p2) }
""")
    # parse of the wrapper: `.map(|n| $t(n))` needs the closure result to be known
    c.sub(rel, "$w::parse(data, position).map(|n| $t(n))", "$w::parse(data, position).map(|n| -> (r: $t<'a>) ensures r.0 == n { $t(n) })")
    c.log.append(('closure-contract', rel, 'rr_wrapper parse: |n| $t(n) gets `ensures r.0 == n`'))
    # ---- rdata_enum!: wrap everything
    c.sub(rel, "    ($($i:tt$(<$x:lifetime>)?,)+) => {\n", "    ($($i:tt$(<$x:lifetime>)?,)+) => {\n        verus!{\n")
    c.sub(rel, """                    v => TYPE::Unknown(v),
                }
            }
        }
    }
}""", """                    v => TYPE::Unknown(v),
                }
            }
        }
        }
    }
}""")
    for sig in ["            fn write_compressed_to<T: std::io::Write + std::io::Seek>(",
                "            pub fn into_owned<'b>(self) -> RData<'b> {", "            pub fn into_owned<'b>(self) -> $t<'b> {"]:
        c.sub(rel, sig, "            #[verifier::external_body]\n" + sig, count=10)
    c.sub(rel, '            const TYPE_CODE: u16 = $c;', '            #[verifier::external_body]\n            const TYPE_CODE: u16 = $c;')
    c.sub(rel, '            fn from(value: u16) -> Self {', '            #[verifier::external_body]\n            fn from(value: u16) -> Self {')
    c.sub(rel, "        impl<'a> WireFormat<'a> for RData<'a> {\n", """        impl<'a> WireFormat<'a> for RData<'a> {
            open spec fn wf_ok(&self) -> bool {
                match self {
                    $( RData::$i(d) => d.wf_ok(), )+
                    RData::NULL(_, d) => d.wf_ok(),
                    RData::Empty(_) => true,
                }
            }
            open spec fn wf_enc(&self) -> Seq<u8> {
                match self {
                    $( RData::$i(d) => d.wf_enc(), )+
                    RData::NULL(_, d) => d.wf_enc(),
                    RData::Empty(_) => Seq::empty(),
                }
            }
            open spec fn wf_dec(data: Seq<u8>, p: int, v: &Self, p2: int) -> bool { true }
""")

    # ---- parse_rdata: same cursor contract as the trait
    c.contract(rel, None, 'parse_rdata', """
        requires *old(position) <= data.len(), data.len() <= isize::MAX,
        ensures r is Ok ==> *old(position) <= *final(position), // @C01:cursor-monotone
            r is Ok ==> *final(position) <= data.len(), // @C01:cursor-in-bounds
""")
