"""rdata_enum! / rr_wrapper! expansions (RData, TYPE, parse_rdata, the Name/CharacterString/SVCB wrappers)."""

def apply(c):
    rel = 'dns/rdata/macros.rs'
    m = c.rd(rel)
    # ---- rr_wrapper!: wrap the whole expansion
    c.sub(rel, "    (#[doc=$doc:expr] $t:ident: $w:ident = $c:literal) => {\n",
          "    (#[doc=$doc:expr] $t:ident: $w:ident = $c:literal) => {\n        verus!{\n")
    c.sub(rel, """        impl<'a> std::ops::DerefMut for $t<'a> {
            fn deref_mut(&mut self) -> &mut Self::Target {
                &mut self.0
            }
        }
    };""", """        impl<'a> std::ops::DerefMut for $t<'a> {
            #[verifier::external_body]
            fn deref_mut(&mut self) -> &mut Self::Target {
                &mut self.0
            }
        }
        }
    };""")
    c.sub(rel, "        impl<'a> WireFormat<'a> for $t<'a> {\n", """        impl<'a> WireFormat<'a> for $t<'a> {
            open spec fn wf_ok(&self) -> bool { self.0.wf_ok() }
            open spec fn wf_enc(&self) -> Seq<u8> { self.0.wf_enc() }
            open spec fn wf_dec(data: Seq<u8>, p: int, v: &Self, p2: int) -> bool { $w::wf_dec(data, p, &v.0, p2) }
            open spec fn wf_cdec(data: Seq<u8>, p: int, v: &Self, p2: int) -> bool { $w::wf_cdec(data, p, &v.0, p2) }
            open spec fn wf_canon(&self) -> bool { self.0.wf_canon() }
            open spec fn wf_in_rdata() -> bool { true }
            open spec fn wf_nocomp() -> bool { $w::wf_nocomp() }
            open spec fn wf_eqv(&self, other: &Self) -> bool { self.0.wf_eqv(&other.0) }
            proof fn lemma_det(data: Seq<u8>, p: int, v1: &Self, e1: int, v2: &Self, e2: int) { $w::lemma_det(data, p, &v1.0, e1, &v2.0, e2); }
            open spec fn wf_fit(&self) -> bool { self.0.wf_fit() }
            open spec fn wf_empty_ok() -> bool { $w::wf_empty_ok() }
            proof fn lemma_dec_ok(data: Seq<u8>, p: int, v: &Self, p2: int) { $w::lemma_dec_ok(data, p, &v.0, p2); }
            proof fn lemma_rt(&self, pre: Seq<u8>) { self.0.lemma_rt(pre); }
""")
    # parse of the wrapper: `.map(|n| $t(n))` needs the closure result to be known
    c.sub(rel, "$w::parse(data, position).map(|n| $t(n))", "$w::parse(data, position).map(|n| -> (r: $t<'a>) ensures r.0 == n { $t(n) })")
    c.log.append(('closure-contract', rel, 'rr_wrapper parse: |n| $t(n) gets `ensures r.0 == n`'))
    # ---- rdata_enum!: wrap everything
    c.sub(rel, "    ($($i:tt$(<$x:lifetime>)?,)+) => {\n", "    ($($i:tt$(<$x:lifetime>)?,)+) => {\n        verus!{\n")
    c.sub(rel, """                    v => TYPE::Unknown(v),
                }
            }
        }
    }
}""", """                    v => TYPE::Unknown(v),
                }
            }
        }
        }
    }
}""")
    for sig in ["            pub fn into_owned<'b>(self) -> RData<'b> {", "            pub fn into_owned<'b>(self) -> $t<'b> {"]:
        c.sub(rel, sig, "            #[verifier::external_body]\n" + sig, count=10)
    c.sub(rel, '            const TYPE_CODE: u16 = $c;', '            #[verifier::external_body]\n            const TYPE_CODE: u16 = $c;')
    c.sub(rel, '            fn from(value: u16) -> Self {', '            #[verifier::external_body]\n            fn from(value: u16) -> Self {')
    c.sub(rel, "        impl<'a> WireFormat<'a> for RData<'a> {\n", """        impl<'a> WireFormat<'a> for RData<'a> {
            open spec fn wf_ok(&self) -> bool {
                match self {
                    $( RData::$i(d) => d.wf_ok(), )+
                    RData::NULL(_, d) => d.wf_ok(),
                    RData::Empty(_) => true,
                }
            }
            /// a NULL / opaque record must not carry the code of a typed record, an empty record must not be OPT or carry an
            /// Unknown(code of a typed record): such values re-parse as a different variant
            open spec fn wf_canon(&self) -> bool {
                match self {
                    $( RData::$i(d) => d.wf_canon(), )+
                    RData::NULL(c, d) => d.wf_canon() && (type_of_code(*c) == TYPE::NULL || type_of_code(*c) == TYPE::Unknown(*c)),
                    RData::Empty(t) => *t != TYPE::OPT && type_of_code(code_of_type(*t)) == *t,
                }
            }
            open spec fn wf_enc(&self) -> Seq<u8> {
                match self {
                    $( RData::$i(d) => d.wf_enc(), )+
                    RData::NULL(_, d) => d.wf_enc(),
                    RData::Empty(_) => Seq::empty(),
                }
            }
            /// RFC 1035 3.2.1: TYPE(2) CLASS(2) TTL(4) RDLENGTH(2) RDATA(RDLENGTH); `p` is the offset of TYPE.
            /// The typed content is decoded from the message truncated at the end of the RDATA.
            open spec fn wf_dec(data: Seq<u8>, p: int, v: &Self, p2: int) -> bool {
                &&& 0 <= p && p + 10 <= data.len()
                &&& p2 == p + 10 + be16(data[p + 8], data[p + 9])
                &&& p2 <= data.len()
                &&& ({
                    let ty = type_of_code(be16(data[p], data[p + 1]));
                    let d2 = data.subrange(0, p2);
                    if ty == TYPE::OPT { v is OPT && rdata_dec(d2, p, ty, v, p2) }
                    else if p2 == p + 10 { *v == RData::Empty(ty) }
                    else { exists|p3: int| p + 10 <= p3 <= p2 && #[trigger] rdata_dec(d2, p + 10, ty, v, p3) }
                })
            }
            /// write_to emits only the RDATA: it decodes to the payload of the variant
            open spec fn wf_cdec(data: Seq<u8>, p: int, v: &Self, p2: int) -> bool {
                match v {
                    $( RData::$i(d) => $i::wf_cdec(data, p, d, p2), )+
                    RData::NULL(_, d) => NULL::wf_cdec(data, p, d, p2),
                    RData::Empty(_) => p2 == p,
                }
            }
            open spec fn wf_in_rdata() -> bool { true }
            open spec fn wf_nocomp() -> bool { false }
            open spec fn wf_eqv(&self, other: &Self) -> bool {
                match (self, other) {
                    $( (RData::$i(a), RData::$i(b)) => a.wf_eqv(b), )+
                    (RData::NULL(c1, a), RData::NULL(c2, b)) => c1 == c2 && a.wf_eqv(b),
                    (RData::Empty(t1), RData::Empty(t2)) => t1 == t2,
                    _ => false,
                }
            }
            proof fn lemma_det(data: Seq<u8>, p: int, v1: &Self, e1: int, v2: &Self, e2: int) {
                let ty = type_of_code(be16(data[p], data[p + 1]));
                let d2 = data.subrange(0, e1);
                if ty == TYPE::OPT {
                    lemma_rdata_dec_det(d2, p, ty, v1, e1, v2, e2);
                } else if e1 == p + 10 {
                } else {
                    let a = choose|p3: int| p + 10 <= p3 <= e1 && #[trigger] rdata_dec(d2, p + 10, ty, v1, p3);
                    let b = choose|p3: int| p + 10 <= p3 <= e1 && #[trigger] rdata_dec(d2, p + 10, ty, v2, p3);
                    lemma_rdata_dec_det(d2, p + 10, ty, v1, a, v2, b);
                }
            }
            open spec fn wf_fit(&self) -> bool { true }
            open spec fn wf_empty_ok() -> bool { true }
            proof fn lemma_dec_ok(data: Seq<u8>, p: int, v: &Self, p2: int) { lemma_rdata_wf_dec_ok(data, p, v, p2); }
            proof fn lemma_rt(&self, pre: Seq<u8>) {
                match self {
                    $( RData::$i(d) => { d.lemma_rt(pre); } )+
                    RData::NULL(_, d) => { d.lemma_rt(pre); }
                    RData::Empty(_) => {}
                }
            }
""")
    c.sub(rel, "        fn parse_rdata<'a>(", """        /// the typed value `v` is what the decoder of record type `ty` reads at data[p..], stopping at p2
        pub open spec fn rdata_dec(data: Seq<u8>, p: int, ty: TYPE, v: &RData, p2: int) -> bool {
            match v {
                $( RData::$i(d) => ty == TYPE::$i && $i::wf_dec(data, p, d, p2), )+
                RData::NULL(c, d) => (ty == TYPE::NULL || ty == TYPE::Unknown(*c)) && *c == code_of_type(ty) && NULL::wf_dec(data, p, d, p2),
                RData::Empty(_) => false,
            }
        }
        pub open spec fn rdata_cdec_opt(data: Seq<u8>, p: int, v: &RData, p2: int) -> bool {
            match v { RData::OPT(o) => OPT::wf_cdec(data, p, o, p2), _ => false }
        }
        /// IANA table: a code maps to a type that maps back to the code
        pub proof fn lemma_type_code_rt(x: u16) ensures code_of_type(type_of_code(x)) == x {}
        /// record-level: RDATA decoded from a DNS-sized message is within limits, canonical, and non-empty unless the record is
        /// an OPT record or has RDLENGTH 0
        pub proof fn lemma_rdata_wf_dec_ok(data: Seq<u8>, p: int, v: &RData, p2: int)
            requires RData::wf_dec(data, p, v, p2), 0 <= p < data.len() <= 65535
            ensures v.wf_ok(), v.wf_canon(), v is OPT || v is Empty || v.wf_enc().len() > 0
        {
            let x = be16(data[p], data[p + 1]);
            let ty = type_of_code(x);
            let d2 = data.subrange(0, p2);
            lemma_type_code_rt(x);
            if ty == TYPE::OPT {
                lemma_rdata_dec_ok(d2, p, ty, v, p2);
            } else if p2 == p + 10 {
            } else {
                let a = choose|p3: int| p + 10 <= p3 <= p2 && #[trigger] rdata_dec(d2, p + 10, ty, v, p3);
                lemma_rdata_dec_ok(d2, p + 10, ty, v, a);
                match v { RData::NULL(c, _) => { lemma_type_code_rt(*c); } _ => {} }
            }
        }
        /// typed content decoded from a DNS-sized message is within limits and canonical
        pub proof fn lemma_rdata_dec_ok(data: Seq<u8>, p: int, ty: TYPE, v: &RData, p2: int)
            requires rdata_dec(data, p, ty, v, p2), 0 <= p < data.len() <= 65535
            ensures v.wf_ok(), (match v { RData::NULL(_, d) => d.wf_canon(), RData::Empty(_) => true, _ => v.wf_canon() }),
                    v is OPT || v.wf_enc().len() > 0
        {
            match v {
                $( RData::$i(d) => { $i::lemma_dec_ok(data, p, d, p2); } )+
                RData::NULL(c, d) => { NULL::lemma_dec_ok(data, p, d, p2); }
                RData::Empty(_) => {}
            }
        }
        /// the typed decoders are deterministic, and a record type has one variant
        pub proof fn lemma_rdata_dec_det(data: Seq<u8>, p: int, ty: TYPE, v1: &RData, e1: int, v2: &RData, e2: int)
            requires rdata_dec(data, p, ty, v1, e1), rdata_dec(data, p, ty, v2, e2)
            ensures e1 == e2, v1.wf_eqv(v2)
        {
            match (v1, v2) {
                $( (RData::$i(a), RData::$i(b)) => { $i::lemma_det(data, p, a, e1, b, e2); } )+
                (RData::NULL(c1, a), RData::NULL(c2, b)) => { NULL::lemma_det(data, p, a, e1, b, e2); }
                _ => {}
            }
        }
        /// the payload-level decoding of a canonical value is the record-level typed decoding for its own type
        pub proof fn lemma_cdec_is_dec(v: &RData, data: Seq<u8>, p: int, p2: int)
            requires RData::wf_cdec(data, p, v, p2), v.wf_canon(), !(v is Empty), !(v is OPT)
            ensures rdata_dec(data, p, rdata_type(v), v, p2)
        {
            match v {
                $( RData::$i(d) => { assert($i::wf_cdec(data, p, d, p2)); } )+
                RData::NULL(c, d) => { }
                RData::Empty(_) => { }
            }
        }
        /// ghost: type of the record as denoted by its variant / stored code
        pub open spec fn rdata_type(v: &RData) -> TYPE {
            match v {
                $( RData::$i(_) => TYPE::$i, )+
                RData::NULL(c, _) => type_of_code(*c),
                RData::Empty(t) => *t,
            }
        }

        fn parse_rdata<'a>(""")
    c.contract(rel, "impl<'a> RData<'a> {", 'type_code', """
                ensures r == rdata_type(self), // @C18:type-code-denotes
""")
    # ---- Empty arm of RData::write_compressed_to: nothing is written, the window clause is the identity
    jb_e, be_e = c.body(rel, "impl<'a> WireFormat<'a> for RData<'a> {", 'write_compressed_to')
    s_e = c.rd(rel)
    k_e = s_e.find("RData::Empty(_) => { Ok(()) },", jb_e, be_e)
    if k_e < 0:
        raise __import__('xf').AnchorLost('%s: Empty arm of RData::write_compressed_to lost' % rel)
    c.wr(rel, s_e[:k_e] + """RData::Empty(_) => {
                        proof {
                            assert forall|wa: int, mp: Seq<u8>| 0 <= wa && wa + 2 <= io_buf(out).len() && #[trigger] agree_out(io_buf(out), mp, wa)
                                    && refs_ok(name_refs@, mp.subrange(0, io_buf(out).len() as int))
                                implies refs_ok(name_refs@, mp) && mp.len() == io_buf(out).len() by {
                                lemma_agree_prefix(io_buf(out), mp, wa, io_buf(out).len() as int);
                                assert(mp.subrange(0, mp.len() as int) =~= mp);
                            }
                        }
                        Ok(())
                    },""" + s_e[k_e + len("RData::Empty(_) => { Ok(()) },"):])
    # ---- R7: the 42 `?` of parse_rdata, desugared (Verus' encoding of Try::branch makes the 42-arm function intractable)
    c.sub(rel, "TYPE::$i => RData::$i($i::parse(data, position)?),",
          "TYPE::$i => RData::$i(match $i::parse(data, position) { Ok(vx_v) => vx_v, Err(vx_e) => return Err(vx_e) }),")
    c.log.append(('rewrite', rel, 'R7 x1 (parse_rdata arm: `E?` -> `match E { Ok(v) => v, Err(e) => return Err(e) }`; same error type, checked by rustc)'))
    # ---- parse_rdata: cursor contract + the typed decoder relation
    c.contract(rel, None, 'parse_rdata', """
        requires *old(position) <= data.len(), data.len() <= isize::MAX,
        ensures r is Ok ==> *old(position) <= *final(position), // @C01:cursor-monotone
            r is Ok ==> *final(position) <= data.len(), // @C01:cursor-in-bounds
            r is Ok ==> rdata_dec(data@, *old(position) as int, rdatatype, &r.unwrap(), *final(position) as int), // @C05:typed-content-decoded,C10:typed-content-decoded
            r is Err ==> forall|v: RData, e: int| !rdata_dec(data@, *old(position) as int, rdatatype, &v, e), // @C02:accepts-what-the-spec-decodes,C11:accepts-what-the-spec-decodes
""")
