"""C16: into_owned of every wire type preserves the ghost view (hence the serialisation); typed ones generated from the schema."""
import re
from schema import TYPES
from typed import impl_header, inherent_headers
from xf import AnchorLost

PRELUDE = """verus!{
pub uninterp spec fn cow_owned_rel<B: ?Sized + ToOwned>(c: Cow<B>, r: B::Owned) -> bool;
#[verifier::external_body]
pub broadcast proof fn axiom_cow_owned_bytes(c: Cow<[u8]>, r: Vec<u8>)
    ensures #[trigger] cow_owned_rel::<[u8]>(c, r) ==> r@ == c@ {}
pub assume_specification<'a, B: ?Sized + ToOwned> [std::borrow::Cow::<'a, B>::into_owned] (c: Cow<'a, B>) -> (r: <B as ToOwned>::Owned)
    ensures cow_owned_rel::<B>(c, r);
pub assume_specification<'a, T: Clone> [<Cow<'a, [T]> as std::convert::From<Vec<T>>>::from] (v: Vec<T>) -> (r: Cow<'a, [T]>)
    ensures r == Cow::<'a, [T]>::Owned(v);
}
"""

def unmark(c, rel, ctx, fn):
    s = c.rd(rel)
    k, decl, po, pc, jb, be = c.fn_range(rel, ctx, fn)
    seg = s[k:decl]
    seg2 = re.sub(r'[ \t]*#\[verifier::external(_body)?\]\n', '', seg)
    c.wr(rel, s[:k] + seg2 + s[decl:])
    c.externalised[:] = [e for e in c.externalised if not (e[0].startswith(rel) and e[0].endswith(':: ' + fn) and (ctx or '').strip().rstrip('{').strip() in e[0])]

def field_eq(kind, f):
    if kind == 'name':
        return 'r.%s.lv() == self.%s.lv()' % (f, f)
    if kind == 'cstr':
        return 'r.%s.bytes() == self.%s.bytes()' % (f, f)
    if kind == 'tail' or kind.startswith('bytes'):
        return 'r.%s@ == self.%s@' % (f, f)
    return 'r.%s == self.%s' % (f, f)

def apply(c):
    c.append('vx.rs', PRELUDE)
    s = c.rd('vx.rs')
    c.wr('vx.rs', s.replace("pub broadcast group vx_axioms { axiom_cow_deref_bytes,", "pub broadcast group vx_axioms { axiom_cow_owned_bytes, axiom_cow_deref_bytes,"))
    # move the group after the new axiom: simplest is to re-declare the group at the end
    s = c.rd('vx.rs')
    m = re.search(r'pub broadcast group vx_axioms \{[^}]*\}\n', s)
    grp = m.group(0)
    s = s.replace(grp, '')
    c.wr('vx.rs', s.rstrip() + '\nverus!{\n' + grp + '}\n')
    for tname, f, code, rfc, fields in TYPES:
        rel = 'dns/rdata/%s.rs' % f
        hs = [h for h in inherent_headers(c, rel, tname)]
        done = False
        for h in hs:
            try:
                c.fn_range(rel, h, 'into_owned')
            except AnchorLost:
                continue
            unmark(c, rel, h, 'into_owned')
            eqs = ', '.join(field_eq(k, fl) for k, fl in fields)
            c.contract(rel, h, 'into_owned', "        ensures %s, // @C16:owned-copy-has-the-same-fields\n            r.wf_enc() == self.wf_enc(), // @C16:owned-copy-serialises-identically\n" % eqs)
            done = True
            break
        if not done:
            raise AnchorLost('%s: into_owned of %s lost' % (rel, tname))
    # base types: iterator- or Into-based bodies stay external_body; their contract is assumed here and exercised by the
    # bounded stand-in `roundtrip` (into_owned of every parsed record compares / prints / hashes / serialises identically)
    for rel, ctx, ens in [
        ('dns/name.rs', "impl<'a> Name<'a> {", "r.lv() == self.lv()"),
        ('dns/name.rs', "impl<'a> Label<'a> {", "r.lview() == self.lview()"),
        ('dns/character_string.rs', "impl<'a> CharacterString<'a> {", "r.bytes() == self.bytes()"),
    ]:
        unmark(c, rel, ctx, 'into_owned')
        if 'Name' in ctx:
            c.collect_loop(rel, ctx, 'into_owned', "Label<'b>", """
                invariant vx_it.seq() == vx_l0, vx_out@.len() == vx_it.index@, vx_it.index@ <= vx_l0.len(),
                    forall|j: int| 0 <= j < vx_out@.len() ==> (#[trigger] vx_out@[j]).lview() == vx_l0[j].lview(),
""")
            c.contract(rel, ctx, 'into_owned', "        ensures %s, // @C16:owned-copy-has-the-same-view\n" % ens,
                       pre_body="\n        let ghost vx_l0 = self.labels@;\n        let ghost vx_lv0 = self.lv();\n")
            c.bind_tail(rel, ctx, 'into_owned', """
        proof {
            lemma_labels_view_len(vx_l0);
            lemma_labels_view_len(vx_r.labels@);
            assert(vx_r.lv() =~= vx_lv0);
        }
""")
            continue
        c.contract(rel, ctx, 'into_owned', "        ensures %s, // @C16:owned-copy-has-the-same-view\n" % ens,
                   pre_body="\n        broadcast use crate::vx::vx_axioms;\n")

    # hand-written types
    unmark(c, 'dns/rdata/null.rs', "impl<'a> NULL<'a> {", 'into_owned')
    c.contract('dns/rdata/null.rs', "impl<'a> NULL<'a> {", 'into_owned',
               "        ensures r.dview() == self.dview(), r.lfield() == self.lfield(), r.wf_enc() == self.wf_enc(), // @C16:owned-copy-serialises-identically\n")
    unmark(c, 'dns/rdata/nsap.rs', "impl NSAP {", 'into_owned')
    c.contract('dns/rdata/nsap.rs', "impl NSAP {", 'into_owned', "        ensures r == self, // @C16:owned-copy-has-the-same-fields\n")
    c.wrap('dns/rdata/ipseckey.rs', "impl<'a> Gateway<'a> {")
    c.contract('dns/rdata/ipseckey.rs', "impl<'a> Gateway<'a> {", 'into_owned',
               "        ensures gw_type(&r) == gw_type(&self), gw_enc(&r) == gw_enc(&self), // @C16:owned-copy-serialises-identically\n")
    unmark(c, 'dns/rdata/ipseckey.rs', "impl<'a> IPSECKEY<'a> {", 'into_owned')
    c.contract('dns/rdata/ipseckey.rs', "impl<'a> IPSECKEY<'a> {", 'into_owned',
               "        ensures r.precedence == self.precedence, r.algorithm == self.algorithm, r.public_key@ == self.public_key@, r.wf_enc() == self.wf_enc(), // @C16:owned-copy-serialises-identically\n")
    # TXT / OPT / NSEC: Vec-of-elements bodies, verified through R15
    c.wrap('dns/rdata/opt.rs', "impl<'a> OPTCode<'a> {")
    c.contract('dns/rdata/opt.rs', "impl<'a> OPTCode<'a> {", 'into_owned', "        ensures r.code == self.code, r.data@ == self.data@, // @C16:owned-copy-has-the-same-fields\n",
               pre_body="\n        broadcast use crate::vx::vx_axioms;\n")
    for rel, ctx, ens, elem, src, view, elem_eq, pre in [
        ('dns/rdata/txt.rs', "impl<'a> TXT<'a> {", "r.items() == self.items(), r.sz() == self.sz(), r.wf_enc() == self.wf_enc()",
         "CharacterString<'b>", 'self.strings@', 'txt_items', '(#[trigger] vx_out@[j]).bytes() == vx_l0[j].bytes()', ''),
        ('dns/rdata/opt.rs', "impl<'a> OPT<'a> {", "opt_items(r.opt_codes@) == opt_items(self.opt_codes@), r.udp_packet_size == self.udp_packet_size, r.version == self.version, r.wf_enc() == self.wf_enc()",
         "OPTCode<'b>", 'self.opt_codes@', 'opt_items', '(#[trigger] vx_out@[j]).code == vx_l0[j].code && vx_out@[j].data@ == vx_l0[j].data@', ''),
        ('dns/rdata/nsec.rs', "impl<'a> NSEC<'a> {", "r.next_name.lv() == self.next_name.lv(), nsec_items(r.type_bit_maps@) == nsec_items(self.type_bit_maps@), r.wf_enc() == self.wf_enc()",
         "TypeBitMap<'b>", 'self.type_bit_maps@', 'nsec_items', '(#[trigger] vx_out@[j]).window_block == vx_l0[j].window_block && vx_out@[j].bitmap@ == vx_l0[j].bitmap@',
         'broadcast use crate::vx::vx_axioms;'),
    ]:
        unmark(c, rel, ctx, 'into_owned')
        c.collect_loop(rel, ctx, 'into_owned', elem, """
                invariant vx_it.seq() == vx_l0, vx_out@.len() == vx_it.index@, vx_it.index@ <= vx_l0.len(),
                    forall|j: int| 0 <= j < vx_out@.len() ==> %s,
""" % elem_eq, body_post=(' ' + pre if False else ''))
        c.contract(rel, ctx, 'into_owned', "        ensures %s, // @C16:owned-copy-serialises-identically\n" % ens,
                   pre_body="\n        %s\n        let ghost vx_l0 = %s;\n        let ghost vx_v0 = %s(%s);\n" % (pre, src, view, src))
        field = src.split('.')[1].rstrip('@')
        c.bind_tail(rel, ctx, 'into_owned', """
        proof { assert(%s(vx_r.%s@) =~= vx_v0); }
""" % (view, field))
    # SVCB: BTreeMap based body, stays assumed
    for rel, ctx, ens in [
        ('dns/rdata/svcb.rs', "impl<'a> SVCB<'a> {", "r.prio() == self.prio(), r.tgt() == self.tgt(), r.wf_enc() == self.wf_enc()"),
    ]:
        unmark(c, rel, ctx, 'into_owned')
        c.mark(rel, ctx, 'into_owned', '#[verifier::external_body]')
        c.contract(rel, ctx, 'into_owned', "        ensures %s, // @C16:owned-copy-serialises-identically (assumed: BTreeMap iterator based body)\n" % ens)
    # rr_wrapper! and rdata_enum!
    rel = 'dns/rdata/macros.rs'
    c.sub(rel, "            #[verifier::external_body]\n            pub fn into_owned<'b>(self) -> $t<'b> {", "            pub fn into_owned<'b>(self) -> (r: $t<'b>)\n                ensures r.wf_enc() == self.wf_enc(), // @C16:owned-copy-serialises-identically\n            {")
    c.sub(rel, "            #[verifier::external_body]\n            pub fn into_owned<'b>(self) -> RData<'b> {", "            pub fn into_owned<'b>(self) -> (r: RData<'b>)\n                ensures r.wf_enc() == self.wf_enc(), rdata_type(&r) == rdata_type(&self), // @C16:owned-copy-serialises-identically\n            {")
    c.contracted += [rel + ' :: impl $t :: into_owned', rel + ' :: impl RData :: into_owned']
    # Question / ResourceRecord
    unmark(c, 'dns/question.rs', "impl<'a> Question<'a> {", 'into_owned')
    c.contract('dns/question.rs', "impl<'a> Question<'a> {", 'into_owned',
               "        ensures r.qname.lv() == self.qname.lv(), r.qtype == self.qtype, r.qclass == self.qclass, r.unicast_response == self.unicast_response, r.wf_enc() == self.wf_enc(), // @C16:owned-copy-serialises-identically\n")
    unmark(c, 'dns/resource_record.rs', "impl<'a> ResourceRecord<'a> {", 'into_owned')
    c.contract('dns/resource_record.rs', "impl<'a> ResourceRecord<'a> {", 'into_owned',
               "        ensures r.name.lv() == self.name.lv(), r.class == self.class, r.ttl == self.ttl, r.cache_flush == self.cache_flush, rdata_type(&r.rdata) == rdata_type(&self.rdata), r.rdata.wf_enc() == self.rdata.wf_enc(), // @C16:owned-copy-has-the-same-fields\n")
