"""Declarative RDATA schema written from the RFCs (DESIGN.md Appendix A) -- *not* from the code.

Field kinds:
  u8 u16 u32 i32 u128     big-endian integers
  bytesN                  fixed N octets
  name                    domain name (may be compressed when read)
  cstr                    <character-string>
  tail                    all remaining octets of the RDATA
Each entry: rust type name, file, IANA code, RFC, ordered fields (kind, rust field name), extra rules.
"""

TYPES = [
    # name,          file,            code, rfc,              fields
    ('A',            'a',             1,    'RFC1035 3.4.1',  [('u32', 'address')]),
    ('AAAA',         'aaaa',          28,   'RFC3596 2.2',    [('u128', 'address')]),
    ('AFSDB',        'afsdb',         18,   'RFC1183 1',      [('u16', 'subtype'), ('name', 'hostname')]),
    ('CAA',          'caa',           257,  'RFC8659 4.1',    [('u8', 'flag'), ('cstr', 'tag'), ('tail', 'value')]),
    ('CERT',         'cert',          37,   'RFC4398 2',      [('u16', 'type_code'), ('u16', 'key_tag'), ('u8', 'algorithm'), ('tail', 'certificate')]),
    ('DHCID',        'dhcid',         49,   'RFC4701 3.1',    [('u16', 'identifier'), ('u8', 'digest_type'), ('tail', 'digest')]),
    ('DNSKEY',       'dnskey',        48,   'RFC4034 2.1',    [('u16', 'flags'), ('u8', 'protocol'), ('u8', 'algorithm'), ('tail', 'public_key')]),
    ('DS',           'ds',            43,   'RFC4034 5.1',    [('u16', 'key_tag'), ('u8', 'algorithm'), ('u8', 'digest_type'), ('tail', 'digest')]),
    ('EUI48',        'eui',           108,  'RFC7043 3.1',    [('bytes6', 'address')]),
    ('EUI64',        'eui',           109,  'RFC7043 4.1',    [('bytes8', 'address')]),
    ('HINFO',        'hinfo',         13,   'RFC1035 3.3.2',  [('cstr', 'cpu'), ('cstr', 'os')]),
    ('ISDN',         'isdn',          20,   'RFC1183 3.2',    [('cstr', 'address'), ('cstr', 'sa')]),
    ('KX',           'kx',            36,   'RFC2230 3.1',    [('u16', 'preference'), ('name', 'exchanger')]),
    ('LOC',          'loc',           29,   'RFC1876 2',      [('u8', 'version'), ('u8', 'size'), ('u8', 'horizontal_precision'), ('u8', 'vertical_precision'),
                                                               ('i32', 'latitude'), ('i32', 'longitude'), ('i32', 'altitude')]),
    ('MINFO',        'minfo',         14,   'RFC1035 3.3.7',  [('name', 'rmailbox'), ('name', 'emailbox')]),
    ('MX',           'mx',            15,   'RFC1035 3.3.9',  [('u16', 'preference'), ('name', 'exchange')]),
    ('NAPTR',        'naptr',         35,   'RFC3403 4.1',    [('u16', 'order'), ('u16', 'preference'), ('cstr', 'flags'), ('cstr', 'services'),
                                                               ('cstr', 'regexp'), ('name', 'replacement')]),
    ('RouteThrough', 'route_through', 21,   'RFC1183 3.3',    [('u16', 'preference'), ('name', 'intermediate_host')]),
    ('RP',           'rp',            17,   'RFC1183 2.2',    [('name', 'mbox'), ('name', 'txt')]),
    ('RRSIG',        'rrsig',         46,   'RFC4034 3.1',    [('u16', 'type_covered'), ('u8', 'algorithm'), ('u8', 'labels'), ('u32', 'original_ttl'),
                                                               ('u32', 'signature_expiration'), ('u32', 'signature_inception'), ('u16', 'key_tag'),
                                                               ('name', 'signer_name'), ('tail', 'signature')]),
    ('SOA',          'soa',           6,    'RFC1035 3.3.13', [('name', 'mname'), ('name', 'rname'), ('u32', 'serial'), ('i32', 'refresh'), ('i32', 'retry'),
                                                               ('i32', 'expire'), ('u32', 'minimum')]),
    ('SRV',          'srv',           33,   'RFC2782',        [('u16', 'priority'), ('u16', 'weight'), ('u16', 'port'), ('name', 'target')]),
    ('WKS',          'wks',           11,   'RFC1035 3.4.2',  [('u32', 'address'), ('u8', 'protocol'), ('tail', 'bit_map')]),
    ('ZONEMD',       'zonemd',        63,   'RFC8976 2.2',    [('u32', 'serial'), ('u8', 'scheme'), ('u8', 'algorithm'), ('tail', 'digest')]),
]

# structural rules enforced on top of the layout (spec text over `v` / `self`)
RULES = {
    'LOC': {'dec': 'v.version == 0', 'ok': 'self.version == 0'},
}

# types with hand-written ghost definitions (loops, unions, odd widths); see contracts/hand_types.py
HAND = ['IPSECKEY', 'NSAP', 'NSEC', 'NULL', 'OPT', 'SVCB', 'TXT']

# rr_wrapper! types: (name, inner, code)
WRAPPERS = [('NS', 'Name', 2), ('MD', 'Name', 3), ('MF', 'Name', 4), ('CNAME', 'Name', 5), ('MB', 'Name', 7), ('MG', 'Name', 8),
            ('MR', 'Name', 9), ('PTR', 'Name', 12), ('X25', 'CharacterString', 19), ('NSAP_PTR', 'Name', 23), ('HTTPS', 'SVCB', 65)]

# IANA codes of every variant of rdata_enum! (independent table for the Kani TYPE harness)
IANA = {'A': 1, 'NS': 2, 'MD': 3, 'MF': 4, 'CNAME': 5, 'SOA': 6, 'MB': 7, 'MG': 8, 'MR': 9, 'NULL': 10, 'WKS': 11, 'PTR': 12,
        'HINFO': 13, 'MINFO': 14, 'MX': 15, 'TXT': 16, 'RP': 17, 'AFSDB': 18, 'ISDN': 20, 'RouteThrough': 21, 'NSAP': 22,
        'NSAP_PTR': 23, 'AAAA': 28, 'LOC': 29, 'SRV': 33, 'NAPTR': 35, 'KX': 36, 'CERT': 37, 'OPT': 41, 'DS': 43,
        'IPSECKEY': 45, 'RRSIG': 46, 'NSEC': 47, 'DNSKEY': 48, 'DHCID': 49, 'ZONEMD': 63, 'SVCB': 64, 'HTTPS': 65,
        'EUI48': 108, 'EUI64': 109, 'CAA': 257}

# names that MUST be written uncompressed (property C07)
NO_COMPRESSION = ['SRV', 'NAPTR', 'KX', 'RRSIG', 'NSEC', 'IPSECKEY', 'SVCB', 'HTTPS']

INT_WIDTH = {'u8': 1, 'u16': 2, 'u32': 4, 'i32': 4, 'u128': 16}
