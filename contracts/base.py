"""Base unit: brings the whole real crate under the Verus driver.

Wraps every wire-format type, the WireFormat trait, the enums/conversions of dns/mod.rs, the expansions of
rdata_enum!/rr_wrapper!, Question, ResourceRecord in verus!{} *in place*, installs the trait-level contract
(cursor discipline for parse, emission contract for write_to, len == |enc|) and the loop measures.
Per-type functional contracts are added by the other modules of this package.
"""
import re, os
from xf import AnchorLost

HDR = ("use vstd::prelude::*;\n#[allow(unused_imports)]\nuse crate::vx::*;\n"
       "#[allow(unused_imports)]\nuse crate::dns::wire_format::*;\n#[allow(unused_imports)]\nuse vstd::std_specs::iter::IteratorSpec;\n#[allow(unused_imports)]\nuse vstd::std_specs::hash::*;\n"
       "#[allow(unused_imports)]\nuse crate::dns::*;\n#[allow(unused_imports)]\nuse crate::dns::rdata::*;\n#[allow(unused_imports)]\nuse crate::dns::header::*;\n#[allow(unused_imports)]\nuse crate::dns::name::*;\n"
       "verus!{ broadcast use crate::vx::vx_axioms; }\n")

RDATA_FILES = ['a', 'aaaa', 'afsdb', 'caa', 'cert', 'dhcid', 'dnskey', 'ds', 'eui', 'hinfo', 'ipseckey', 'isdn',
               'kx', 'loc', 'minfo', 'mx', 'naptr', 'nsap', 'nsec', 'null', 'opt', 'route_through', 'rp', 'rrsig',
               'soa', 'srv', 'svcb', 'txt', 'wks', 'zonemd']

def add_header(c, rel, hdr=HDR):
    s = c.rd(rel)
    lines = s.split('\n')
    i = 0
    while i < len(lines) and (lines[i].startswith('//!') or lines[i].startswith('#![') or not lines[i].strip()):
        i += 1
    c.wr(rel, '\n'.join(lines[:i]) + ('\n' if i else '') + hdr + '\n'.join(lines[i:]))

def wrap_all(c, rel, extra=()):
    s = c.rd(rel)
    hdrs = re.findall(r"^pub (?:struct|enum) \w+[^\n]*\{", s, flags=re.M)
    hdrs += re.findall(r"^impl(?:<'a>)? WireFormat<'a> for [^\n]*\{", s, flags=re.M)
    hdrs += re.findall(r"^impl(?:<'a>)? RR for [^\n]*\{", s, flags=re.M)
    hdrs += list(extra)
    for h in hdrs:
        c.wrap(rel, h)
    return hdrs

PARSE_LOOP_INV = """            invariant *position <= data.len(), data.len() <= isize::MAX, p0 <= *position,
            decreases data.len() - *position,"""

def apply(c):
    # ---------------------------------------------------------------- prelude + lib.rs
    here = os.path.dirname(os.path.abspath(__file__))
    prelude = open(os.path.join(here, '..', 'vx', 'prelude', 'vx.rs')).read()
    c.wr('vx.rs', prelude)
    c.sub('lib.rs', "mod dns;", "#[allow(unused_imports)]\nuse vstd::prelude::*;\npub mod vx;\nmod dns;")

    # ---------------------------------------------------------------- error enum
    c.sub('simple_dns_error.rs', "/// Error types for SimpleDns\n#[derive(Debug, PartialEq, Eq)]",
          "use vstd::prelude::*;\nverus!{\n/// Error types for SimpleDns\n#[derive(Debug, PartialEq, Eq)]")
    c.sub('simple_dns_error.rs', "impl Error for SimpleDnsError {}", "}\nimpl Error for SimpleDnsError {}")
    c.sub('simple_dns_error.rs', "    fn from(_: TryFromSliceError) -> Self {",
          "    #[verifier::external_body]\n    fn from(_e: TryFromSliceError) -> (r: Self) ensures r == SimpleDnsError::InvalidDnsPacket {")
    c.sub('simple_dns_error.rs', "    fn from(_value: std::io::Error) -> Self {",
          "    #[verifier::external_body]\n    fn from(_value: std::io::Error) -> (r: Self) ensures r == SimpleDnsError::FailedToWrite {")

    # ---------------------------------------------------------------- dns/mod.rs: consts, enums, conversions
    c.sub('dns/mod.rs', "const MAX_LABEL_LENGTH: usize = 63;", "use vstd::prelude::*;\nverus!{\nconst MAX_LABEL_LENGTH: usize = 63;")
    c.sub('dns/mod.rs', "const MAX_SVC_PARAM_VALUE_LENGTH: usize = 65535;", "const MAX_SVC_PARAM_VALUE_LENGTH: usize = 65535;\n}")
    for hdr in ["pub enum QTYPE {", "pub enum CLASS {", "pub enum QCLASS {", "pub enum OPCODE {", "pub enum RCODE {",
                "impl From<TYPE> for QTYPE {", "impl TryFrom<u16> for QTYPE {", "impl TryFrom<u16> for CLASS {",
                "impl From<CLASS> for QCLASS {", "impl TryFrom<u16> for QCLASS {",
                "impl From<QTYPE> for u16 {", "impl From<QCLASS> for u16 {",
                "impl From<u16> for OPCODE {", "impl From<u16> for RCODE {"]:
        c.wrap('dns/mod.rs', hdr)
    c.sub('dns/mod.rs', "mod wire_format;", "pub(crate) mod wire_format;")

    # ---------------------------------------------------------------- trait WireFormat
    s = c.rd('dns/wire_format.rs')
    i = s.index("pub(crate) trait WireFormat")
    from xf import attrs_start
    k = attrs_start(s, i)
    s = s[:k] + "use vstd::prelude::*;\nuse crate::vx::*;\n#[allow(unused_imports)]\nuse crate::dns::name::*;\nverus!{\n" + s[k:].rstrip() + "\n}\n"
    s = s.replace("pub(crate) trait WireFormat", "pub trait WireFormat")  # R4
    c.wr('dns/wire_format.rs', s)
    c.log.append(('rewrite', 'dns/wire_format.rs', 'R4 x1'))
    c.sub('dns/wire_format.rs', "pub trait WireFormat<'a> {", """pub trait WireFormat<'a> {
    /// ghost: value is within DNS size limits / was assembled through the public constructors
    spec fn wf_ok(&self) -> bool;
    /// ghost: the uncompressed RFC wire encoding of the value
    spec fn wf_enc(&self) -> Seq<u8>;
    /// ghost: `v` is what an RFC decoder reads at data[p..] and p2 is where it stops
    spec fn wf_dec(data: Seq<u8>, p: int, v: &Self, p2: int) -> bool where Self: Sized;
    /// ghost: the bytes emitted by write_to / write_compressed_to at data[p..p2] decode to `v`
    /// (= wf_dec, except for RData whose parser starts at the 10-byte record header)
    spec fn wf_cdec(data: Seq<u8>, p: int, v: &Self, p2: int) -> bool where Self: Sized;
    /// ghost: the value is in the image of the parser (e.g. a TXT has at least one string, an opaque record does not carry
    /// the code of a typed one): only such values can read back identically
    spec fn wf_canon(&self) -> bool;
    /// ghost: values of this type are written inside an RDATA, i.e. possibly after the (not yet patched) RDLENGTH slot of
    /// the enclosing record: their compressed writer must be insensitive to a later patch of such a slot
    spec fn wf_in_rdata() -> bool where Self: Sized;
    /// ghost: the RFC of this type forbids compressing the names it contains (SRV NAPTR KX RRSIG NSEC IPSECKEY SVCB HTTPS)
    spec fn wf_nocomp() -> bool where Self: Sized;
    /// ghost: observational equality -- every ghost view of every field agrees (what derived PartialEq compares)
    spec fn wf_eqv(&self, other: &Self) -> bool;
    /// the decoder is a function: one value (up to wf_eqv) and one end offset per (data, p)
    proof fn lemma_det(data: Seq<u8>, p: int, v1: &Self, e1: int, v2: &Self, e2: int) where Self: Sized
        requires Self::wf_dec(data, p, v1, e1), Self::wf_dec(data, p, v2, e2),
        ensures e1 == e2, v1.wf_eqv(v2), // @C02:decoder-deterministic,C03:decoder-deterministic,C11:decoder-deterministic
    ;
    /// ghost: the value's encoding is representable (only ResourceRecord has a non-trivial answer: RDLENGTH is 16 bits and
    /// compression pointers inside a received RDATA may expand beyond it)
    spec fn wf_fit(&self) -> bool;
    /// everything the decoder yields from a DNS-sized message (and whose re-encoding is representable) is within limits and
    /// canonical, i.e. satisfies the preconditions of the writers: a parsed value can be written back
    proof fn lemma_dec_ok(data: Seq<u8>, p: int, v: &Self, p2: int) where Self: Sized
        requires Self::wf_dec(data, p, v, p2), 0 <= p < data.len() <= 65535, v.wf_fit(),
        ensures v.wf_ok(), v.wf_canon(), // @C11:parsed-values-can-be-written-back
                Self::wf_empty_ok() || v.wf_enc().len() > 0, // a decoded value has a non-empty encoding (it does not read back as an empty record)
    ;
    /// ghost: the type's encoding may be empty (only OPT: an OPT record without options has an empty RDATA)
    spec fn wf_empty_ok() -> bool where Self: Sized;
    /// round trip: the encoding of a value, appended to any prefix, decodes to that value
    proof fn lemma_rt(&self, pre: Seq<u8>) where Self: Sized
        requires self.wf_ok(), self.wf_canon(),
        ensures Self::wf_cdec(pre + self.wf_enc(), pre.len() as int, self, (pre + self.wf_enc()).len() as int), // @C02:decode-of-encode,C03:uncompressed-form-decodes
    ;
""")
    c.contract('dns/wire_format.rs', "pub trait WireFormat<'a> {", 'parse', """
        requires *old(position) <= data.len(), data.len() <= isize::MAX,
        ensures
            r is Ok ==> *old(position) <= *final(position), // @C01:cursor-monotone
            r is Ok ==> *final(position) <= data.len(), // @C01:cursor-in-bounds
            r is Ok ==> Self::wf_dec(data@, *old(position) as int, &r.unwrap(), *final(position) as int), // @C10:decoded-per-rfc,C02:decoded-per-rfc,C11:decoded-per-rfc
            r is Err ==> forall|v: Self, e: int| !Self::wf_dec(data@, *old(position) as int, &v, e), // @C02:accepts-what-the-spec-decodes,C11:accepts-what-the-spec-decodes,C10:accepts-what-the-spec-decodes
""")
    c.contract('dns/wire_format.rs', "pub trait WireFormat<'a> {", 'write_to', """
        requires self.wf_ok(),
        ensures r is Ok ==> wrote(old(out), final(out), self.wf_enc()), // @C10:encoded-per-rfc,C02:encoded-per-rfc,C04:emits-exactly-its-encoding,C11:encoded-per-rfc
""")
    c.contract('dns/wire_format.rs', "pub trait WireFormat<'a> {", 'len', """
        requires self.wf_ok(),
        ensures r == self.wf_enc().len(), // @C04:len-is-encoded-size
""")
    # default method of write_compressed_to = write_to: must meet the same contract as the compressing overrides
    s2 = c.rd('dns/wire_format.rs')
    old_sig = """    ) -> crate::Result<()> {
        self.write_to(out)
    }"""
    if old_sig not in s2:
        raise AnchorLost('dns/wire_format.rs: default write_compressed_to body lost')
    new_sig = """    ) -> (r: crate::Result<()>)
        where Self: Sized
        requires
            self.wf_ok(), self.wf_canon(), at_end(old(out)), io_buf(old(out)).len() + self.wf_enc().len() <= 0x7fff_ffff,
            refs_ok(old(_name_refs)@, io_buf(old(out))),
        ensures
            r is Ok ==> io_buf(final(out)).len() >= io_buf(old(out)).len()
                && io_buf(final(out)).subrange(0, io_buf(old(out)).len() as int) =~= io_buf(old(out)), // @C04:only-appends
            r is Ok ==> at_end(final(out)),
            r is Ok ==> refs_ok(final(_name_refs)@, io_buf(final(out))), // @C03:suffix-table-valid,C07:suffix-table-valid
            r is Ok ==> Self::wf_cdec(io_buf(final(out)), io_buf(old(out)).len() as int, self, io_buf(final(out)).len() as int), // @C03:compressed-form-decodes,C07:pointers-expand-to-the-name
            r is Ok ==> io_buf(final(out)).len() - io_buf(old(out)).len() <= self.wf_enc().len(), // @C03:never-longer
            r is Ok ==> (self.wf_enc().len() > 0 ==> io_buf(final(out)).len() > io_buf(old(out)).len()),
            r is Ok ==> (Self::wf_in_rdata() ==> forall|wa: int, mp: Seq<u8>| 0 <= wa && wa + 2 <= io_buf(old(out)).len()
                    && #[trigger] agree_out(io_buf(final(out)), mp, wa) && refs_ok(old(_name_refs)@, mp.subrange(0, io_buf(old(out)).len() as int))
                ==> refs_ok(final(_name_refs)@, mp) && Self::wf_cdec(mp, io_buf(old(out)).len() as int, self, mp.len() as int)), // @C03:insensitive-to-rdlength-patch
            r is Ok ==> (Self::wf_nocomp() ==> io_buf(final(out)) =~= io_buf(old(out)) + self.wf_enc()), // @C07:written-in-full
    {
        let ghost vx_m0 = io_buf(out);
        proof {
            self.lemma_rt(io_buf(out));
            lemma_refs_append(_name_refs@, io_buf(out), self.wf_enc());
        }
        let vx_r = self.write_to(out);
        proof {
            if vx_r is Ok {
                assert(io_buf(out) =~= vx_m0 + self.wf_enc());
                assert forall|wa: int, mp: Seq<u8>| 0 <= wa && wa + 2 <= vx_m0.len() && #[trigger] agree_out(io_buf(out), mp, wa)
                        && refs_ok(_name_refs@, mp.subrange(0, vx_m0.len() as int))
                    implies refs_ok(_name_refs@, mp) && Self::wf_cdec(mp, vx_m0.len() as int, self, mp.len() as int) by {
                    lemma_agree_suffix(vx_m0, self.wf_enc(), mp, wa);
                    let m0x = mp.subrange(0, vx_m0.len() as int);
                    lemma_refs_append(_name_refs@, m0x, self.wf_enc());
                    self.lemma_rt(m0x);
                }
            }
        }
        vx_r
    }"""
    c.wr('dns/wire_format.rs', s2.replace(old_sig, new_sig))
    c.log.append(('contract', 'dns/wire_format.rs', 'trait WireFormat / write_compressed_to (default method)'))
    c.sub('dns/wire_format.rs', "verus!{\n", """verus!{
/// post-state of a compressing writer: only appended bytes, stream at its end, reference table still valid,
/// the appended bytes decode to `v` (transparency) and are never longer than the uncompressed encoding
pub open spec fn cw_ok<'a, V: WireFormat<'a>, T: ?Sized>(o0: &T, o1: &T, refs1: Map<&'a [Label<'a>], usize>, v: &V) -> bool {
    let m0 = io_buf(o0); let m1 = io_buf(o1);
    &&& m1.len() >= m0.len() && m1.subrange(0, m0.len() as int) =~= m0
    &&& at_end(o1)
    &&& refs_ok(refs1, m1)
    &&& V::wf_cdec(m1, m0.len() as int, v, m1.len() as int)
    &&& m1.len() - m0.len() <= v.wf_enc().len()
}
""", count=1)

    # ---------------------------------------------------------------- name.rs
    add_header(c, 'dns/name.rs', HDR.replace("#[allow(unused_imports)]\nuse crate::dns::name::*;\n", ""))
    c.rules('dns/name.rs')
    c.wrap_span('dns/name.rs', "const POINTER_MASK: u8", "const POINTER_MASK_U16: u16 = 0b1100_0000_0000_0000;")
    c.wrap('dns/name.rs', "pub struct Name<'a> {")
    c.wrap('dns/name.rs', "pub struct Label<'a> {")

    # ---------------------------------------------------------------- character_string.rs
    add_header(c, 'dns/character_string.rs')
    c.rules('dns/character_string.rs')
    c.wrap('dns/character_string.rs', "pub struct CharacterString<'a> {")

    # ---------------------------------------------------------------- rdata files
    for f in RDATA_FILES:
        rel = 'dns/rdata/%s.rs' % f
        add_header(c, rel)
        c.rules(rel)
    c.sub('dns/rdata/mod.rs', 'use crate::CharacterString;',
          'use crate::CharacterString;\nuse vstd::prelude::*;\n#[allow(unused_imports)]\nuse crate::vx::*;\n#[allow(unused_imports)]\nuse crate::dns::wire_format::*;\n#[allow(unused_imports)]\nuse crate::dns::name::*;')
    c.wrap('dns/rdata/mod.rs', "pub(crate) trait RR {")
    c.rules('dns/rdata/macros.rs')
    for rel in ['dns/question.rs', 'dns/resource_record.rs', 'dns/packet.rs', 'dns/header.rs']:
        add_header(c, rel, HDR.replace("#[allow(unused_imports)]\nuse crate::dns::header::*;\n", "") if rel == 'dns/header.rs' else HDR)
        c.rules(rel)
