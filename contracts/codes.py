"""Conversions between 16-bit codes and TYPE / CLASS / QTYPE / QCLASS / OPCODE / RCODE (C18, C08).

The spec side (`*_spec` functions) is written from the IANA / RFC tables (schema.IANA); the exec bodies are the
real ones.  `From<u16> for TYPE` and `From<TYPE> for u16` use associated consts in patterns, which Verus cannot
read: they stay external_body here (assumed to meet from_spec) and are *proved* against the same table by the
loop-free Kani harness `type_table_all_codes` (kani/harness.rs)."""
from schema import IANA

def spec_tables():
    arms_of = '\n'.join('        %d => TYPE::%s,' % (code, name) for name, code in sorted(IANA.items(), key=lambda kv: kv[1]))
    arms_to = '\n'.join('        TYPE::%s => %d,' % (name, code) for name, code in sorted(IANA.items(), key=lambda kv: kv[1]))
    return """verus!{
/// IANA "Resource Record (RR) TYPEs" registry restricted to the types this crate implements
pub open spec fn type_of_code(v: u16) -> TYPE {
    match v {
%s
        v => TYPE::Unknown(v),
    }
}
pub open spec fn code_of_type(t: TYPE) -> u16 {
    match t {
%s
        TYPE::Unknown(x) => x,
    }
}
// derived PartialEq is structural (assumption "derived impls are structural")
impl vstd::std_specs::cmp::PartialEqSpecImpl for TYPE {
    open spec fn obeys_eq_spec() -> bool { true }
    open spec fn eq_spec(&self, other: &TYPE) -> bool { *self == *other }
}
impl vstd::std_specs::convert::FromSpecImpl<u16> for TYPE {
    open spec fn obeys_from_spec() -> bool { true }
    open spec fn from_spec(v: u16) -> Self { type_of_code(v) }
}
impl vstd::std_specs::convert::FromSpecImpl<TYPE> for u16 {
    open spec fn obeys_from_spec() -> bool { true }
    open spec fn from_spec(v: TYPE) -> Self { code_of_type(v) }
}
}
""" % (arms_of, arms_to)

MOD_SPECS = """verus!{
// derived PartialEq is structural (assumption "derived impls are structural")
impl vstd::std_specs::cmp::PartialEqSpecImpl for QTYPE {
    open spec fn obeys_eq_spec() -> bool { true }
    open spec fn eq_spec(&self, other: &QTYPE) -> bool { *self == *other }
}
impl vstd::std_specs::cmp::PartialEqSpecImpl for CLASS {
    open spec fn obeys_eq_spec() -> bool { true }
    open spec fn eq_spec(&self, other: &CLASS) -> bool { *self == *other }
}
impl vstd::std_specs::cmp::PartialEqSpecImpl for QCLASS {
    open spec fn obeys_eq_spec() -> bool { true }
    open spec fn eq_spec(&self, other: &QCLASS) -> bool { *self == *other }
}
impl vstd::std_specs::cmp::PartialEqSpecImpl for OPCODE {
    open spec fn obeys_eq_spec() -> bool { true }
    open spec fn eq_spec(&self, other: &OPCODE) -> bool { *self == *other }
}
impl vstd::std_specs::cmp::PartialEqSpecImpl for RCODE {
    open spec fn obeys_eq_spec() -> bool { true }
    open spec fn eq_spec(&self, other: &RCODE) -> bool { *self == *other }
}
impl vstd::std_specs::convert::FromSpecImpl<TYPE> for QTYPE {
    open spec fn obeys_from_spec() -> bool { true }
    open spec fn from_spec(v: TYPE) -> Self { QTYPE::TYPE(v) }
}
/// RFC 1035 3.2.3 QTYPE values
pub open spec fn qtype_of_code(v: u16) -> Result<QTYPE, crate::SimpleDnsError> {
    if v == 251 { Ok(QTYPE::IXFR) } else if v == 252 { Ok(QTYPE::AXFR) } else if v == 253 { Ok(QTYPE::MAILB) }
    else if v == 254 { Ok(QTYPE::MAILA) } else if v == 255 { Ok(QTYPE::ANY) }
    else { match crate::dns::rdata::type_of_code(v) {
        TYPE::Unknown(_) => Err(crate::SimpleDnsError::InvalidQType(v)),
        ty => Ok(QTYPE::TYPE(ty)),
    } }
}
impl vstd::std_specs::convert::TryFromSpecImpl<u16> for QTYPE {
    open spec fn obeys_try_from_spec() -> bool { true }
    open spec fn try_from_spec(v: u16) -> Result<Self, crate::SimpleDnsError> { qtype_of_code(v) }
}
pub open spec fn code_of_qtype(q: QTYPE) -> u16 {
    match q { QTYPE::TYPE(t) => crate::dns::rdata::code_of_type(t), QTYPE::IXFR => 251, QTYPE::AXFR => 252, QTYPE::MAILB => 253,
              QTYPE::MAILA => 254, QTYPE::ANY => 255 }
}
impl vstd::std_specs::convert::FromSpecImpl<QTYPE> for u16 {
    open spec fn obeys_from_spec() -> bool { true }
    open spec fn from_spec(v: QTYPE) -> Self { code_of_qtype(v) }
}
/// RFC 1035 3.2.4 CLASS values (+ NONE of RFC 2136)
pub open spec fn class_of_code(v: u16) -> Result<CLASS, crate::SimpleDnsError> {
    if v == 1 { Ok(CLASS::IN) } else if v == 2 { Ok(CLASS::CS) } else if v == 3 { Ok(CLASS::CH) } else if v == 4 { Ok(CLASS::HS) }
    else if v == 254 { Ok(CLASS::NONE) } else { Err(crate::SimpleDnsError::InvalidClass(v)) }
}
pub open spec fn code_of_class(c: CLASS) -> u16 {
    match c { CLASS::IN => 1, CLASS::CS => 2, CLASS::CH => 3, CLASS::HS => 4, CLASS::NONE => 254 }
}
impl vstd::std_specs::convert::TryFromSpecImpl<u16> for CLASS {
    open spec fn obeys_try_from_spec() -> bool { true }
    open spec fn try_from_spec(v: u16) -> Result<Self, crate::SimpleDnsError> { class_of_code(v) }
}
impl vstd::std_specs::convert::FromSpecImpl<CLASS> for QCLASS {
    open spec fn obeys_from_spec() -> bool { true }
    open spec fn from_spec(v: CLASS) -> Self { QCLASS::CLASS(v) }
}
pub open spec fn qclass_of_code(v: u16) -> Result<QCLASS, crate::SimpleDnsError> {
    if v == 255 { Ok(QCLASS::ANY) } else { match class_of_code(v) { Ok(c) => Ok(QCLASS::CLASS(c)), Err(e) => Err(e) } }
}
pub open spec fn code_of_qclass(q: QCLASS) -> u16 {
    match q { QCLASS::CLASS(c) => code_of_class(c), QCLASS::ANY => 255 }
}
impl vstd::std_specs::convert::TryFromSpecImpl<u16> for QCLASS {
    open spec fn obeys_try_from_spec() -> bool { true }
    open spec fn try_from_spec(v: u16) -> Result<Self, crate::SimpleDnsError> { qclass_of_code(v) }
}
impl vstd::std_specs::convert::FromSpecImpl<QCLASS> for u16 {
    open spec fn obeys_from_spec() -> bool { true }
    open spec fn from_spec(v: QCLASS) -> Self { code_of_qclass(v) }
}
/// RFC 1035 4.1.1 / RFC 6895 OPCODE and RCODE registries (named values only)
pub open spec fn opcode_of_code(v: u16) -> OPCODE {
    if v == 0 { OPCODE::StandardQuery } else if v == 1 { OPCODE::InverseQuery } else if v == 2 { OPCODE::ServerStatusRequest }
    else if v == 4 { OPCODE::Notify } else if v == 5 { OPCODE::Update } else { OPCODE::Reserved }
}
impl vstd::std_specs::convert::FromSpecImpl<u16> for OPCODE {
    open spec fn obeys_from_spec() -> bool { true }
    open spec fn from_spec(v: u16) -> Self { opcode_of_code(v) }
}
pub open spec fn rcode_of_code(v: u16) -> RCODE {
    if v == 0 { RCODE::NoError } else if v == 1 { RCODE::FormatError } else if v == 2 { RCODE::ServerFailure }
    else if v == 3 { RCODE::NameError } else if v == 4 { RCODE::NotImplemented } else if v == 5 { RCODE::Refused }
    else if v == 6 { RCODE::YXDOMAIN } else if v == 7 { RCODE::YXRRSET } else if v == 8 { RCODE::NXRRSET }
    else if v == 9 { RCODE::NOTAUTH } else if v == 10 { RCODE::NOTZONE } else if v == 16 { RCODE::BADVERS } else { RCODE::Reserved }
}
impl vstd::std_specs::convert::FromSpecImpl<u16> for RCODE {
    open spec fn obeys_from_spec() -> bool { true }
    open spec fn from_spec(v: u16) -> Self { rcode_of_code(v) }
}
}
"""

def apply(c):
    c.sub('dns/mod.rs', "v => CLASS::try_from(v).map(|x| x.into()),",
          "v => CLASS::try_from(v).map(|x: CLASS| -> (r: QCLASS) ensures r == QCLASS::CLASS(x) { x.into() }),")
    c.log.append(('closure-contract', 'dns/mod.rs', 'QCLASS::try_from: |x| x.into() gets `ensures r == QCLASS::CLASS(x)`'))
    c.sub('dns/rdata/macros.rs', '            fn from(value: TYPE) -> Self {', '            #[verifier::external_body]\n            fn from(value: TYPE) -> Self {')
    # Verus limitation (measured, see DESIGN.md "Changes"): as soon as any spec function refers statically to
    # Question::wf_dec / ResourceRecord::wf_dec (needed for the C05 section chains), the proofs of these seven one-line
    # conversions lose the axioms of their own *SpecImpl (call-graph cycle through the impl's exec bodies).  They are
    # therefore assumed in Verus (external_body, contract = the *_spec tables below) and proved -- completely, over all
    # 65536 codes -- by the loop-free Kani harnesses class_table_all_codes / qclass_table_all_codes / qtype_table_all_codes.
    for hdr in ["impl From<TYPE> for QTYPE {", "impl TryFrom<u16> for QTYPE {", "impl TryFrom<u16> for CLASS {",
                "impl From<CLASS> for QCLASS {", "impl TryFrom<u16> for QCLASS {", "impl From<QTYPE> for u16 {", "impl From<QCLASS> for u16 {"]:
        fn = 'try_from' if 'TryFrom' in hdr else 'from'
        c.mark('dns/mod.rs', hdr, fn, '#[verifier::external_body]')
    c.append('dns/rdata/mod.rs', spec_tables())
    c.append('dns/mod.rs', MOD_SPECS)
    # rr_wrapper: From<$w> for $t
    c.sub('dns/rdata/macros.rs', "        impl<'a> From<$w<'a>> for $t<'a> {", """        impl<'a> vstd::std_specs::convert::FromSpecImpl<$w<'a>> for $t<'a> {
            open spec fn obeys_from_spec() -> bool { true }
            open spec fn from_spec(v: $w<'a>) -> Self { $t(v) }
        }
        impl<'a> From<$w<'a>> for $t<'a> {""")
