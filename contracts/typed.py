"""Schema-driven contracts for the straight-line RDATA types (DESIGN.md 2.6).

For each type of schema.TYPES: wrap struct / RR impl / WireFormat impl / inherent impl in verus!{} and emit the
ghost items wf_ok / wf_enc / wf_dec from the RFC field list.  The trait-level contract of WireFormat
(contracts/base.py) then makes   parse => wf_dec,   write_to => wrote(.., wf_enc),   len == |wf_enc|
proof obligations on the *real* bodies.
"""
import re
from schema import TYPES, RULES, INT_WIDTH
from xf import AnchorLost

def enc_term(kind, f, recv='self'):
    x = '%s.%s' % (recv, f)
    if kind == 'u8':
        return 'seq![%s]' % x
    if kind in ('u16', 'u32', 'u128'):
        return 'enc_be(%s as nat, %d)' % (x, INT_WIDTH[kind])
    if kind == 'i32':
        return 'enc_be(i32_bits(%s), 4)' % x
    if kind.startswith('bytes'):
        return '%s@' % x
    if kind == 'name':
        return 'name_enc(%s.lv())' % x
    if kind == 'cstr':
        return 'cs_enc(%s.bytes())' % x
    if kind == 'tail':
        return '%s@' % x
    raise ValueError(kind)

def ok_term(kind, f, recv='self'):
    x = '%s.%s' % (recv, f)
    if kind == 'name':
        return 'name_ok(%s.lv())' % x
    if kind == 'cstr':
        return '%s.bytes().len() <= 255' % x
    if kind == 'tail':
        return '%s@.len() <= 65535' % x
    return None

def eqv_term(kind, f):
    a, b = 'self.%s' % f, 'other.%s' % f
    if kind in ('u8', 'u16', 'u32', 'u128', 'i32'):
        return '%s == %s' % (a, b)
    if kind.startswith('bytes') or kind == 'tail':
        return '%s@ == %s@' % (a, b)
    if kind == 'name':
        return '%s.lv() == %s.lv()' % (a, b)
    if kind == 'cstr':
        return '%s.bytes() == %s.bytes()' % (a, b)
    raise ValueError(kind)

def dec_steps(fields, v='v'):
    """list of (condition, next_q_expr) over data, q"""
    steps = []
    for kind, f in fields:
        x = '%s.%s' % (v, f)
        if kind == 'u8':
            steps.append(('q + 1 <= data.len() && %s == data[q]' % x, 'q + 1'))
        elif kind in ('u16', 'u32', 'u128'):
            n = INT_WIDTH[kind]
            steps.append(('q + %d <= data.len() && %s as nat == be_nat(data.subrange(q, q + %d))' % (n, x, n), 'q + %d' % n))
        elif kind == 'i32':
            steps.append(('q + 4 <= data.len() && i32_bits(%s) == be_nat(data.subrange(q, q + 4))' % x, 'q + 4'))
        elif kind.startswith('bytes'):
            n = int(kind[5:])
            steps.append(('q + %d <= data.len() && %s@ == data.subrange(q, q + %d)' % (n, x, n), 'q + %d' % n))
        elif kind == 'name':
            steps.append(('dec_labels(data, q, 0) == Some(%s.lv())' % x, 'q + inplace_len(data, q)'))
        elif kind == 'cstr':
            steps.append(('q < data.len() && q + 1 + data[q] <= data.len() && %s.bytes() == data.subrange(q + 1, q + 1 + data[q])' % x,
                          'q + 1 + data[q]'))
        elif kind == 'tail':
            steps.append(('q <= data.len() && %s@ == data.subrange(q, data.len() as int)' % x, 'data.len() as int'))
        else:
            raise ValueError(kind)
    return steps

def ghost_items(tname, fields):
    oks = [t for t in (ok_term(k, f) for k, f in fields) if t]
    rule = RULES.get(tname, {})
    if rule.get('ok'):
        oks.append(rule['ok'])
    ok = ' && '.join(oks) if oks else 'true'
    enc = ' + '.join(enc_term(k, f) for k, f in fields)
    steps = dec_steps(fields)
    body = ''
    close = ''
    for i, (cond, nxt) in enumerate(steps):
        body += '        (%s) && {\n        let q = %s;\n' % (cond, nxt)
        close += '}'
    extra = (' && ' + rule['dec']) if rule.get('dec') else ''
    body += '        p2 == q%s\n        %s\n' % (extra, close)
    return ("""    open spec fn wf_ok(&self) -> bool { %s }
    open spec fn wf_enc(&self) -> Seq<u8> { %s }
    open spec fn wf_dec(data: Seq<u8>, p: int, v: &Self, p2: int) -> bool {
        let q = p;
%s    }
%s""" % (ok, enc, body, rt_items(tname, fields)))

def len_term(kind, f, recv='self'):
    x = '%s.%s' % (recv, f)
    if kind == 'u8':
        return '1'
    if kind in INT_WIDTH:
        return str(INT_WIDTH[kind])
    if kind.startswith('bytes'):
        return kind[5:]
    if kind == 'name':
        return '(wl(%s.lv()) + 1)' % x
    if kind == 'cstr':
        return '(1 + %s.bytes().len())' % x
    if kind == 'tail':
        return '%s@.len()' % x
    raise ValueError(kind)

def rt_items(tname, fields, nocomp=None):
    """wf_cdec / wf_canon / wf_nocomp and the generated round-trip proof: decode(pre + encode(v)) relates to v.
    One isolated `assert(<decoder conjunct>) by { ... }` per field keeps every SMT query small."""
    from schema import NO_COMPRESSION
    nc = 'true' if tname in NO_COMPRESSION else 'false'
    steps = dec_steps(fields, v='self')
    lines = ['        lemma_pow256_vals();', '        let d = pre + self.wf_enc();', '        let q0 = pre.len() as int;']
    for i, (kind, f) in enumerate(fields):
        x = 'self.%s' % f
        q = 'q%d' % i
        lines.append('        let q%d = %s + %s;' % (i + 1, q, len_term(kind, f)))
    for i, (kind, f) in enumerate(fields):
        x = 'self.%s' % f
        q = 'q%d' % i
        cond = re.sub(r'\bdata\b', 'd', steps[i][0])
        cond = re.sub(r'\bq\b', q, cond)
        hints = []
        if kind == 'u8':
            pass
        elif kind in ('u16', 'u32', 'u128', 'i32'):
            n = INT_WIDTH[kind]
            val = 'i32_bits(%s)' % x if kind == 'i32' else '%s as nat' % x
            hints.append('lemma_be_enc(%s, %d);' % (val, n))
            hints.append('assert(d.subrange(%s, %s + %d) =~= enc_be(%s, %d));' % (q, q, n, val, n))
        elif kind.startswith('bytes'):
            n = int(kind[5:])
            hints.append('assert(d.subrange(%s, %s + %d) =~= %s@);' % (q, q, n, x))
        elif kind == 'name':
            hints.append('lemma_name_roundtrip(d.subrange(0, %s), %s.lv(), d.subrange(q%d, d.len() as int));' % (q, x, i + 1))
            hints.append('assert(d =~= d.subrange(0, %s) + name_enc(%s.lv()) + d.subrange(q%d, d.len() as int));' % (q, x, i + 1))
            cond += ' && %s + inplace_len(d, %s) == q%d' % (q, q, i + 1)
        elif kind == 'cstr':
            hints.append('assert(d[%s] == %s.bytes().len() as u8);' % (q, x))
            hints.append('assert(d.subrange(%s + 1, q%d) =~= %s.bytes());' % (q, i + 1, x))
            cond += ' && %s + 1 + d[%s] == q%d' % (q, q, i + 1)
        elif kind == 'tail':
            hints.append('assert(d.subrange(%s, d.len() as int) =~= %s@);' % (q, x))
        lines.append('        assert(%s) by { %s }' % (cond, ' '.join(hints)))
    lines.append('        assert(q%d == d.len());' % len(fields))
    eqv = ' && '.join(eqv_term(k, f) for k, f in fields)
    # parsed values are within limits: replay the decoder offsets and call the name lemma at each name field
    dok = []
    vsteps = dec_steps(fields, v='v')
    qn = 'p'
    for i, (kind, f) in enumerate(fields):
        if kind == 'name':
            dok.append('        lemma_name_dec_ok(data, %s, v.%s.lv()); lemma_inplace_nonneg(data, %s);' % (qn, f, qn))
        nxt = re.sub(r'\bq\b', '(%s)' % qn, vsteps[i][1])
        dok.append('        let q%d = %s;' % (i + 1, nxt))
        qn = 'q%d' % (i + 1)
    return ("""    open spec fn wf_cdec(data: Seq<u8>, p: int, v: &Self, p2: int) -> bool { Self::wf_dec(data, p, v, p2) }
    open spec fn wf_canon(&self) -> bool { true }
    open spec fn wf_in_rdata() -> bool { true }
    open spec fn wf_nocomp() -> bool { %s }
    open spec fn wf_eqv(&self, other: &Self) -> bool { %s }
    proof fn lemma_det(data: Seq<u8>, p: int, v1: &Self, e1: int, v2: &Self, e2: int) {}
    open spec fn wf_fit(&self) -> bool { true }
    open spec fn wf_empty_ok() -> bool { false }
    proof fn lemma_dec_ok(data: Seq<u8>, p: int, v: &Self, p2: int) {
%s
    }
    proof fn lemma_rt(&self, pre: Seq<u8>) {
%s
    }
""" % (nc, eqv, '\n'.join(dok), '\n'.join(lines)))

def _unused():
    return ("")

def impl_header(c, rel, tname, trait="WireFormat<'a>"):
    s = c.rd(rel)
    m = re.search(r"^impl(?:<'a>)? %s for %s(?:<'a>)? \{" % (re.escape(trait), re.escape(tname)), s, flags=re.M)
    if not m:
        raise AnchorLost('%s: impl %s for %s lost' % (rel, trait, tname))
    return m.group(0)

def inherent_headers(c, rel, tname):
    s = c.rd(rel)
    return re.findall(r"^impl(?:<'a>)? %s(?:<'a>)? \{" % re.escape(tname), s, flags=re.M)

def wrap_type(c, rel, tname, ghost, verified_inherent=(), external_trait_fns=('write_compressed_to',)):
    """wrap struct, RR impl, WireFormat impl (+ghost items) and inherent impls of tname"""
    s = c.rd(rel)
    m = re.search(r"^pub (?:struct|enum) %s(?:<'a>)? \{" % re.escape(tname), s, flags=re.M)
    if not m:
        raise AnchorLost('%s: struct %s lost' % (rel, tname))
    c.wrap(rel, m.group(0))
    c.wrap(rel, impl_header(c, rel, tname, 'RR'))
    h = impl_header(c, rel, tname)
    # mark trait fns that are not verified in this unit
    for fn in external_trait_fns:
        try:
            c.mark(rel, h, fn, '#[verifier::external_body]')
        except AnchorLost:
            pass  # type does not override it
    c.sub(rel, h, h + '\n' + ghost)
    c.wrap(rel, h)
    for ih in inherent_headers(c, rel, tname):
        # every fn of the inherent impl that is not verified yet is left outside Verus
        fns = list_fns(c, rel, ih)
        for fn in fns:
            if fn not in verified_inherent:
                c.mark(rel, ih, fn, '#[verifier::external]')
        c.wrap(rel, ih)

def list_fns(c, rel, header):
    from xf import code_find_all, match_close
    s = c.rd(rel)
    _, b, e = c.item_range(rel, header)
    out = []
    j = b + 1
    depth_fns = []
    for m in code_find_all(s, r'\bfn\s+([A-Za-z_][A-Za-z0-9_]*)', b, e):
        # only depth-1 fns: count braces between b and m.start()
        seg = s[b + 1:m.start()]
        d = 0
        k = 0
        from xf import skip_trivia
        while k < len(seg):
            kk = skip_trivia(seg, k)
            if kk != k:
                k = kk
                continue
            if seg[k] == '{':
                d += 1
            elif seg[k] == '}':
                d -= 1
            k += 1
        if d == 0:
            out.append(m.group(1))
    return out

def apply(c):
    from overrides import OVERRIDES
    for tname, f, code, rfc, fields in TYPES:
        rel = 'dns/rdata/%s.rs' % f
        extra = ('write_common',) if tname == 'SOA' else ()
        # only the eight known compressing overrides are handed to contracts/overrides.py; an override that appears on any
        # other type is verified as written against the trait contract (e.g. the no-compression rule of C07)
        ext = ('write_compressed_to',) if tname in OVERRIDES else ()
        wrap_type(c, rel, tname, ghost_items(tname, fields), verified_inherent=extra, external_trait_fns=ext)
