"""Contracts for dns/name.rs: Name::parse against the RFC 1035 4.1.4 spec decoder (C06, C01),
plain_append / write_to (C02, C04), Label helpers."""
import os
from typed import list_fns

NAME_WF = "impl<'a> WireFormat<'a> for Name<'a> {"
NAME_IMPL = "impl<'a> Name<'a> {"
LABEL_IMPL = "impl<'a> Label<'a> {"

def label_grammar(c, rel):
    # ---- C17, label grammar for labels of every length: Label::new accepts exactly the labels the property describes
    c.contract(rel, LABEL_IMPL, 'is_valid_label', """
        ensures r == label_text_ok(data@), // @C17:label-grammar
""")
    c.all_loop(rel, LABEL_IMPL, 'is_valid_label', """
                invariant
                    1 <= vx_i,
                    vx_all ==> forall|i: int| 1 <= i < vx_i && i < data@.len() ==> alnum(#[trigger] data@[i]) || data@[i] == 45 || data@[i] == 95,
                    !vx_all ==> 1 <= vx_i < data@.len() && !(alnum(data@[vx_i as int]) || data@[vx_i as int] == 45 || data@[vx_i as int] == 95),
                decreases data@.len() - vx_i + (if vx_all { 1int } else { 0int }),
""")
    c.contract(rel, LABEL_IMPL, 'new', """
        ensures
            (r is Ok) == label_text_ok(into_bytes_view(data)), // @C17:label-grammar
            r is Ok ==> r.unwrap().lview() == into_bytes_view(data), // @C17:label-kept-as-given
""", pre_body="\n        broadcast use crate::vx::vx_axioms;\n")

def suffix_algebra(c, rel):
    # ---- C17, suffix relation for names of every shape: is_subdomain_of is "strictly longer and ends with the other's labels"
    c.contract(rel, NAME_IMPL, 'is_subdomain_of', """
        ensures r == strict_suffix(self.lv(), other.lv()), // @C17:subdomain-iff-strictly-longer-and-ends-with
""", pre_body="""
        proof { lemma_labels_view_len(self.labels@); lemma_labels_view_len(other.labels@); }
""")
    c.rev_zip_all_loop(rel, NAME_IMPL, 'is_subdomain_of', 'labels', """
                invariant
                    self.labels@.len() > other.labels@.len(), // @C17:subdomain-iff-strictly-longer-and-ends-with
                    self.lv().len() == self.labels@.len(), other.lv().len() == other.labels@.len(),
                    forall|i: int| 0 <= i < self.labels@.len() ==> #[trigger] self.lv()[i] == self.labels@[i].lview(),
                    forall|i: int| 0 <= i < other.labels@.len() ==> #[trigger] other.lv()[i] == other.labels@[i].lview(),
                    vx_k <= other.labels@.len(),
                    vx_all ==> forall|k: int| 0 <= k < vx_k ==> #[trigger] other.lv()[other.lv().len() - 1 - k] == self.lv()[self.lv().len() - 1 - k],
                    !vx_all ==> vx_k < other.labels@.len() && other.lv()[other.lv().len() - 1 - vx_k] != self.lv()[self.lv().len() - 1 - vx_k],
                decreases other.labels@.len() - vx_k + (if vx_all { 1int } else { 0int }),
""")

def suffix_removal(c, rel):
    # ---- C17: "removing a suffix returns the remaining leading labels exactly in that case"
    c.contract(rel, NAME_IMPL, 'without', """
        ensures
            (r is Some) == strict_suffix(self.lv(), domain.lv()), // @C17:without-some-iff-subdomain
            r is Some ==> r.unwrap().lv() == self.lv().subrange(0, self.lv().len() - domain.lv().len()), // @C17:without-returns-leading-labels
""", pre_body="""
        proof { lemma_labels_view_len(self.labels@); lemma_labels_view_len(domain.labels@); }
""")
    c.ghost(rel, NAME_IMPL, 'without', "Some(Name { labels })", """
            proof {
                lemma_labels_view_len(labels@);
                assert forall|i: int| 0 <= i < labels@.len() implies #[trigger] labels@[i].lview() == self.labels@[i].lview() by {
                    let sl = self.labels@.subrange(0, self.labels@.len() - domain.labels@.len());
                    assert(cloned::<Label>(sl[i], labels@[i]));
                    axiom_label_clone(sl[i], labels@[i]);
                }
                assert(labels_view(labels@) =~= self.lv().subrange(0, self.lv().len() - domain.lv().len())); // @C17:without-returns-leading-labels
            }
""", where='before')

def link_local(c, rel):
    # ---- C17: "a name is link-local exactly when its last label is 'local' in any letter case"
    c.contract(rel, NAME_IMPL, 'is_link_local', """
        ensures r == (self.lv().len() > 0 && is_local_label(self.lv().last())), // @C17:link-local-iff-last-label-is-local
""", pre_body="""
        proof { lemma_labels_view_len(self.labels@); }
        broadcast use crate::vx::vx_axioms;
""")
    c.iter_last(rel, NAME_IMPL, 'is_link_local', 'labels')

def apply(c):
    rel = 'dns/name.rs'
    # ---- ghost views (placed next to the structs, inside the same module so that the closed bodies are visible)
    c.append(rel, """verus!{
impl<'a> Label<'a> {
    /// ghost: the bytes of the label
    pub closed spec fn lview(&self) -> Seq<u8> { self.data@ }
}
// derived PartialEq of Label compares the bytes (Cow<[u8]> equality is slice equality, whatever the Borrowed/Owned state):
// assumption "derived impls are structural", used by the suffix algebra of C17
impl<'a> vstd::std_specs::cmp::PartialEqSpecImpl for Label<'a> {
    open spec fn obeys_eq_spec() -> bool { true }
    open spec fn eq_spec(&self, other: &Label<'a>) -> bool { self.lview() == other.lview() }
}
// derived Clone of Label copies the bytes (assumption "derived impls are structural"; Verus generates its own opaque
// specification for the derived impl, so the statement is given as an axiom over vstd's `cloned` relation), used by Name::without
#[verifier::external_body]
pub proof fn axiom_label_clone(a: Label, b: Label)
    requires cloned::<Label>(a, b),
    ensures a.lview() == b.lview(),
{}
pub closed spec fn labels_view(ls: Seq<Label>) -> Seq<Seq<u8>> { ls.map(|i: int, l: Label| l.lview()) }
pub proof fn lemma_labels_view_len(ls: Seq<Label>)
    ensures labels_view(ls).len() == ls.len(),
            forall|i: int| 0 <= i < ls.len() ==> #[trigger] labels_view(ls)[i] == ls[i].lview(),
{}
pub proof fn lemma_labels_view_push(ls: Seq<Label>, l: Label)
    ensures labels_view(ls.push(l)) == labels_view(ls).push(l.lview()),
{ assert(labels_view(ls.push(l)) =~= labels_view(ls).push(l.lview())); }
impl<'a> Name<'a> {
    /// ghost: the labels of the name as byte strings
    pub closed spec fn lv(&self) -> Seq<Seq<u8>> { labels_view(self.labels@) }
    /// ghost: the label vector itself
    pub closed spec fn lseq(&self) -> Seq<Label<'a>> { self.labels@ }
}
}
""")

    # ---- Label inherent impl
    # ---- C17, label grammar for labels of every length: Label::new accepts exactly the labels the property describes.
    # Optional unit: if is_valid_label no longer has the shape R17 understands, both functions go back outside Verus
    # (as they were before this unit existed) and only C17 becomes undecided -- the other properties do not depend on them.
    import xf as _xf
    snap = c.rd(rel)
    snap_log, snap_con, snap_ext = list(c.log), list(c.contracted), list(c.externalised)
    try:
        if os.environ.get('VX_DISABLE_OPTIONAL'):
            raise _xf.AnchorLost('optional units disabled for this run')
        label_grammar(c, rel)
        grammar = ('new', 'is_valid_label')
    except _xf.AnchorLost as e:
        c.wr(rel, snap)
        c.log[:] = snap_log; c.contracted[:] = snap_con; c.externalised[:] = snap_ext
        c.log.append(('degraded', rel, 'C17: label grammar unit not applied (%s)' % e))
        grammar = ()
    for fn in list_fns(c, rel, LABEL_IMPL):
        if fn not in ('new_unchecked', 'len') + grammar:
            c.mark(rel, LABEL_IMPL, fn, '#[verifier::external]')
    c.mark(rel, LABEL_IMPL, 'new_unchecked', '#[verifier::external_body]')
    c.contract(rel, LABEL_IMPL, 'new_unchecked', "        ensures r.lview() == into_bytes_view(data),")
    c.contract(rel, LABEL_IMPL, 'len', "        ensures r == self.lview().len(), // @C04:label-len")
    c.wrap(rel, LABEL_IMPL)

    # ---- Name inherent impl: iter, plain_append verified; the rest outside Verus for now
    verified = ('iter', 'plain_append', 'compress_append')
    import xf as _xf2
    snap = c.rd(rel)
    snap_log, snap_con, snap_ext = list(c.log), list(c.contracted), list(c.externalised)
    try:
        if os.environ.get('VX_DISABLE_OPTIONAL'):
            raise _xf2.AnchorLost('optional units disabled for this run')
        suffix_algebra(c, rel)
        verified = verified + ('is_subdomain_of',)
        suffix_removal(c, rel)
        verified = verified + ('without',)
    except _xf2.AnchorLost as e:
        c.wr(rel, snap)
        c.log[:] = snap_log; c.contracted[:] = snap_con; c.externalised[:] = snap_ext
        c.log.append(('degraded', rel, 'C17: suffix algebra unit not applied (%s)' % e))
    snap = c.rd(rel)
    snap_log, snap_con, snap_ext = list(c.log), list(c.contracted), list(c.externalised)
    try:
        if os.environ.get('VX_DISABLE_OPTIONAL'):
            raise _xf2.AnchorLost('optional units disabled for this run')
        link_local(c, rel)
        verified = verified + ('is_link_local',)
    except _xf2.AnchorLost as e:
        c.wr(rel, snap)
        c.log[:] = snap_log; c.contracted[:] = snap_con; c.externalised[:] = snap_ext
        c.log.append(('degraded', rel, 'C17: link-local unit not applied (%s)' % e))
    for fn in list_fns(c, rel, NAME_IMPL):
        if fn not in verified:
            c.mark(rel, NAME_IMPL, fn, '#[verifier::external]')
    c.contract(rel, NAME_IMPL, 'iter', """
        ensures r.obeys_prophetic_iter_laws(), r.remaining() == self.lseq().map(|i: int, x: Label<'a>| &x), r.decrease() is Some,
""")
    c.contract(rel, NAME_IMPL, 'plain_append', """
        requires name_ok(self.lv()),
        ensures r is Ok ==> wrote(old(out), final(out), name_enc(self.lv())), // @C02:name-encoding
""", pre_body="""
        let ghost lv = self.lv();
        let ghost n = lv.len() as int;
        let ghost o0 = *out;
        proof {
            lemma_labels_view_len(self.labels@);
            assert(lv.subrange(0, 0) =~= Seq::<Seq<u8>>::empty());
        }
""")
    c.loop_spec(rel, NAME_IMPL, 'plain_append', 0, """
            invariant
                lv == self.lv(), n == lv.len(), n == self.labels@.len(), name_ok(lv),
                0 <= vx_it.index@ <= n,
                wrote(old(out), out, run(lv.subrange(0, vx_it.index@ as int))),
""", iter_name='vx_it')
    c.ghost(rel, NAME_IMPL, 'plain_append', "out.write_all(&[label.len() as u8])?;", """
            let ghost i = vx_it.index@ as int;
            let ghost o1 = *out;
            proof {
                lemma_labels_view_len(self.labels@);
                assert(label.lview() == lv[i]);
                assert(1 <= lv[i].len() <= 63);
            }
""", where='before')
    c.ghost(rel, NAME_IMPL, 'plain_append', "out.write_all(&label.data)?;", """
            proof {
                lemma_run_snoc(lv, i);
            }
""", where='after')
    c.ghost(rel, NAME_IMPL, 'plain_append', "out.write_all(&[0])?;", """
        proof { assert(lv.subrange(0, n) =~= lv); }
""", where='before')
    c.wrap(rel, NAME_IMPL)

    # ---- WireFormat for Name
    # Name::len: R11 + fold invariant (sum of 1 + label length over the prefix)
    c.sum_loop(rel, NAME_WF, 'len', """
                invariant
                    name_ok(self.lv()), self.labels@.len() == self.lv().len(),
                    0 <= vx_it.index@ <= self.labels@.len(),
                    vx_sum == wl(self.lv().subrange(0, vx_it.index@ as int)),
""", body_pre="""
                proof {
                    let i = vx_it.index@ as int;
                    lemma_labels_view_len(self.labels@);
                    assert(label.lview() == self.lv()[i]);
                    lemma_run_snoc(self.lv(), i);
                    lemma_split(self.lv(), i + 1);
                    lemma_run_len(self.lv().subrange(i + 1, self.lv().len() as int));
                }
""")
    c.contract(rel, NAME_WF, 'len', "", pre_body="""
        proof {
            lemma_labels_view_len(self.labels@);
            assert(self.lv().subrange(0, 0) =~= Seq::<Seq<u8>>::empty());
        }
""")
    c.ghost(rel, NAME_WF, 'len', "vx_sum }", """
            proof { assert(self.lv().subrange(0, self.lv().len() as int) =~= self.lv()); lemma_run_len(self.lv()); }
""", where='before')
    c.sub(rel, NAME_WF, NAME_WF + """
    open spec fn wf_ok(&self) -> bool { name_ok(self.lv()) }
    open spec fn wf_enc(&self) -> Seq<u8> { name_enc(self.lv()) }
    open spec fn wf_dec(data: Seq<u8>, p: int, v: &Self, p2: int) -> bool {
        dec_labels(data, p, 0) == Some(v.lv()) && p2 == p + inplace_len(data, p)
    }
    open spec fn wf_cdec(data: Seq<u8>, p: int, v: &Self, p2: int) -> bool { Self::wf_dec(data, p, v, p2) }
    open spec fn wf_canon(&self) -> bool { true }
    open spec fn wf_in_rdata() -> bool { true }
    open spec fn wf_nocomp() -> bool { false }
    open spec fn wf_eqv(&self, other: &Self) -> bool { self.lv() == other.lv() }
    proof fn lemma_det(data: Seq<u8>, p: int, v1: &Self, e1: int, v2: &Self, e2: int) {}
    open spec fn wf_fit(&self) -> bool { true }
    open spec fn wf_empty_ok() -> bool { false }
    proof fn lemma_dec_ok(data: Seq<u8>, p: int, v: &Self, p2: int) { lemma_name_dec_ok(data, p, v.lv()); }
    proof fn lemma_rt(&self, pre: Seq<u8>) {
        lemma_name_roundtrip(pre, self.lv(), Seq::empty());
        assert(pre + name_enc(self.lv()) + Seq::<u8>::empty() =~= pre + name_enc(self.lv()));
    }
""")
    c.contract(rel, NAME_WF, 'parse', """
        ensures
            r is Ok ==> dec_labels(data@, *old(position) as int, 0) == Some(r.unwrap().lv()), // @C06:labels-per-rfc1035,C02:name-decoded,C05:owner-name
            r is Ok ==> *final(position) == *old(position) + inplace_len(data@, *old(position) as int), // @C06:resume-after-inplace-bytes,C05:cursor-after-name
            r is Err ==> dec_labels(data@, *old(position) as int, 0) is None, // @C06:accepts-everything-the-rfc-decoder-accepts,C02:valid-names-are-accepted,C11:valid-names-are-accepted
            r is Ok ==> r.unwrap().lv().len() <= 127, // @C01:output-bounded
""", pre_body="\n        let ghost start = *position as int;\n")
    c.bind_tail(rel, NAME_WF, 'parse', """
        proof {
            match &vx_r {
                Ok(vx_n) => { assert(vx_n.lv() == labels_view(vx_n.labels@)); assert(Name::wf_dec(data@, start, vx_n, *position as int)); }
                Err(_) => {}
            }
        }
""")
    c.ghost(rel, NAME_WF, 'parse', "Ok(Self { labels })", "        proof { lemma_labels_view_len(labels@); }", where='before')
    c.loop_spec(rel, NAME_WF, 'parse', 0, """
            invariant_except_break
                !following_compression_pointer ==> *position == pointer_position
                    && inplace_len(data@, start) == (*position - start) + inplace_len(data@, *position as int),
                following_compression_pointer ==> *position < data.len() && *position + 1 == start + inplace_len(data@, start),
            invariant
                data.len() <= isize::MAX,
                0 <= start <= data.len(), start == *old(position),
                start <= *position <= data.len(),
                name_size <= 318,
                2 * labels@.len() <= name_size,
                pointer_position <= data.len(),
                dec_labels(data@, start, 0) == prepend(labels_view(labels@), dec_labels(data@, pointer_position as int, name_size as int)),
            ensures
                *position == start + inplace_len(data@, start),
                dec_labels(data@, start, 0) == Some(labels_view(labels@)),
                labels@.len() <= 127,
            decreases 318 - name_size, pointer_position
""", body_pre="\n            broadcast use crate::vx::vx_axioms;\n")
    c.ghost(rel, NAME_WF, 'parse', "labels.push(Label::new_unchecked(", """
                    let ghost old_labels = labels@;
""", where='before')
    c.ghost(rel, NAME_WF, 'parse', "labels.push(Label::new_unchecked(", """
                    proof {
                        lemma_labels_view_push(old_labels, labels@.last());
                        assert(labels@ =~= old_labels.push(labels@.last()));
                    }
""", where='after')
    c.wrap(rel, NAME_WF)
