"""Packet: parse / parse_section (C01, C05, C09), write_to / write_header (C02, C04, C09)."""
import re
from typed import list_fns
from xf import AnchorLost, match_close

P_IMPL = "impl<'a> Packet<'a> {"

SPECS = """verus!{
// header_buffer readers are closure-heavy one-liners outside Verus: assumed here with exactly the statements that the
// loop-free Kani harnesses header_peek_short_buffers / header_peek_layout prove on the real functions
pub assume_specification [crate::dns::header_buffer::questions] (buffer: &[u8]) -> (r: crate::Result<u16>)
    ensures buffer.len() >= 6 ==> r == Ok::<u16, crate::SimpleDnsError>(be16(buffer[4], buffer[5])), buffer.len() < 6 ==> r is Err;
pub assume_specification [crate::dns::header_buffer::answers] (buffer: &[u8]) -> (r: crate::Result<u16>)
    ensures buffer.len() >= 8 ==> r == Ok::<u16, crate::SimpleDnsError>(be16(buffer[6], buffer[7])), buffer.len() < 8 ==> r is Err;
pub assume_specification [crate::dns::header_buffer::name_servers] (buffer: &[u8]) -> (r: crate::Result<u16>)
    ensures buffer.len() >= 10 ==> r == Ok::<u16, crate::SimpleDnsError>(be16(buffer[8], buffer[9])), buffer.len() < 10 ==> r is Err;
pub assume_specification [crate::dns::header_buffer::additional_records] (buffer: &[u8]) -> (r: crate::Result<u16>)
    ensures buffer.len() >= 12 ==> r == Ok::<u16, crate::SimpleDnsError>(be16(buffer[10], buffer[11])), buffer.len() < 12 ==> r is Err;

/// std: first index whose element satisfies the predicate (pure predicate)
pub assume_specification<'a, T, P> [<std::slice::Iter<'a, T> as std::iter::Iterator>::position] (it: &mut std::slice::Iter<'a, T>, pred: P) -> (r: std::option::Option<usize>)
    where P: std::ops::FnMut(<std::slice::Iter<'a, T> as std::iter::Iterator>::Item,) -> bool, std::slice::Iter<'a, T>: std::marker::Sized,
    ensures
        r is Some ==> r.unwrap() < old(it).remaining().len() && call_ensures(pred, (old(it).remaining()[r.unwrap() as int],), true)
            && forall|j: int| 0 <= j < r.unwrap() ==> call_ensures(pred, (#[trigger] old(it).remaining()[j],), false),
        r is None ==> forall|j: int| 0 <= j < old(it).remaining().len() ==> call_ensures(pred, (#[trigger] old(it).remaining()[j],), false);

/// entries decoded back-to-back (RFC 1035 4.1: sections are sequences of entries): p0 -> items -> p1
pub open spec fn chain<'a, T: WireFormat<'a>>(data: Seq<u8>, p0: int, vs: Seq<T>, p1: int) -> bool
    decreases vs.len()
{
    if vs.len() == 0 { p0 == p1 }
    else { exists|q: int| p0 <= q <= p1 && chain::<T>(data, p0, vs.drop_last(), q) && #[trigger] T::wf_dec(data, q, &vs.last(), p1) }
}
pub proof fn lemma_chain_index<'a, T: WireFormat<'a>>(data: Seq<u8>, p0: int, vs: Seq<T>, p1: int, i: int)
    requires chain::<T>(data, p0, vs, p1), 0 <= i < vs.len()
    ensures exists|a: int, b: int| p0 <= a && b <= p1 && #[trigger] T::wf_dec(data, a, &vs[i], b)
    decreases vs.len()
{
    let q = choose|q: int| p0 <= q <= p1 && chain::<T>(data, p0, vs.drop_last(), q) && #[trigger] T::wf_dec(data, q, &vs.last(), p1);
    if i == vs.len() - 1 {
        assert(T::wf_dec(data, q, &vs[i], p1));
    } else {
        lemma_chain_index::<T>(data, p0, vs.drop_last(), q, i);
        let (a, b) = choose|a: int, b: int| p0 <= a && b <= q && #[trigger] T::wf_dec(data, a, &vs.drop_last()[i], b);
        assert(T::wf_dec(data, a, &vs[i], b));
    }
}
/// the additional section as returned: the first OPT pseudo-record (RFC 6891) lifted out into the header
pub open spec fn opt_lifted<'a>(parsed: Seq<ResourceRecord<'a>>, kept: Seq<ResourceRecord<'a>>, opt: Option<crate::rdata::OPT<'a>>) -> bool {
    if exists|i: int| 0 <= i < parsed.len() && rdata_type(&(#[trigger] parsed[i]).rdata) == crate::TYPE::OPT {
        exists|i: int| 0 <= i < parsed.len() && #[trigger] parsed[i].rdata is OPT
            && (forall|j: int| 0 <= j < i ==> rdata_type(&(#[trigger] parsed[j]).rdata) != crate::TYPE::OPT)
            && kept == parsed.remove(i) && opt == Some(parsed[i].rdata->OPT_0)
    } else { kept == parsed && opt is None }
}
/// RFC 6891 6.1.3: the 12-bit response code = OPT TTL bits 24..31 (upper 8) and the header nibble (lower 4); without an OPT
/// record the nibble alone.  (Nibbles 11..15 have no named RCODE: the crate maps them to Reserved = 17 before combining,
/// see known finding D11; for nibbles 0..10 rcode_code(rcode_of_code(lo)) == lo and this is the RFC formula.)
#[verifier::opaque]
pub open spec fn rcode_join(ttl: u32, lo: u16) -> RCODE { rcode_of_code((((ttl >> 24u32) as u16) << 4u16) | rcode_code(rcode_of_code(lo))) }
pub open spec fn rcode_lifted<'a>(parsed: Seq<ResourceRecord<'a>>, lo: u16, rc: RCODE) -> bool {
    if exists|i: int| 0 <= i < parsed.len() && rdata_type(&(#[trigger] parsed[i]).rdata) == crate::TYPE::OPT {
        exists|i: int| 0 <= i < parsed.len() && #[trigger] parsed[i].rdata is OPT
            && (forall|j: int| 0 <= j < i ==> rdata_type(&(#[trigger] parsed[j]).rdata) != crate::TYPE::OPT)
            && rc == rcode_join(parsed[i].ttl, lo)
    } else { rc == rcode_of_code(lo) }
}
/// concatenated encodings of a section
pub open spec fn seq_enc<'a, T: WireFormat<'a>>(vs: Seq<T>) -> Seq<u8>
    decreases vs.len()
{
    if vs.len() == 0 { Seq::empty() } else { seq_enc::<T>(vs.drop_last()) + vs.last().wf_enc() }
}
pub open spec fn seq_ok<'a, T: WireFormat<'a>>(vs: Seq<T>) -> bool {
    forall|i: int| 0 <= i < vs.len() ==> (#[trigger] vs[i]).wf_ok()
}
/// RFC 6891 6.1.2: the OPT pseudo-record written for a header that carries EDNS data
pub open spec fn opt_rr_enc(h: &Header) -> Seq<u8> {
    match h.opt {
        None => Seq::empty(),
        Some(opt) => seq![0u8] + enc16(41) + enc16(opt.udp_packet_size) + enc_be(opt_ttl(h.response_code, opt.version) as nat, 4)
                     + enc16(opt.wf_enc().len() as u16) + opt.wf_enc(),
    }
}
pub open spec fn seq_canon<'a, T: WireFormat<'a>>(vs: Seq<T>) -> bool {
    forall|i: int| 0 <= i < vs.len() ==> (#[trigger] vs[i]).wf_canon()
}
pub proof fn lemma_seq_enc_step<'a, T: WireFormat<'a>>(vs: Seq<T>, i: int)
    requires 0 <= i < vs.len()
    ensures seq_enc::<T>(vs.subrange(0, i + 1)) == seq_enc::<T>(vs.subrange(0, i)) + vs[i].wf_enc(),
            seq_enc::<T>(vs.subrange(0, i + 1)).len() <= seq_enc::<T>(vs).len(),
{
    assert(vs.subrange(0, i + 1).drop_last() =~= vs.subrange(0, i));
    assert(vs.subrange(0, i + 1).last() == vs[i]);
    lemma_seq_enc_prefix::<T>(vs, i + 1);
}
pub proof fn lemma_seq_enc_prefix<'a, T: WireFormat<'a>>(vs: Seq<T>, j: int)
    requires 0 <= j <= vs.len()
    ensures seq_enc::<T>(vs.subrange(0, j)).len() <= seq_enc::<T>(vs).len()
    decreases vs.len() - j
{
    if j < vs.len() {
        lemma_seq_enc_prefix::<T>(vs, j + 1);
        assert(vs.subrange(0, j + 1).drop_last() =~= vs.subrange(0, j));
    } else {
        assert(vs.subrange(0, j) =~= vs);
    }
}
/// element decoding does not depend on bytes appended after the element
pub proof fn lemma_q_stable(d: Seq<u8>, x: Seq<u8>, p: int, v: &Question, p2: int)
    requires Question::wf_dec(d, p, v, p2), 0 <= p
    ensures Question::wf_dec(d + x, p, v, p2)
{
    lemma_append_stable(d, x, p, 0);
    lemma_inplace_append_stable(d, x, p, 0);
    let q = p + inplace_len(d, p);
    assert((d + x)[q] == d[q] && (d + x)[q + 1] == d[q + 1] && (d + x)[q + 2] == d[q + 2] && (d + x)[q + 3] == d[q + 3]);
}
pub proof fn lemma_rr_stable(d: Seq<u8>, x: Seq<u8>, p: int, v: &ResourceRecord, p2: int)
    requires ResourceRecord::wf_dec(d, p, v, p2), 0 <= p
    ensures ResourceRecord::wf_dec(d + x, p, v, p2)
{
    lemma_append_stable(d, x, p, 0);
    lemma_inplace_append_stable(d, x, p, 0);
    let q = p + inplace_len(d, p);
    assert((d + x)[q] == d[q] && (d + x)[q + 1] == d[q + 1] && (d + x)[q + 2] == d[q + 2] && (d + x)[q + 3] == d[q + 3] && (d + x)[q + 8] == d[q + 8] && (d + x)[q + 9] == d[q + 9]);
    assert((d + x).subrange(q + 4, q + 8) =~= d.subrange(q + 4, q + 8));
    assert((d + x).subrange(0, p2) =~= d.subrange(0, p2));
}
pub proof fn lemma_qchain_stable<'a>(d: Seq<u8>, x: Seq<u8>, p0: int, vs: Seq<Question<'a>>, p1: int)
    requires chain::<Question>(d, p0, vs, p1), 0 <= p0
    ensures chain::<Question>(d + x, p0, vs, p1)
    decreases vs.len()
{
    if vs.len() > 0 {
        let q = choose|q: int| p0 <= q <= p1 && chain::<Question>(d, p0, vs.drop_last(), q) && #[trigger] Question::wf_dec(d, q, &vs.last(), p1);
        lemma_qchain_stable(d, x, p0, vs.drop_last(), q);
        lemma_q_stable(d, x, q, &vs.last(), p1);
    }
}
pub proof fn lemma_rrchain_stable<'a>(d: Seq<u8>, x: Seq<u8>, p0: int, vs: Seq<ResourceRecord<'a>>, p1: int)
    requires chain::<ResourceRecord>(d, p0, vs, p1), 0 <= p0
    ensures chain::<ResourceRecord>(d + x, p0, vs, p1)
    decreases vs.len()
{
    if vs.len() > 0 {
        let q = choose|q: int| p0 <= q <= p1 && chain::<ResourceRecord>(d, p0, vs.drop_last(), q) && #[trigger] ResourceRecord::wf_dec(d, q, &vs.last(), p1);
        lemma_rrchain_stable(d, x, p0, vs.drop_last(), q);
        lemma_rr_stable(d, x, q, &vs.last(), p1);
    }
}
/// one more entry written by a compressing writer: b2 extends b, the new bytes decode to e
pub proof fn lemma_step_q<'a>(b: Seq<u8>, b2: Seq<u8>, p0: int, vs: Seq<Question<'a>>, i: int)
    requires 0 <= p0 <= b.len(), 0 <= i < vs.len(), b2.len() >= b.len(), b2.subrange(0, b.len() as int) =~= b,
             chain::<Question>(b, p0, vs.subrange(0, i), b.len() as int), Question::wf_dec(b2, b.len() as int, &vs[i], b2.len() as int)
    ensures chain::<Question>(b2, p0, vs.subrange(0, i + 1), b2.len() as int)
{
    let x = b2.subrange(b.len() as int, b2.len() as int);
    assert(b2 =~= b + x);
    lemma_qchain_stable(b, x, p0, vs.subrange(0, i), b.len() as int);
    assert(vs.subrange(0, i + 1).drop_last() =~= vs.subrange(0, i));
    assert(vs.subrange(0, i + 1).last() == vs[i]);
}
pub proof fn lemma_step_rr<'a>(b: Seq<u8>, b2: Seq<u8>, p0: int, vs: Seq<ResourceRecord<'a>>, i: int)
    requires 0 <= p0 <= b.len(), 0 <= i < vs.len(), b2.len() >= b.len(), b2.subrange(0, b.len() as int) =~= b,
             chain::<ResourceRecord>(b, p0, vs.subrange(0, i), b.len() as int), ResourceRecord::wf_dec(b2, b.len() as int, &vs[i], b2.len() as int)
    ensures chain::<ResourceRecord>(b2, p0, vs.subrange(0, i + 1), b2.len() as int)
{
    let x = b2.subrange(b.len() as int, b2.len() as int);
    assert(b2 =~= b + x);
    lemma_rrchain_stable(b, x, p0, vs.subrange(0, i), b.len() as int);
    assert(vs.subrange(0, i + 1).drop_last() =~= vs.subrange(0, i));
    assert(vs.subrange(0, i + 1).last() == vs[i]);
}
/// earlier sections stay decodable while later entries are appended
pub proof fn lemma_keep_q<'a>(b: Seq<u8>, b2: Seq<u8>, p0: int, vs: Seq<Question<'a>>, p1: int)
    requires 0 <= p0, b2.len() >= b.len(), b2.subrange(0, b.len() as int) =~= b, chain::<Question>(b, p0, vs, p1)
    ensures chain::<Question>(b2, p0, vs, p1)
{
    let x = b2.subrange(b.len() as int, b2.len() as int);
    assert(b2 =~= b + x);
    lemma_qchain_stable(b, x, p0, vs, p1);
}
pub proof fn lemma_keep_rr<'a>(b: Seq<u8>, b2: Seq<u8>, p0: int, vs: Seq<ResourceRecord<'a>>, p1: int)
    requires 0 <= p0, b2.len() >= b.len(), b2.subrange(0, b.len() as int) =~= b, chain::<ResourceRecord>(b, p0, vs, p1)
    ensures chain::<ResourceRecord>(b2, p0, vs, p1)
{
    let x = b2.subrange(b.len() as int, b2.len() as int);
    assert(b2 =~= b + x);
    lemma_rrchain_stable(b, x, p0, vs, p1);
}
/// the 12 header octets read back as the header fields they were written from
pub proof fn lemma_hdr_rt(h: &Header, qd: u16, an: u16, ns: u16, ar: u16, d: Seq<u8>)
    requires d.len() >= 12, d.subrange(0, 12) == hdr_enc(h, qd, an, ns, ar)
    ensures
        be16(d[0], d[1]) == h.id, be16(d[4], d[5]) == qd, be16(d[6], d[7]) == an, be16(d[8], d[9]) == ns, be16(d[10], d[11]) == ar,
        h.opcode == opcode_of_code((hdr_flags(d) >> 11) & 0xF),
        pf_bits(h.z_flags) == hdr_flags(d) & 0x87B0,
        hdr_flags(d) & 0x0040 == 0,
        hdr_flags(d) & 0xF == rcode_code(h.response_code) & 0xF,
{
    let e = hdr_enc(h, qd, an, ns, ar);
    let fl = hdr_flags_enc(h);
    assert forall|i: int| 0 <= i < 12 implies d[i] == e[i] by { assert(d.subrange(0, 12)[i] == e[i]); }
    lemma_be16_enc16(h.id); lemma_be16_enc16(fl); lemma_be16_enc16(qd); lemma_be16_enc16(an); lemma_be16_enc16(ns); lemma_be16_enc16(ar);
    assert(e[0] == enc16(h.id)[0] && e[1] == enc16(h.id)[1] && e[2] == enc16(fl)[0] && e[3] == enc16(fl)[1]);
    assert(e[4] == enc16(qd)[0] && e[5] == enc16(qd)[1] && e[6] == enc16(an)[0] && e[7] == enc16(an)[1]);
    assert(e[8] == enc16(ns)[0] && e[9] == enc16(ns)[1] && e[10] == enc16(ar)[0] && e[11] == enc16(ar)[1]);
    let pf = pf_bits(h.z_flags); let op = opcode_code(h.opcode); let rc = rcode_code(h.response_code);
    assert(pf & 0x87B0u16 == pf) by { lemma_pf_bits(h.z_flags); }
    assert(op <= 6 && rc <= 17);
    assert(((pf | (op << 11u16) | (rc & 0xFu16)) >> 11u16) & 0xFu16 == op
        && (pf | (op << 11u16) | (rc & 0xFu16)) & 0x87B0u16 == pf
        && (pf | (op << 11u16) | (rc & 0xFu16)) & 0x0040u16 == 0
        && (pf | (op << 11u16) | (rc & 0xFu16)) & 0xFu16 == rc & 0xFu16) by(bit_vector)
        requires pf & 0x87B0u16 == pf, op <= 6;
}
/// the OPT pseudo-record built by Header::opt_rr is canonical (its TTL carries the version it is parsed back with)
pub proof fn lemma_opt_ttl_version(rc: RCODE, ver: u8)
    ensures (opt_ttl(rc, ver) >> 16u32) & 0xFFu32 == ver as u32
{
    let c = rcode_code(rc) as u32;
    let v = ver as u32;
    assert(c <= 17);
    assert(((((c >> 4u32) << 24u32) | (v << 16u32)) >> 16u32) & 0xFFu32 == v) by(bit_vector) requires c <= 17, v <= 255;
}
/// encoding of the first n entries (opaque: the writer loops only need its three laws)
#[verifier::opaque]
pub open spec fn pref<'a, T: WireFormat<'a>>(vs: Seq<T>, n: int) -> Seq<u8> { seq_enc::<T>(vs.subrange(0, n)) }
pub proof fn lemma_pref_0<'a, T: WireFormat<'a>>(vs: Seq<T>) ensures pref::<T>(vs, 0) == Seq::<u8>::empty()
{ reveal(pref); assert(vs.subrange(0, 0) =~= Seq::<T>::empty()); }
pub proof fn lemma_pref_step<'a, T: WireFormat<'a>>(vs: Seq<T>, i: int)
    requires 0 <= i < vs.len() ensures pref::<T>(vs, i + 1) == pref::<T>(vs, i) + vs[i].wf_enc()
{ reveal(pref); lemma_seq_enc_step::<T>(vs, i); }
pub proof fn lemma_pref_full<'a, T: WireFormat<'a>>(vs: Seq<T>) ensures pref::<T>(vs, vs.len() as int) == seq_enc::<T>(vs)
{ reveal(pref); assert(vs.subrange(0, vs.len() as int) =~= vs); }
/// emission is cumulative: base + p emitted up to state b, then y up to state c
pub proof fn lemma_wrote_step<W: ?Sized>(a: &W, b: &W, c: &W, base: Seq<u8>, p: Seq<u8>, y: Seq<u8>, p2: Seq<u8>)
    requires wrote(a, b, base + p), wrote(b, c, y), p2 == p + y
    ensures wrote(a, c, base + p2)
{
    assert(io_log(a) + (base + p) + y =~= io_log(a) + (base + (p + y)));
    if at_end(a) { assert(io_buf(a) + (base + p) + y =~= io_buf(a) + (base + (p + y))); }
}
// ---- opaque progress predicates for the writer loops (keep sequence algebra out of the loop queries)
#[verifier::opaque]
pub open spec fn hdr12(b: Seq<u8>, e0: Seq<u8>) -> bool { b.len() >= 12 && b.subrange(0, 12) == e0 }
pub proof fn lemma_hdr12_intro(b: Seq<u8>, e0: Seq<u8>) requires b == e0, e0.len() == 12 ensures hdr12(b, e0)
{ reveal(hdr12); assert(b.subrange(0, 12) =~= e0); }
pub proof fn lemma_hdr12_keep(b: Seq<u8>, b2: Seq<u8>, e0: Seq<u8>)
    requires hdr12(b, e0), b2.len() >= b.len(), b2.subrange(0, b.len() as int) =~= b ensures hdr12(b2, e0)
{
    reveal(hdr12);
    assert forall|j: int| 0 <= j < 12 implies b2[j] == b[j] by { assert(b2.subrange(0, b.len() as int)[j] == b[j]); }
    assert(b2.subrange(0, 12) =~= b.subrange(0, 12));
}
pub proof fn lemma_hdr12_elim(b: Seq<u8>, e0: Seq<u8>) requires hdr12(b, e0) ensures b.len() >= 12, b.subrange(0, 12) == e0 { reveal(hdr12); }
/// the first n entries of vs are decoded back-to-back from p0 to p1
#[verifier::opaque]
pub open spec fn chain_n<'a, T: WireFormat<'a>>(data: Seq<u8>, p0: int, vs: Seq<T>, n: int, p1: int) -> bool {
    0 <= n <= vs.len() && chain::<T>(data, p0, vs.subrange(0, n), p1)
}
/// encoded size of the first n entries
#[verifier::opaque]
pub open spec fn enc_n<'a, T: WireFormat<'a>>(vs: Seq<T>, n: int) -> int { seq_enc::<T>(vs.subrange(0, n)).len() as int }
pub proof fn lemma_chain_n_0<'a, T: WireFormat<'a>>(data: Seq<u8>, p0: int, vs: Seq<T>)
    ensures chain_n::<T>(data, p0, vs, 0, p0), enc_n::<T>(vs, 0) == 0
{ reveal(chain_n); reveal(enc_n); assert(vs.subrange(0, 0) =~= Seq::<T>::empty()); }
pub proof fn lemma_chain_n_first<'a, T: WireFormat<'a>>(data: Seq<u8>, p0: int, vs: Seq<T>, n: int)
    requires 0 <= n <= 1, n <= vs.len(), n == 0 ==> p0 == data.len(), n == 1 ==> p0 <= data.len() && T::wf_dec(data, p0, &vs[0], data.len() as int)
    ensures chain_n::<T>(data, p0, vs, n, data.len() as int)
{
    reveal(chain_n);
    if n == 0 { assert(vs.subrange(0, 0) =~= Seq::<T>::empty()); }
    else {
        let one = vs.subrange(0, 1);
        assert(one.drop_last() =~= Seq::<T>::empty());
        assert(chain::<T>(data, p0, one.drop_last(), p0));
        assert(one.last() == vs[0]);
    }
}
pub proof fn lemma_chain_n_full<'a, T: WireFormat<'a>>(data: Seq<u8>, p0: int, vs: Seq<T>, p1: int)
    requires chain_n::<T>(data, p0, vs, vs.len() as int, p1)
    ensures chain::<T>(data, p0, vs, p1), enc_n::<T>(vs, vs.len() as int) == seq_enc::<T>(vs).len()
{ reveal(chain_n); reveal(enc_n); assert(vs.subrange(0, vs.len() as int) =~= vs); }
pub proof fn lemma_enc_n_bound<'a, T: WireFormat<'a>>(vs: Seq<T>, i: int)
    requires 0 <= i < vs.len()
    ensures enc_n::<T>(vs, i + 1) == enc_n::<T>(vs, i) + vs[i].wf_enc().len(), enc_n::<T>(vs, i + 1) <= seq_enc::<T>(vs).len(), enc_n::<T>(vs, i) >= 0
{ reveal(enc_n); lemma_seq_enc_step::<T>(vs, i); }
pub proof fn lemma_seq_enc_one<'a, T: WireFormat<'a>>(v: T)
    ensures seq_enc::<T>(seq![v]) == v.wf_enc()
{
    let s = seq![v];
    assert(s.drop_last() =~= Seq::<T>::empty());
    assert(s.last() == v);
    assert(seq_enc::<T>(s.drop_last()) =~= Seq::<u8>::empty());
    assert(seq_enc::<T>(s) =~= seq_enc::<T>(s.drop_last()) + s.last().wf_enc());
    assert(seq_enc::<T>(s) =~= v.wf_enc());
}
pub proof fn lemma_enc_n_split<'a, T: WireFormat<'a>>(w0: Seq<T>, vs: Seq<T>)
    ensures seq_enc::<T>(w0 + vs) == seq_enc::<T>(w0) + seq_enc::<T>(vs), enc_n::<T>(w0 + vs, w0.len() as int) == seq_enc::<T>(w0).len()
    decreases vs.len()
{
    reveal(enc_n);
    assert((w0 + vs).subrange(0, w0.len() as int) =~= w0);
    if vs.len() == 0 { assert(w0 + vs =~= w0); assert(seq_enc::<T>(w0) + seq_enc::<T>(vs) =~= seq_enc::<T>(w0)); }
    else {
        lemma_enc_n_split::<T>(w0, vs.drop_last());
        assert((w0 + vs).drop_last() =~= w0 + vs.drop_last());
        assert((w0 + vs).last() == vs.last());
        assert(seq_enc::<T>(w0 + vs) =~= seq_enc::<T>(w0) + seq_enc::<T>(vs));
    }
}
pub proof fn lemma_chain_n_step_q<'a>(b: Seq<u8>, b2: Seq<u8>, p0: int, vs: Seq<Question<'a>>, i: int)
    requires 0 <= p0 <= b.len(), 0 <= i < vs.len(), b2.len() >= b.len(), b2.subrange(0, b.len() as int) =~= b,
             chain_n::<Question>(b, p0, vs, i, b.len() as int), Question::wf_dec(b2, b.len() as int, &vs[i], b2.len() as int)
    ensures chain_n::<Question>(b2, p0, vs, i + 1, b2.len() as int)
{ reveal(chain_n); lemma_step_q(b, b2, p0, vs, i); }
pub proof fn lemma_chain_n_step_rr<'a>(b: Seq<u8>, b2: Seq<u8>, p0: int, vs: Seq<ResourceRecord<'a>>, i: int)
    requires 0 <= p0 <= b.len(), 0 <= i < vs.len(), b2.len() >= b.len(), b2.subrange(0, b.len() as int) =~= b,
             chain_n::<ResourceRecord>(b, p0, vs, i, b.len() as int), ResourceRecord::wf_dec(b2, b.len() as int, &vs[i], b2.len() as int)
    ensures chain_n::<ResourceRecord>(b2, p0, vs, i + 1, b2.len() as int)
{ reveal(chain_n); lemma_step_rr(b, b2, p0, vs, i); }
/// a section written entry by entry after any prefix reads back as the same entries (element round trip lifted to sections)
pub proof fn lemma_section_rt_q<'a>(pre: Seq<u8>, vs: Seq<Question<'a>>)
    requires forall|i: int| 0 <= i < vs.len() ==> (#[trigger] vs[i]).wf_ok() && vs[i].wf_canon()
    ensures chain::<Question>(pre + seq_enc::<Question>(vs), pre.len() as int, vs, (pre + seq_enc::<Question>(vs)).len() as int) // @C02:decode-of-encode
    decreases vs.len()
{
    if vs.len() > 0 {
        let dl = vs.drop_last();
        let last = vs.last();
        assert forall|i: int| 0 <= i < dl.len() implies (#[trigger] dl[i]).wf_ok() && dl[i].wf_canon() by { assert(dl[i] == vs[i]); }
        lemma_section_rt_q(pre, dl);
        let e = seq_enc::<Question>(dl);
        let b = pre + e;
        let x = last.wf_enc();
        last.lemma_rt(b);
        lemma_qchain_stable(b, x, pre.len() as int, dl, b.len() as int);
        // chain(b + x, |pre|, vs, |b + x|) by definition, with the boundary |b| as witness
        assert(Question::wf_dec(b + x, b.len() as int, &vs.last(), (b + x).len() as int));
        assert(chain::<Question>(b + x, pre.len() as int, vs.drop_last(), b.len() as int));
        assert(chain::<Question>(b + x, pre.len() as int, vs, (b + x).len() as int));
        lemma_concat_assoc(pre, e, x);
        assert(seq_enc::<Question>(vs) == e + x);
    } else {
        assert(pre + seq_enc::<Question>(vs) =~= pre);
    }
}
pub proof fn lemma_section_rt_rr<'a>(pre: Seq<u8>, vs: Seq<ResourceRecord<'a>>)
    requires forall|i: int| 0 <= i < vs.len() ==> (#[trigger] vs[i]).wf_ok() && vs[i].wf_canon()
    ensures chain::<ResourceRecord>(pre + seq_enc::<ResourceRecord>(vs), pre.len() as int, vs, (pre + seq_enc::<ResourceRecord>(vs)).len() as int) // @C02:decode-of-encode
    decreases vs.len()
{
    if vs.len() > 0 {
        let dl = vs.drop_last();
        let last = vs.last();
        assert forall|i: int| 0 <= i < dl.len() implies (#[trigger] dl[i]).wf_ok() && dl[i].wf_canon() by { assert(dl[i] == vs[i]); }
        lemma_section_rt_rr(pre, dl);
        let e = seq_enc::<ResourceRecord>(dl);
        let b = pre + e;
        let x = last.wf_enc();
        last.lemma_rt(b);
        lemma_rrchain_stable(b, x, pre.len() as int, dl, b.len() as int);
        // chain(b + x, |pre|, vs, |b + x|) by definition, with the boundary |b| as witness
        assert(ResourceRecord::wf_dec(b + x, b.len() as int, &vs.last(), (b + x).len() as int));
        assert(chain::<ResourceRecord>(b + x, pre.len() as int, vs.drop_last(), b.len() as int));
        assert(chain::<ResourceRecord>(b + x, pre.len() as int, vs, (b + x).len() as int));
        lemma_concat_assoc(pre, e, x);
        assert(seq_enc::<ResourceRecord>(vs) == e + x);
    } else {
        assert(pre + seq_enc::<ResourceRecord>(vs) =~= pre);
    }
}
pub proof fn lemma_concat_assoc(a: Seq<u8>, b: Seq<u8>, c: Seq<u8>) ensures a + (b + c) == a + b + c { assert(a + (b + c) =~= a + b + c); }
/// the wire-level additional section [OPT pseudo-record] + additional records: entries within limits, encoding = OPT record + records
pub proof fn lemma_w0_all<'a>(w0: Seq<ResourceRecord<'a>>, adds: Seq<ResourceRecord<'a>>, oe: Seq<u8>)
    requires
        w0.len() <= 1,
        w0.len() == 0 ==> oe.len() == 0,
        w0.len() == 1 ==> w0[0].wf_ok() && w0[0].wf_canon() && w0[0].wf_enc() == oe,
        forall|i: int| 0 <= i < adds.len() ==> (#[trigger] adds[i]).wf_ok() && adds[i].wf_canon(),
    ensures
        forall|i: int| 0 <= i < (w0 + adds).len() ==> (#[trigger] (w0 + adds)[i]).wf_ok() && (w0 + adds)[i].wf_canon(),
        seq_enc::<ResourceRecord>(w0 + adds) == oe + seq_enc::<ResourceRecord>(adds),
{
    let all = w0 + adds;
    lemma_enc_n_split::<ResourceRecord>(w0, adds);
    if w0.len() == 1 {
        lemma_seq_enc_one::<ResourceRecord>(w0[0]);
        assert(w0 =~= seq![w0[0]]);
    } else {
        assert(w0 =~= Seq::<ResourceRecord>::empty());
        assert(seq_enc::<ResourceRecord>(w0) =~= Seq::<u8>::empty());
        assert(oe =~= Seq::<u8>::empty());
    }
    assert forall|i: int| 0 <= i < all.len() implies (#[trigger] all[i]).wf_ok() && all[i].wf_canon() by {
        if i < w0.len() { assert(all[i] == w0[i]); } else { assert(all[i] == adds[i - w0.len()]); }
    }
}
/// the four sections written after a 12-octet header: chains at the expected boundaries
pub proof fn lemma_msg_chains<'a>(e0: Seq<u8>, qs: Seq<Question<'a>>, ans: Seq<ResourceRecord<'a>>, nss: Seq<ResourceRecord<'a>>, all: Seq<ResourceRecord<'a>>)
    requires
        e0.len() == 12,
        forall|i: int| 0 <= i < qs.len() ==> (#[trigger] qs[i]).wf_ok() && qs[i].wf_canon(),
        forall|i: int| 0 <= i < ans.len() ==> (#[trigger] ans[i]).wf_ok() && ans[i].wf_canon(),
        forall|i: int| 0 <= i < nss.len() ==> (#[trigger] nss[i]).wf_ok() && nss[i].wf_canon(),
        forall|i: int| 0 <= i < all.len() ==> (#[trigger] all[i]).wf_ok() && all[i].wf_canon(),
    ensures ({
        let qe = seq_enc::<Question>(qs); let ae = seq_enc::<ResourceRecord>(ans); let ne = seq_enc::<ResourceRecord>(nss);
        let m = e0 + qe + ae + ne + seq_enc::<ResourceRecord>(all);
        let p1 = 12 + qe.len() as int; let p2 = p1 + ae.len() as int; let p3 = p2 + ne.len() as int;
        &&& m.len() >= 12 && m.subrange(0, 12) == e0
        &&& p3 <= m.len()
        &&& chain::<Question>(m, 12, qs, p1)
        &&& chain::<ResourceRecord>(m, p1, ans, p2)
        &&& chain::<ResourceRecord>(m, p2, nss, p3)
        &&& chain::<ResourceRecord>(m, p3, all, m.len() as int)
    }),
{
    let b1 = e0 + seq_enc::<Question>(qs);
    let b2 = b1 + seq_enc::<ResourceRecord>(ans);
    let b3 = b2 + seq_enc::<ResourceRecord>(nss);
    let m = b3 + seq_enc::<ResourceRecord>(all);
    lemma_section_rt_q(e0, qs);
    lemma_section_rt_rr(b1, ans);
    lemma_section_rt_rr(b2, nss);
    lemma_section_rt_rr(b3, all);
    // one concatenation at a time: each earlier chain survives the next append
    lemma_prefix_concat(b1, seq_enc::<ResourceRecord>(ans));
    lemma_prefix_concat(b2, seq_enc::<ResourceRecord>(nss));
    lemma_prefix_concat(b3, seq_enc::<ResourceRecord>(all));
    lemma_keep_q(b1, b2, 12, qs, b1.len() as int);
    lemma_keep_q(b2, b3, 12, qs, b1.len() as int);
    lemma_keep_q(b3, m, 12, qs, b1.len() as int);
    lemma_keep_rr(b2, b3, b1.len() as int, ans, b2.len() as int);
    lemma_keep_rr(b3, m, b1.len() as int, ans, b2.len() as int);
    lemma_keep_rr(b3, m, b2.len() as int, nss, b3.len() as int);
    assert(m.subrange(0, 12) == e0) by {
        assert forall|j: int| 0 <= j < 12 implies m[j] == e0[j] by { assert(m[j] == b3[j] && b3[j] == b2[j] && b2[j] == b1[j] && b1[j] == e0[j]); }
        assert(m.subrange(0, 12) =~= e0);
    }
}
pub proof fn lemma_prefix_concat(b: Seq<u8>, x: Seq<u8>) ensures (b + x).len() >= b.len(), (b + x).subrange(0, b.len() as int) =~= b {}
/// every entry of a section decoded from a DNS-sized message can be written back
pub proof fn lemma_chain_ok_q<'a>(data: Seq<u8>, p0: int, vs: Seq<Question<'a>>, p1: int)
    requires chain::<Question>(data, p0, vs, p1), 0 <= p0, data.len() <= 65535
    ensures forall|i: int| 0 <= i < vs.len() ==> (#[trigger] vs[i]).wf_ok() && vs[i].wf_canon()
    decreases vs.len()
{
    if vs.len() > 0 {
        let q = choose|q: int| p0 <= q <= p1 && chain::<Question>(data, p0, vs.drop_last(), q) && #[trigger] Question::wf_dec(data, q, &vs.last(), p1);
        lemma_chain_ok_q(data, p0, vs.drop_last(), q);
        Question::lemma_dec_ok(data, q, &vs.last(), p1);
        assert forall|i: int| 0 <= i < vs.len() implies (#[trigger] vs[i]).wf_ok() && vs[i].wf_canon() by {
            if i < vs.len() - 1 { assert(vs.drop_last()[i] == vs[i]); }
        }
    }
}
pub proof fn lemma_chain_ok_rr<'a>(data: Seq<u8>, p0: int, vs: Seq<ResourceRecord<'a>>, p1: int)
    requires chain::<ResourceRecord>(data, p0, vs, p1), 0 <= p0, data.len() <= 65535,
             forall|i: int| 0 <= i < vs.len() ==> (#[trigger] vs[i]).wf_fit()
    ensures forall|i: int| 0 <= i < vs.len() ==> (#[trigger] vs[i]).wf_ok() && vs[i].wf_canon()
    decreases vs.len()
{
    if vs.len() > 0 {
        let q = choose|q: int| p0 <= q <= p1 && chain::<ResourceRecord>(data, p0, vs.drop_last(), q) && #[trigger] ResourceRecord::wf_dec(data, q, &vs.last(), p1);
        assert forall|i: int| 0 <= i < vs.drop_last().len() implies (#[trigger] vs.drop_last()[i]).wf_fit() by { assert(vs.drop_last()[i] == vs[i]); }
        lemma_chain_ok_rr(data, p0, vs.drop_last(), q);
        ResourceRecord::lemma_dec_ok(data, q, &vs.last(), p1);
        assert forall|i: int| 0 <= i < vs.len() implies (#[trigger] vs[i]).wf_ok() && vs[i].wf_canon() by {
            if i < vs.len() - 1 { assert(vs.drop_last()[i] == vs[i]); }
        }
    }
}
/// the additional records kept after lifting the OPT record are entries of the wire-level section
pub proof fn lemma_lift_ok<'a>(add: Seq<ResourceRecord<'a>>, kept: Seq<ResourceRecord<'a>>, opt: Option<crate::rdata::OPT<'a>>)
    requires opt_lifted(add, kept, opt), forall|i: int| 0 <= i < add.len() ==> (#[trigger] add[i]).wf_ok() && add[i].wf_canon(),
    ensures
        forall|i: int| 0 <= i < kept.len() ==> (#[trigger] kept[i]).wf_ok() && kept[i].wf_canon(),
        opt is Some ==> kept.len() == add.len() - 1 && opt.unwrap().wf_ok() && opt.unwrap().wf_enc().len() <= 65535,
        opt is None ==> kept.len() == add.len() && forall|i: int| 0 <= i < kept.len() ==> rdata_type(&(#[trigger] kept[i]).rdata) != crate::TYPE::OPT,
{
    if exists|i: int| 0 <= i < add.len() && rdata_type(&(#[trigger] add[i]).rdata) == crate::TYPE::OPT {
        let i = choose|i: int| 0 <= i < add.len() && #[trigger] add[i].rdata is OPT
            && (forall|j: int| 0 <= j < i ==> rdata_type(&(#[trigger] add[j]).rdata) != crate::TYPE::OPT)
            && kept == add.remove(i) && opt == Some(add[i].rdata->OPT_0);
        assert forall|k: int| 0 <= k < kept.len() implies (#[trigger] kept[k]).wf_ok() && kept[k].wf_canon() by {
            if k < i { assert(kept[k] == add[k]); } else { assert(kept[k] == add[k + 1]); }
        }
        assert(add[i].wf_ok());
        (add[i].rdata->OPT_0).lemma_fits();
    }
}
/// two sections are observably equal: same length, entries pairwise wf_eqv
pub open spec fn seq_eqv<'a, T: WireFormat<'a>>(a: Seq<T>, b: Seq<T>) -> bool {
    a.len() == b.len() && forall|i: int| 0 <= i < a.len() ==> (#[trigger] a[i]).wf_eqv(&b[i])
}
/// a chain of n entries starting at p0 is determined by the bytes (decoder determinism lifted to sections)
pub proof fn lemma_chain_det<'a, T: WireFormat<'a>>(data: Seq<u8>, p0: int, a: Seq<T>, e1: int, b: Seq<T>, e2: int)
    requires chain::<T>(data, p0, a, e1), chain::<T>(data, p0, b, e2), a.len() == b.len()
    ensures e1 == e2, seq_eqv::<T>(a, b)
    decreases a.len()
{
    if a.len() > 0 {
        let qa = choose|q: int| p0 <= q <= e1 && chain::<T>(data, p0, a.drop_last(), q) && #[trigger] T::wf_dec(data, q, &a.last(), e1);
        let qb = choose|q: int| p0 <= q <= e2 && chain::<T>(data, p0, b.drop_last(), q) && #[trigger] T::wf_dec(data, q, &b.last(), e2);
        lemma_chain_det::<T>(data, p0, a.drop_last(), qa, b.drop_last(), qb);
        T::lemma_det(data, qa, &a.last(), e1, &b.last(), e2);
        assert forall|i: int| 0 <= i < a.len() implies (#[trigger] a[i]).wf_eqv(&b[i]) by {
            if i < a.len() - 1 { assert(a.drop_last()[i] == a[i] && b.drop_last()[i] == b[i]); }
        }
    }
}
/// a prefix of a chain is a chain
pub proof fn lemma_chain_take<'a, T: WireFormat<'a>>(data: Seq<u8>, p0: int, vs: Seq<T>, e: int, k: int)
    requires chain::<T>(data, p0, vs, e), 0 <= k <= vs.len()
    ensures exists|q: int| #[trigger] chain::<T>(data, p0, vs.subrange(0, k), q)
    decreases vs.len() - k
{
    if k == vs.len() {
        assert(vs.subrange(0, k) =~= vs);
    } else {
        let q = choose|q: int| p0 <= q <= e && chain::<T>(data, p0, vs.drop_last(), q) && #[trigger] T::wf_dec(data, q, &vs.last(), e);
        lemma_chain_take::<T>(data, p0, vs.drop_last(), q, k);
        assert(vs.drop_last().subrange(0, k) =~= vs.subrange(0, k));
    }
}
/// completeness helper: if a full section `vs` decodes from p0 and the parser has read the prefix `done` up to pos, then the
/// next entry of `vs` decodes at pos
pub proof fn lemma_chain_next<'a, T: WireFormat<'a>>(data: Seq<u8>, p0: int, vs: Seq<T>, e: int, done: Seq<T>, pos: int)
    requires chain::<T>(data, p0, vs, e), chain::<T>(data, p0, done, pos), done.len() < vs.len()
    ensures exists|e2: int| #[trigger] T::wf_dec(data, pos, &vs[done.len() as int], e2)
{
    let k = done.len() as int;
    lemma_chain_take::<T>(data, p0, vs, e, k + 1);
    let q1 = choose|q: int| #[trigger] chain::<T>(data, p0, vs.subrange(0, k + 1), q);
    let pre = vs.subrange(0, k + 1);
    let q = choose|q: int| p0 <= q <= q1 && chain::<T>(data, p0, pre.drop_last(), q) && #[trigger] T::wf_dec(data, q, &pre.last(), q1);
    assert(pre.drop_last() =~= vs.subrange(0, k));
    assert(pre.last() == vs[k]);
    lemma_chain_det::<T>(data, p0, vs.subrange(0, k), q, done, pos);
    assert(T::wf_dec(data, pos, &vs[k], q1));
}
/// observably equal records have the same record type (and are OPT records together)
pub proof fn lemma_eqv_type(a: &ResourceRecord, b: &ResourceRecord)
    requires a.wf_eqv(b)
    ensures rdata_type(&a.rdata) == rdata_type(&b.rdata), (a.rdata is OPT) == (b.rdata is OPT),
            a.rdata is OPT ==> (a.rdata->OPT_0).wf_eqv(&(b.rdata->OPT_0)),
{}
pub open spec fn opt_eqv(a: Option<crate::rdata::OPT>, b: Option<crate::rdata::OPT>) -> bool {
    match (a, b) { (None, None) => true, (Some(x), Some(y)) => x.wf_eqv(&y), _ => false }
}
/// lifting the first OPT record out of observably equal additional sections gives observably equal results
pub proof fn lemma_lift_det<'a>(add1: Seq<ResourceRecord<'a>>, add2: Seq<ResourceRecord<'a>>, k1: Seq<ResourceRecord<'a>>, k2: Seq<ResourceRecord<'a>>,
        o1: Option<crate::rdata::OPT<'a>>, o2: Option<crate::rdata::OPT<'a>>, lo: u16, r1: RCODE, r2: RCODE)
    requires seq_eqv::<ResourceRecord>(add1, add2), opt_lifted(add1, k1, o1), opt_lifted(add2, k2, o2),
             rcode_lifted(add1, lo, r1), rcode_lifted(add2, lo, r2)
    ensures seq_eqv::<ResourceRecord>(k1, k2), opt_eqv(o1, o2), r1 == r2
{
    assert forall|i: int| 0 <= i < add1.len() implies rdata_type(&(#[trigger] add1[i]).rdata) == rdata_type(&add2[i].rdata)
        && (add1[i].rdata is OPT) == (add2[i].rdata is OPT) by { lemma_eqv_type(&add1[i], &add2[i]); }
    if exists|i: int| 0 <= i < add1.len() && rdata_type(&(#[trigger] add1[i]).rdata) == crate::TYPE::OPT {
        let w = choose|i: int| 0 <= i < add1.len() && rdata_type(&(#[trigger] add1[i]).rdata) == crate::TYPE::OPT;
        assert(rdata_type(&add2[w].rdata) == crate::TYPE::OPT);
        let i1 = choose|i: int| 0 <= i < add1.len() && #[trigger] add1[i].rdata is OPT
            && (forall|j: int| 0 <= j < i ==> rdata_type(&(#[trigger] add1[j]).rdata) != crate::TYPE::OPT)
            && k1 == add1.remove(i) && o1 == Some(add1[i].rdata->OPT_0);
        let i2 = choose|i: int| 0 <= i < add2.len() && #[trigger] add2[i].rdata is OPT
            && (forall|j: int| 0 <= j < i ==> rdata_type(&(#[trigger] add2[j]).rdata) != crate::TYPE::OPT)
            && k2 == add2.remove(i) && o2 == Some(add2[i].rdata->OPT_0);
        assert(rdata_type(&add1[i1].rdata) == crate::TYPE::OPT && rdata_type(&add2[i2].rdata) == crate::TYPE::OPT);
        if i1 < i2 { assert(rdata_type(&add2[i1].rdata) != crate::TYPE::OPT); }
        if i2 < i1 { assert(rdata_type(&add1[i2].rdata) != crate::TYPE::OPT); }
        assert(i1 == i2);
        lemma_eqv_type(&add1[i1], &add2[i1]);
        assert forall|i: int| 0 <= i < k1.len() implies (#[trigger] k1[i]).wf_eqv(&k2[i]) by {
            if i < i1 { assert(k1[i] == add1[i] && k2[i] == add2[i]); } else { assert(k1[i] == add1[i + 1] && k2[i] == add2[i + 1]); }
        }
        let j1 = choose|i: int| 0 <= i < add1.len() && #[trigger] add1[i].rdata is OPT
            && (forall|j: int| 0 <= j < i ==> rdata_type(&(#[trigger] add1[j]).rdata) != crate::TYPE::OPT) && r1 == rcode_join(add1[i].ttl, lo);
        let j2 = choose|i: int| 0 <= i < add2.len() && #[trigger] add2[i].rdata is OPT
            && (forall|j: int| 0 <= j < i ==> rdata_type(&(#[trigger] add2[j]).rdata) != crate::TYPE::OPT) && r2 == rcode_join(add2[i].ttl, lo);
        assert(rdata_type(&add1[j1].rdata) == crate::TYPE::OPT && rdata_type(&add2[j2].rdata) == crate::TYPE::OPT);
        if j1 < i1 { assert(rdata_type(&add1[j1].rdata) != crate::TYPE::OPT); }
        if i1 < j1 { assert(rdata_type(&add1[i1].rdata) != crate::TYPE::OPT); }
        if j2 < i1 { assert(rdata_type(&add2[j2].rdata) != crate::TYPE::OPT); }
        if i1 < j2 { assert(rdata_type(&add2[i1].rdata) != crate::TYPE::OPT); }
        assert(j1 == i1 && j2 == i1);
        assert(add1[i1].ttl == add2[i1].ttl);
    } else {
        assert forall|i: int| 0 <= i < add2.len() implies rdata_type(&(#[trigger] add2[i]).rdata) != crate::TYPE::OPT by {
            assert(rdata_type(&add1[i].rdata) != crate::TYPE::OPT);
        }
    }
}
/// write side of the OPT lifting: [OPT pseudo-record] + additional records (none of them OPT) lifts back to exactly those
pub proof fn lemma_lift_build<'a>(w0: Seq<ResourceRecord<'a>>, adds: Seq<ResourceRecord<'a>>, opt: Option<crate::rdata::OPT<'a>>, rc: RCODE)
    requires
        w0.len() == (if opt is Some { 1int } else { 0int }),
        opt is Some ==> w0[0].rdata == crate::rdata::RData::OPT(opt.unwrap()) && w0[0].ttl == opt_ttl(rc, opt.unwrap().version),
        opt is None ==> rcode_code(rc) < 16,
        opt is None ==> forall|i: int| 0 <= i < adds.len() ==> rdata_type(&(#[trigger] adds[i]).rdata) != crate::TYPE::OPT,
    ensures
        opt_lifted(w0 + adds, adds, opt),
        rcode_lifted(w0 + adds, rcode_code(rc) & 0xF, rc),
{
    let add = w0 + adds;
    if opt is Some {
        assert(add[0] == w0[0]);
        assert(add.remove(0) =~= adds);
        assert(rdata_type(&add[0].rdata) == crate::TYPE::OPT);
        assert(add[0].rdata is OPT);
        lemma_rcode_with_opt(rc, opt.unwrap().version);
        assert(opt_lifted(add, adds, opt));
        assert(rcode_lifted(add, rcode_code(rc) & 0xF, rc));
    } else {
        assert(add =~= adds);
        lemma_rcode_no_opt(rc);
    }
}
/// the 12-bit response code written as header nibble + OPT TTL octet reads back as itself
pub proof fn lemma_rcode_with_opt(rc: RCODE, ver: u8)
    ensures rcode_join(opt_ttl(rc, ver), rcode_code(rc) & 0xF) == rc
{
    reveal(rcode_join);
    let code = rcode_code(rc);
    let t = opt_ttl(rc, ver);
    let v = ver as u32;
    assert(code <= 10 || code == 16 || code == 17);
    assert((((t >> 24u32) as u16) << 4u16) | (code & 0xFu16) == code && (code & 0xFu16) <= 10) by(bit_vector)
        requires t == ((code as u32 >> 4u32) << 24u32) | (v << 16u32), code <= 10 || code == 16 || code == 17, v <= 255;
    let lo = code & 0xF;
    assert(rcode_code(rcode_of_code(lo)) == lo);
}
/// without an OPT record only codes 0..15 survive (RFC 1035 4.1.1: RCODE is a 4-bit field)
pub proof fn lemma_rcode_no_opt(rc: RCODE)
    requires rcode_code(rc) < 16
    ensures rcode_of_code(rcode_code(rc) & 0xF) == rc
{
    let code = rcode_code(rc);
    assert(code & 0xFu16 == code) by(bit_vector) requires code < 16;
}
impl<'a> Packet<'a> {
    pub closed spec fn hdr(&self) -> Header<'a> { self.header }
    /// every entry reads back as itself; OPT data lives only in the header (never in additional_records)
    pub closed spec fn pkt_canon(&self) -> bool {
        &&& seq_canon::<Question>(self.questions@) && seq_canon::<ResourceRecord>(self.answers@)
        &&& seq_canon::<ResourceRecord>(self.name_servers@) && seq_canon::<ResourceRecord>(self.additional_records@)
        &&& (self.header.opt is None ==> forall|i: int| 0 <= i < self.additional_records@.len() ==> rdata_type(&(#[trigger] self.additional_records@[i]).rdata) != crate::TYPE::OPT)
        &&& self.pkt_enc().len() <= 65535
        // a response code above 15 needs the OPT record to carry its upper bits (RFC 6891 6.1.3)
        &&& (self.header.opt is None ==> rcode_code(self.header.response_code) < 16)
    }
    /// "assembled through the public constructors and within DNS size limits"
    pub closed spec fn pkt_ok(&self) -> bool {
        &&& seq_ok::<Question>(self.questions@) && seq_ok::<ResourceRecord>(self.answers@)
        &&& seq_ok::<ResourceRecord>(self.name_servers@) && seq_ok::<ResourceRecord>(self.additional_records@)
        &&& (self.header.opt is Some ==> self.header.opt.unwrap().wf_ok() && self.header.opt.unwrap().wf_enc().len() <= 65535)
    }
    /// the four section counts fit their 16-bit header fields (the writers refuse a packet for which they do not:
    /// post-condition of write_header, not a precondition)
    pub closed spec fn counts_fit(&self) -> bool {
        self.questions@.len() <= 65535 && self.answers@.len() <= 65535 && self.name_servers@.len() <= 65535
        && self.additional_records@.len() + (if self.header.opt is Some { 1int } else { 0int }) <= 65535
    }
    /// RFC 1035 4.1: header, question, answer, authority, additional (the OPT pseudo-record first)
    pub closed spec fn pkt_enc(&self) -> Seq<u8> {
        hdr_enc(&self.header, self.questions@.len() as u16, self.answers@.len() as u16, self.name_servers@.len() as u16,
                (self.additional_records@.len() + if self.header.opt is Some { 1int } else { 0int }) as u16)
        + seq_enc::<Question>(self.questions@) + seq_enc::<ResourceRecord>(self.answers@) + seq_enc::<ResourceRecord>(self.name_servers@)
        + opt_rr_enc(&self.header) + seq_enc::<ResourceRecord>(self.additional_records@)
    }
    /// the message `data` decodes to this packet
    pub closed spec fn dec(&self, data: Seq<u8>) -> bool {
        pkt_dec(data, self.questions@, self.answers@, self.name_servers@, self.additional_records@, &self.header)
    }
    /// what the plain writer loops need of pkt_ok, behind one name
    pub closed spec fn plain_ok(&self) -> bool {
        &&& seq_ok::<Question>(self.questions@) && seq_ok::<ResourceRecord>(self.answers@)
        &&& seq_ok::<ResourceRecord>(self.name_servers@) && seq_ok::<ResourceRecord>(self.additional_records@)
    }
    proof fn lemma_plain_ok(&self) requires self.pkt_ok() ensures self.plain_ok() {}
    proof fn lemma_plain_entry(&self, k: int, i: int)
        requires self.plain_ok(), 0 <= i
        ensures
            k == 0 && i < self.questions@.len() ==> self.questions@[i].wf_ok(),
            k == 1 && i < self.answers@.len() ==> self.answers@[i].wf_ok(),
            k == 2 && i < self.name_servers@.len() ==> self.name_servers@[i].wf_ok(),
            k == 3 && i < self.additional_records@.len() ==> self.additional_records@[i].wf_ok(),
    {}
    /// what the writer loops need of pkt_ok / pkt_canon, behind one name
    pub closed spec fn entries_ok(&self) -> bool {
        &&& seq_ok::<Question>(self.questions@) && seq_ok::<ResourceRecord>(self.answers@)
        &&& seq_ok::<ResourceRecord>(self.name_servers@) && seq_ok::<ResourceRecord>(self.additional_records@)
        &&& seq_canon::<Question>(self.questions@) && seq_canon::<ResourceRecord>(self.answers@)
        &&& seq_canon::<ResourceRecord>(self.name_servers@) && seq_canon::<ResourceRecord>(self.additional_records@)
    }
    proof fn lemma_limits(&self)
        requires self.pkt_ok(), self.pkt_canon()
        ensures self.entries_ok(), self.pkt_enc().len() <= 65535
    {}
    /// entry i of section k (0 questions, 1 answers, 2 authority, 3 additional) is within limits and canonical
    proof fn lemma_entry(&self, k: int, i: int)
        requires self.entries_ok(), 0 <= i
        ensures
            k == 0 && i < self.questions@.len() ==> self.questions@[i].wf_ok() && self.questions@[i].wf_canon(),
            k == 1 && i < self.answers@.len() ==> self.answers@[i].wf_ok() && self.answers@[i].wf_canon(),
            k == 2 && i < self.name_servers@.len() ==> self.name_servers@[i].wf_ok() && self.name_servers@[i].wf_canon(),
            k == 3 && i < self.additional_records@.len() ==> self.additional_records@[i].wf_ok() && self.additional_records@[i].wf_canon(),
    {}
    /// the OPT pseudo-record built by Header::opt_rr: within limits, canonical, encodes as opt_rr_enc and reads back
    proof fn lemma_opt_rr(&self, rr: &ResourceRecord<'a>, pre: Seq<u8>)
        requires
            self.pkt_ok(), self.header.opt is Some,
            rr.name.lv() =~= Seq::<Seq<u8>>::empty(), rr.class == crate::CLASS::IN, rr.cache_flush == false,
            rr.ttl == opt_ttl(self.header.response_code, self.header.opt.unwrap().version),
            rr.rdata == crate::rdata::RData::OPT(self.header.opt.unwrap()),
        ensures
            rr.wf_ok(), rr.wf_canon(), rr.wf_enc() == opt_rr_enc(&self.header),
            ResourceRecord::wf_dec(pre + rr.wf_enc(), pre.len() as int, rr, (pre + rr.wf_enc()).len() as int),
    {
        lemma_opt_ttl_version(self.header.response_code, self.header.opt.unwrap().version);
        assert(rr.name.lv().len() == 0);
        assert(wl(rr.name.lv()) == 0);
        assert(rr.wf_ok());
        assert(rr.wf_canon());
        rr.lemma_rt(pre);
        lemma_enc_be_len(rr.ttl as nat, 4);
        assert(rr.wf_enc() =~= opt_rr_enc(&self.header)) by {
            assert(run(rr.name.lv()) =~= Seq::<u8>::empty());
            assert(name_enc(rr.name.lv()) =~= seq![0u8]);
        }
    }
    /// observable equality of packets: header fields, EDNS data, sections
    pub closed spec fn eqv(&self, other: &Self) -> bool {
        &&& self.header.id == other.header.id && self.header.opcode == other.header.opcode
        &&& self.header.response_code == other.header.response_code && pf_bits(self.header.z_flags) == pf_bits(other.header.z_flags)
        &&& opt_eqv(self.header.opt, other.header.opt)
        &&& seq_eqv::<Question>(self.questions@, other.questions@) && seq_eqv::<ResourceRecord>(self.answers@, other.answers@)
        &&& seq_eqv::<ResourceRecord>(self.name_servers@, other.name_servers@)
        &&& seq_eqv::<ResourceRecord>(self.additional_records@, other.additional_records@)
    }
    /// a message decodes to at most one packet (up to observable equality): Packet::parse is a function of the bytes,
    /// so whatever it returns for bytes known to decode to `self` is observably equal to `self`
    pub proof fn lemma_dec_det(&self, other: &Self, data: Seq<u8>)
        requires self.dec(data), other.dec(data)
        ensures self.eqv(other) // @C02:decoder-deterministic,C03:decoder-deterministic,C11:decoder-deterministic
    {
        let (a1, a2, a3, a4, aadd) = choose|p1: int, p2: int, p3: int, p4: int, add: Seq<ResourceRecord<'a>>|
            #[trigger] pkt_dec_w(data, self.questions@, self.answers@, self.name_servers@, self.additional_records@, &self.header, p1, p2, p3, p4, add);
        let (b1, b2, b3, b4, badd) = choose|p1: int, p2: int, p3: int, p4: int, add: Seq<ResourceRecord<'a>>|
            #[trigger] pkt_dec_w(data, other.questions@, other.answers@, other.name_servers@, other.additional_records@, &other.header, p1, p2, p3, p4, add);
        lemma_chain_det::<Question>(data, 12, self.questions@, a1, other.questions@, b1);
        lemma_chain_det::<ResourceRecord>(data, a1, self.answers@, a2, other.answers@, b2);
        lemma_chain_det::<ResourceRecord>(data, a2, self.name_servers@, a3, other.name_servers@, b3);
        lemma_chain_det::<ResourceRecord>(data, a3, aadd, a4, badd, b4);
        lemma_lift_det(aadd, badd, self.additional_records@, other.additional_records@, self.header.opt, other.header.opt,
                       hdr_flags(data) & 0xF, self.header.response_code, other.header.response_code);
    }
    /// the re-encoding of the packet is representable: every RDATA fits its 16-bit RDLENGTH, the message fits 65535 octets
    /// (`add` = the additional section as on the wire, i.e. including the OPT record that parse lifts into the header)
    pub closed spec fn fits(&self, add: Seq<ResourceRecord<'a>>) -> bool {
        &&& forall|i: int| 0 <= i < self.answers@.len() ==> (#[trigger] self.answers@[i]).wf_fit()
        &&& forall|i: int| 0 <= i < self.name_servers@.len() ==> (#[trigger] self.name_servers@[i]).wf_fit()
        &&& forall|i: int| 0 <= i < add.len() ==> (#[trigger] add[i]).wf_fit()
        &&& self.pkt_enc().len() <= 65535
    }
    /// the message decodes to this packet and the packet's re-encoding is representable
    pub closed spec fn dec_fits(&self, data: Seq<u8>) -> bool {
        exists|p1: int, p2: int, p3: int, p4: int, add: Seq<ResourceRecord<'a>>|
            #[trigger] pkt_dec_w(data, self.questions@, self.answers@, self.name_servers@, self.additional_records@, &self.header, p1, p2, p3, p4, add) && self.fits(add)
    }
    /// not one of the inputs of known finding D11: an unnamed RCODE nibble (11..15) without an OPT record
    pub closed spec fn rcode_named(&self, data: Seq<u8>) -> bool { self.header.opt is None ==> hdr_flags(data) & 0xF <= 10 }
    /// re-serialisation, specification level: a packet decoded from a DNS-sized message satisfies the preconditions of both
    /// writers (whose post-conditions then say that the output decodes to this packet again), provided its re-encoding is
    /// representable and the header does not carry one of the unnamed RCODE nibbles 11..15 without EDNS (known finding D11)
    pub proof fn lemma_parsed_ok(&self, data: Seq<u8>)
        requires self.dec_fits(data), data.len() <= 65535, self.rcode_named(data),
        ensures self.pkt_ok(), self.pkt_canon(), self.counts_fit(), // @C11:parsed-packets-can-be-written-back
    {
        let (p1, p2, p3, p4, add) = choose|p1: int, p2: int, p3: int, p4: int, add: Seq<ResourceRecord<'a>>|
            #[trigger] pkt_dec_w(data, self.questions@, self.answers@, self.name_servers@, self.additional_records@, &self.header, p1, p2, p3, p4, add) && self.fits(add);
        lemma_chain_ok_q(data, 12, self.questions@, p1);
        lemma_chain_ok_rr(data, p1, self.answers@, p2);
        lemma_chain_ok_rr(data, p2, self.name_servers@, p3);
        lemma_chain_ok_rr(data, p3, add, p4);
        lemma_lift_ok(add, self.additional_records@, self.header.opt);
        if self.header.opt is None {
            let lo = hdr_flags(data) & 0xF;
            assert(self.header.response_code == rcode_of_code(lo));
            assert(rcode_code(rcode_of_code(lo)) < 16);
        }
    }
    /// build-then-parse, specification level: the plain encoding of a packet within limits decodes to that packet
    /// (`w0` is the OPT pseudo-record handed over by the writer; it only serves as the witness of the wire-level additional section)
    proof fn lemma_plain_rt(&self, w0: Seq<ResourceRecord<'a>>)
        requires
            self.pkt_ok(), self.pkt_canon(), self.counts_fit(),
            w0.len() == (if self.header.opt is Some { 1int } else { 0int }),
            self.header.opt is Some ==> w0[0].name.lv() =~= Seq::<Seq<u8>>::empty() && w0[0].class == crate::CLASS::IN && w0[0].cache_flush == false
                && w0[0].ttl == opt_ttl(self.header.response_code, self.header.opt.unwrap().version)
                && w0[0].rdata == crate::rdata::RData::OPT(self.header.opt.unwrap()),
        ensures self.dec(self.pkt_enc()), // @C02:decode-of-encode
    {
        let e0 = hdr_enc(&self.header, self.questions@.len() as u16, self.answers@.len() as u16, self.name_servers@.len() as u16,
                (self.additional_records@.len() + if self.header.opt is Some { 1int } else { 0int }) as u16);
        let adds = self.additional_records@;
        let all = w0 + adds;
        let oe = opt_rr_enc(&self.header);
        assert(e0.len() == 12);
        if self.header.opt is Some { self.lemma_opt_rr(&w0[0], Seq::empty()); }
        lemma_w0_all(w0, adds, oe);
        lemma_msg_chains(e0, self.questions@, self.answers@, self.name_servers@, all);
        let qe = seq_enc::<Question>(self.questions@); let ae = seq_enc::<ResourceRecord>(self.answers@);
        let ne = seq_enc::<ResourceRecord>(self.name_servers@); let xe = seq_enc::<ResourceRecord>(adds);
        let m = e0 + qe + ae + ne + seq_enc::<ResourceRecord>(all);
        lemma_concat_assoc(e0 + qe + ae + ne, oe, xe);
        assert(self.pkt_enc() == m);
        self.lemma_assemble(m, 12 + qe.len() as int, 12 + qe.len() as int + ae.len() as int, 12 + qe.len() as int + ae.len() as int + ne.len() as int, w0);
    }
    /// a message made of this packet's header, its sections as chains and the OPT pseudo-record (if any) first in the
    /// additional section decodes to this packet
    proof fn lemma_assemble(&self, m: Seq<u8>, p1: int, p2: int, p3: int, w0: Seq<ResourceRecord<'a>>)
        requires
            self.pkt_ok(), self.pkt_canon(), self.counts_fit(), m.len() >= 12, 12 <= p1 <= p2 <= p3 <= m.len(),
            m.subrange(0, 12) == hdr_enc(&self.hdr(), self.questions@.len() as u16, self.answers@.len() as u16, self.name_servers@.len() as u16,
                (self.additional_records@.len() + if self.hdr().opt is Some { 1int } else { 0int }) as u16),
            chain::<Question>(m, 12, self.questions@, p1),
            chain::<ResourceRecord>(m, p1, self.answers@, p2),
            chain::<ResourceRecord>(m, p2, self.name_servers@, p3),
            chain::<ResourceRecord>(m, p3, w0 + self.additional_records@, m.len() as int),
            w0.len() == (if self.hdr().opt is Some { 1int } else { 0int }),
            self.hdr().opt is Some ==> w0[0].rdata == crate::rdata::RData::OPT(self.hdr().opt.unwrap())
                && w0[0].ttl == opt_ttl(self.hdr().response_code, self.hdr().opt.unwrap().version),
        ensures self.dec(m),
    {
        let add = w0 + self.additional_records@;
        let h = &self.header;
        lemma_hdr_rt(h, self.questions@.len() as u16, self.answers@.len() as u16, self.name_servers@.len() as u16,
            (self.additional_records@.len() + if self.header.opt is Some { 1int } else { 0int }) as u16, m);
        lemma_lift_build(w0, self.additional_records@, h.opt, h.response_code);
        assert(pkt_dec_w(m, self.questions@, self.answers@, self.name_servers@, self.additional_records@, &self.header,
                         p1, p2, p3, m.len() as int, add));
    }
}
/// RFC 1035 4.1 message layout (witnesses: section boundaries p1..p4 and the additional section `add` as on the wire)
pub open spec fn pkt_dec_w<'a>(data: Seq<u8>, qs: Seq<Question<'a>>, ans: Seq<ResourceRecord<'a>>, nss: Seq<ResourceRecord<'a>>,
        adds: Seq<ResourceRecord<'a>>, h: &Header<'a>, p1: int, p2: int, p3: int, p4: int, add: Seq<ResourceRecord<'a>>) -> bool {
    &&& data.len() >= 12
    &&& 12 <= p1 <= p2 <= p3 <= p4 <= data.len()
    &&& qs.len() == be16(data[4], data[5])
    &&& ans.len() == be16(data[6], data[7])
    &&& nss.len() == be16(data[8], data[9])
    &&& add.len() == be16(data[10], data[11])
    &&& chain::<Question>(data, 12, qs, p1)
    &&& chain::<ResourceRecord>(data, p1, ans, p2)
    &&& chain::<ResourceRecord>(data, p2, nss, p3)
    &&& chain::<ResourceRecord>(data, p3, add, p4)
    &&& opt_lifted(add, adds, h.opt)
    &&& rcode_lifted(add, hdr_flags(data) & 0xF, h.response_code)
    &&& h.id == be16(data[0], data[1])
    &&& h.opcode == opcode_of_code((hdr_flags(data) >> 11) & 0xF)
    &&& pf_bits(h.z_flags) == hdr_flags(data) & 0x87B0
    &&& hdr_flags(data) & 0x0040 == 0
}
pub open spec fn pkt_dec<'a>(data: Seq<u8>, qs: Seq<Question<'a>>, ans: Seq<ResourceRecord<'a>>, nss: Seq<ResourceRecord<'a>>,
        adds: Seq<ResourceRecord<'a>>, h: &Header<'a>) -> bool {
    exists|p1: int, p2: int, p3: int, p4: int, add: Seq<ResourceRecord<'a>>| #[trigger] pkt_dec_w(data, qs, ans, nss, adds, h, p1, p2, p3, p4, add)
}
}
"""

def hoist_with_capacity(c, rel, ctx, fn, bound_expr):
    """R8: `Vec::with_capacity(E)` -> `{ let vx_cap = E; assert(vx_cap <= bound); Vec::with_capacity(vx_cap) }`"""
    jb, be = c.body(rel, ctx, fn)
    s = c.rd(rel)
    i = s.find('Vec::with_capacity(', jb, be)
    if i < 0:
        raise AnchorLost('%s: Vec::with_capacity lost in %s' % (rel, fn))
    po = i + len('Vec::with_capacity')
    pc = match_close(s, po, '(', ')')
    arg = s[po + 1:pc - 1]
    new = '{ let vx_cap = %s; assert(vx_cap as int <= %s); /* @C01:allocation-bounded-by-input */ Vec::with_capacity(vx_cap) }' % (arg.strip(), bound_expr)
    c.wr(rel, s[:i] + new + s[pc:])
    c.log.append(('rewrite', rel, 'R8 x1 (with_capacity argument hoisted into a let for the allocation-bound obligation)'))

def apply(c):
    rel = 'dns/packet.rs'
    c.wrap(rel, "pub struct Packet<'a> {")
    c.append(rel, SPECS)
    verified = ('parse', 'parse_section', 'write_to', 'write_header', 'write_compressed_to', 'build_bytes_vec', 'build_bytes_vec_compressed', 'section_count')
    for fn in list_fns(c, rel, P_IMPL):
        if fn not in verified:
            c.mark(rel, P_IMPL, fn, '#[verifier::external]')
    # ---- parse_section (generic)
    hoist_with_capacity(c, rel, P_IMPL, 'parse_section', 'data.len() - *offset')
    c.contract(rel, P_IMPL, 'parse_section', """
        requires *old(offset) <= data.len(), data.len() <= isize::MAX,
        ensures
            r is Ok ==> r.unwrap()@.len() == items_count, // @C05:count-honoured
            r is Ok ==> *old(offset) <= *final(offset), // @C01:cursor-monotone
            r is Ok ==> *final(offset) <= data.len(), // @C01:cursor-in-bounds
            r is Ok ==> chain::<T>(data@, *old(offset) as int, r.unwrap()@, *final(offset) as int), // @C05:entries-in-order
            r is Err ==> forall|vs: Seq<T>, e: int| vs.len() == items_count ==> !chain::<T>(data@, *old(offset) as int, vs, e), // @C05:accepts-what-the-spec-decodes,C02:accepts-what-the-spec-decodes,C11:accepts-what-the-spec-decodes
""")
    c.loop_spec(rel, P_IMPL, 'parse_section', 0, """
            invariant
                *offset <= data.len(), data.len() <= isize::MAX, *old(offset) <= *offset,
                section_items@.len() == vx_it.index@,
                chain::<T>(data@, *old(offset) as int, section_items@, *offset as int), // @C05:entries-in-order
""", iter_name='vx_it', body_pre="""
            let ghost vx_q = *offset as int;
            let ghost vx_old = section_items@;
""")
    c.ghost(rel, P_IMPL, 'parse_section', "section_items.push(T::parse(data, offset)?);", """
            proof { assert(section_items@.drop_last() =~= vx_old); assert(T::wf_dec(data@, vx_q, &section_items@.last(), *offset as int)); }
""", where='after')
    c.try_exit(rel, P_IMPL, 'parse_section', 'T::parse', """
                proof {
                    // completeness: the entry at this offset does not decode, so no section of items_count entries does
                    assert forall|vs: Seq<T>, e: int| vs.len() == items_count implies !chain::<T>(data@, *old(offset) as int, vs, e) by {
                        if chain::<T>(data@, *old(offset) as int, vs, e) {
                            lemma_chain_next::<T>(data@, *old(offset) as int, vs, e, vx_old, vx_q);
                            let e2 = choose|e2: int| #[trigger] T::wf_dec(data@, vx_q, &vs[vx_old.len() as int], e2);
                            assert(T::wf_dec(data@, vx_q, &vs[vx_old.len() as int], e2));
                        }
                    }
                }""")
    # ---- parse
    # R6: Option::map with a closure capturing &mut, inlined
    s = c.rd(rel)
    m = re.search(r"additional_records\s*\.iter\(\)\s*\.position\(\|rr\| (rr\.rdata\.type_code\(\) == [\w:]+)\)\s*\.map\(\|i\| (additional_records\.\w+\(i\))\),?", s)
    if not m:
        raise AnchorLost('%s: OPT lifting expression lost' % rel)
    c.wr(rel, s[:m.start()] + """{
                let mut vx_iter = additional_records.iter();
                let ghost vx_it0 = vx_iter;
                let vx_pred = |rr: &ResourceRecord<'a>| -> (b: bool)
                    ensures b == (rdata_type(&rr.rdata) == crate::TYPE::OPT)
                    { %s };
                let ghost vx_p = vx_pred;
                proof {
                    assert(vx_it0.remaining().len() == vx_add.len());
                    assert(forall|j: int| 0 <= j < vx_add.len() ==> *(#[trigger] vx_it0.remaining()[j]) == vx_add[j]);
                }
                match vx_iter.position(vx_pred) {
                    Some(i) => {
                        proof {
                            lemma_chain_index::<ResourceRecord>(data@, vx_p3, vx_add, vx_p4, i as int);
                            assert(call_ensures(vx_p, (vx_it0.remaining()[i as int],), true));
                            assert(rdata_type(&vx_add[i as int].rdata) == crate::TYPE::OPT);
                            assert(vx_add[i as int].rdata is OPT);
                            assert forall|j: int| 0 <= j < i implies rdata_type(&(#[trigger] vx_add[j]).rdata) != crate::TYPE::OPT by {
                                assert(call_ensures(vx_p, (vx_it0.remaining()[j],), false));
                            }
                        }
                        let vx_removed = %s;
                        proof {
                            // the OPT record is taken out, the other additional records keep their order
                            assert(additional_records@ =~= vx_add.remove(i as int)); // @C09:opt-lifted,C05:additional-section-as-parsed,C11:opt-lifted
                            assert(vx_removed == vx_add[i as int]); // @C09:opt-lifted
                        }
                        Some(vx_removed)
                    }
                    None => {
                        proof {
                            assert forall|j: int| 0 <= j < vx_add.len() implies rdata_type(&(#[trigger] vx_add[j]).rdata) != crate::TYPE::OPT by {
                                assert(call_ensures(vx_p, (vx_it0.remaining()[j],), false));
                            }
                        }
                        None
                    }
                }
            },""" % (m.group(1), m.group(2)) + s[m.end():])
    c.log.append(('rewrite', rel, 'R6 x1 (Option::map over a closure capturing &mut inlined as match; iterator and predicate temporaries named)'))
    c.log.append(('closure-contract', rel, 'Packet::parse: position predicate gets `ensures b == (rdata_type(&rr.rdata) == TYPE::OPT)`'))
    c.contract(rel, P_IMPL, 'parse', """
        requires data.len() <= isize::MAX,
        ensures
            r is Ok ==> r.unwrap().dec(data@), // @C05:sections-follow-counts-and-rdlength,C09:opt-lifted,C08:packet-header
            data.len() < 12 ==> r is Err, // @C05:short-message-rejected
            r is Err ==> forall|p: Packet<'a>| !p.dec(data@), // @C02:accepts-what-the-spec-decodes,C11:accepts-what-the-spec-decodes,C05:accepts-what-the-spec-decodes
""")
    c.ghost(rel, P_IMPL, 'parse', "let answers = Self::parse_section(", "        let ghost vx_p1 = offset as int;", where='before')
    c.ghost(rel, P_IMPL, 'parse', "let name_servers =", "        let ghost vx_p2 = offset as int;", where='before')
    c.ghost(rel, P_IMPL, 'parse', "let mut additional_records: Vec<ResourceRecord> =", "        let ghost vx_p3 = offset as int;", where='before')
    c.ghost(rel, P_IMPL, 'parse', "header.extract_info_from_opt_rr(", "        let ghost vx_p4 = offset as int;\n        let ghost vx_add = additional_records@;", where='before')
    c.ghost(rel, P_IMPL, 'parse', "Ok(Self {", """
        proof {
            assert(opt_lifted(vx_add, additional_records@, header.opt)); // @C09:opt-lifted,C05:additional-section-as-parsed,C11:opt-lifted
            assert(rcode_lifted(vx_add, hdr_flags(data@) & 0xF, header.response_code)) by { reveal(rcode_join); } // @C09:rcode-recombined,C08:packet-rcode
            assert(pkt_dec_w(data@, questions@, answers@, name_servers@, additional_records@, &header, vx_p1, vx_p2, vx_p3, vx_p4, vx_add)); // @C05:sections-follow-counts-and-rdlength,C09:opt-lifted
        }
""", where='before')
    # completeness of Packet::parse (R13 on the five `?` that can actually fail)
    WIT = """let (w1, w2, w3, w4, wadd) = choose|p1: int, p2: int, p3: int, p4: int, add: Seq<ResourceRecord<'a>>|
                                #[trigger] pkt_dec_w(data@, p.questions@, p.answers@, p.name_servers@, p.additional_records@, &p.header, p1, p2, p3, p4, add);"""
    def none(extra):
        return """
                proof {
                    assert forall|p: Packet<'a>| !p.dec(data@) by {
                        if p.dec(data@) {
                            %s
                            %s
                        }
                    }
                }""" % (WIT, extra)
    # textual order of the calls is the order of the sections; rewrite from the last to the first so that occurrences stay valid
    c.try_exit(rel, P_IMPL, 'parse', 'Self::parse_section', none("""lemma_chain_det::<Question>(data@, 12, p.questions@, w1, questions@, vx_p1);
                            lemma_chain_det::<ResourceRecord>(data@, vx_p1, p.answers@, w2, answers@, vx_p2);
                            lemma_chain_det::<ResourceRecord>(data@, vx_p2, p.name_servers@, w3, name_servers@, vx_p3);
                            assert(chain::<ResourceRecord>(data@, vx_p3, wadd, w4));"""), occurrence=3)
    c.try_exit(rel, P_IMPL, 'parse', 'Self::parse_section', none("""lemma_chain_det::<Question>(data@, 12, p.questions@, w1, questions@, vx_p1);
                            lemma_chain_det::<ResourceRecord>(data@, vx_p1, p.answers@, w2, answers@, vx_p2);
                            assert(chain::<ResourceRecord>(data@, vx_p2, p.name_servers@, w3));"""), occurrence=2)
    c.try_exit(rel, P_IMPL, 'parse', 'Self::parse_section', none("""lemma_chain_det::<Question>(data@, 12, p.questions@, w1, questions@, vx_p1);
                            assert(chain::<ResourceRecord>(data@, vx_p1, p.answers@, w2));"""), occurrence=1)
    c.try_exit(rel, P_IMPL, 'parse', 'Self::parse_section', none("""assert(chain::<Question>(data@, 12, p.questions@, w1));"""), occurrence=0)
    c.try_exit(rel, P_IMPL, 'parse', 'Header::parse', none("""assert(data.len() >= 12 && hdr_flags(data@) & 0x0040 == 0);"""))
    # ---- write_header / write_to
    c.contract(rel, P_IMPL, 'section_count', """
        ensures (r is Ok) == (len <= 65535), r is Ok ==> r.unwrap() == len, // @C04:counts-not-truncated
""")
    c.contract(rel, P_IMPL, 'write_header', """
        ensures
            r is Ok ==> wrote(old(out), final(out), hdr_enc(&self.header, self.questions@.len() as u16, self.answers@.len() as u16,
                self.name_servers@.len() as u16, (self.additional_records@.len() + if self.header.opt is Some { 1int } else { 0int }) as u16)), // @C04:header-counts,C09:arcount-includes-opt
            r is Ok ==> self.counts_fit(), // @C04:counts-not-truncated
            !self.counts_fit() ==> r is Err, // @C04:counts-not-truncated
""", pre_body="\n        proof { crate::vx::axiom_vec_len_bound(&self.additional_records); }\n")
    c.contract(rel, P_IMPL, 'write_to', """
        requires self.pkt_ok(),
        ensures
            r is Ok ==> wrote(old(out), final(out), self.pkt_enc()), // @C04:exactly-the-entries,C02:packet-encoding,C09:one-opt-record
            r is Ok && self.pkt_canon() ==> self.dec(self.pkt_enc()), // @C02:decode-of-encode,C11:decode-of-encode
            r is Ok ==> self.counts_fit(), // @C04:counts-not-truncated
""", pre_body="""
        let ghost e0 = hdr_enc(&self.header, self.questions@.len() as u16, self.answers@.len() as u16, self.name_servers@.len() as u16,
                (self.additional_records@.len() + if self.header.opt is Some { 1int } else { 0int }) as u16);
        let ghost mut vx_w0: Seq<ResourceRecord> = Seq::empty();
        let ghost e1 = e0 + seq_enc::<Question>(self.questions@);
        let ghost e2 = e1 + seq_enc::<ResourceRecord>(self.answers@);
        let ghost e3 = e2 + seq_enc::<ResourceRecord>(self.name_servers@);
        let ghost e4 = e3 + opt_rr_enc(&self.header);
        let ghost vx_o0 = *out;
        proof { self.lemma_plain_ok(); }
""")
    # loops carry the opaque prefix encoding pref(vs, i): one lemma call per iteration, no sequence algebra in the loop query
    def loop(k, field, ty, base):
        c.loop_spec(rel, P_IMPL, 'write_to', k, """
            invariant self.plain_ok(), 0 <= vx_it%d.index@ <= self.%s@.len(),
                wrote(&vx_o0, out, %s + pref::<%s>(self.%s@, vx_it%d.index@ as int)),%s
""" % (k, field, base, ty, field, k, ' self.pkt_canon() ==> self.dec(self.pkt_enc()),' if k == 3 else ''), iter_name='vx_it%d' % k, body_pre="""
            let ghost vx_prev = *out;
            let ghost vx_i = vx_it%d.index@ as int;
            proof { self.lemma_plain_entry(%d, vx_i); }
""" % (k, k))
        c.ghost(rel, P_IMPL, 'write_to', "e.write_to(out)?;", """
            proof {
                lemma_pref_step::<%s>(self.%s@, vx_i);
                lemma_wrote_step(&vx_o0, &vx_prev, out, %s, pref::<%s>(self.%s@, vx_i), e.wf_enc(), pref::<%s>(self.%s@, vx_i + 1));
            }
""" % (ty, field, base, ty, field, ty, field), where='after', occurrence=k)
    def boundary(anchor, prev, ty_prev, nxt, ty_next, extra=''):
        txt = "        proof {"
        if prev:
            txt += " lemma_pref_full::<%s>(self.%s@);" % (ty_prev, prev)
        if nxt:
            txt += " lemma_pref_0::<%s>(self.%s@);" % (ty_next, nxt)
        txt += extra + " }"
        c.ghost(rel, P_IMPL, 'write_to', anchor, txt, where='before')
    boundary("for e in &self.questions", None, None, 'questions', 'Question', " assert(e0 + Seq::<u8>::empty() =~= e0);")
    boundary("for e in &self.answers", 'questions', 'Question', 'answers', 'ResourceRecord', " assert(e1 + Seq::<u8>::empty() =~= e1);")
    boundary("for e in &self.name_servers", 'answers', 'ResourceRecord', 'name_servers', 'ResourceRecord', " assert(e2 + Seq::<u8>::empty() =~= e2);")
    boundary("if let Some(rr) = self.header.opt_rr()", 'name_servers', 'ResourceRecord', None, None)
    c.ghost(rel, P_IMPL, 'write_to', "rr.write_to(out)?;", """
            let ghost vx_prev = *out;
            proof { self.lemma_opt_rr(&rr, Seq::empty()); }
""", where='before')
    c.ghost(rel, P_IMPL, 'write_to', "rr.write_to(out)?;", """
            proof { lemma_wrote_step(&vx_o0, &vx_prev, out, e3, Seq::empty(), rr.wf_enc(), opt_rr_enc(&self.header)); assert(e3 + Seq::<u8>::empty() =~= e3); vx_w0 = seq![rr]; }
""", where='after')
    boundary("for e in &self.additional_records", None, None, 'additional_records', 'ResourceRecord',
             " assert(e4 + Seq::<u8>::empty() =~= e4); if self.header.opt is None { assert(e3 + opt_rr_enc(&self.header) =~= e3); }"
             " if self.pkt_canon() { self.lemma_plain_rt(vx_w0); }")
    boundary("out.flush()?;", 'additional_records', 'ResourceRecord', None, None)
    loop(0, 'questions', 'Question', 'e0')
    loop(1, 'answers', 'ResourceRecord', 'e1')
    loop(2, 'name_servers', 'ResourceRecord', 'e2')
    loop(3, 'additional_records', 'ResourceRecord', 'e4')
    # ---- vector-returning entry points: same bytes as the writer-based ones (the same spec function / relation)
    c.contract(rel, P_IMPL, 'build_bytes_vec', """
        requires self.pkt_ok(),
        ensures
            r is Ok ==> r.unwrap()@ == self.pkt_enc(), // @C04:vec-and-writer-agree,C02:packet-encoding
            r is Ok && self.pkt_canon() ==> self.dec(r.unwrap()@), // @C02:build-then-parse-decodes-to-the-packet
""", pre_body="\n        broadcast use crate::vx::axiom_cursor_vec;\n")
    c.ghost(rel, P_IMPL, 'build_bytes_vec', "self.write_to(&mut out)?;", "        let ghost vx_o0 = out;\n        proof { assert(at_end(&vx_o0)); }", where='before')
    c.ghost(rel, P_IMPL, 'build_bytes_vec', "self.write_to(&mut out)?;", "        proof { assert(io_buf(&out) =~= self.pkt_enc()); }", where='after')
    c.contract(rel, P_IMPL, 'build_bytes_vec_compressed', """
        requires self.pkt_ok(), self.pkt_canon(),
        ensures
            r is Ok ==> self.dec(r.unwrap()@), // @C04:vec-and-writer-agree,C03:compressed-message-decodes-to-the-packet
            r is Ok ==> r.unwrap()@.len() <= self.pkt_enc().len(), // @C03:never-longer
""", pre_body="\n        broadcast use crate::vx::axiom_cursor_vec;\n")
    # ---- write_compressed_to: the whole message decodes to this packet (C03), is framed by the header counts (C04),
    #      carries the OPT record once (C09) and is never longer than the plain encoding
    W = 'write_compressed_to'
    c.mark(rel, P_IMPL, W, '#[verifier::rlimit(30)]')
    c.contract(rel, P_IMPL, W, """
        requires self.pkt_ok(), self.pkt_canon(), io_buf(old(out)).len() == 0, io_pos(old(out)) == 0,
        ensures
            r is Ok ==> at_end(final(out)),
            r is Ok ==> io_buf(final(out)).len() <= self.pkt_enc().len(), // @C03:never-longer
            r is Ok ==> self.dec(io_buf(final(out))), // @C03:compressed-message-decodes-to-the-packet,C04:counts-and-entries,C07:pointers-expand,C09:one-opt-record
""", pre_body="""
        let ghost e0 = hdr_enc(&self.header, self.questions@.len() as u16, self.answers@.len() as u16, self.name_servers@.len() as u16,
                (self.additional_records@.len() + if self.header.opt is Some { 1int } else { 0int }) as u16);
        let ghost lq = seq_enc::<Question>(self.questions@).len() as int;
        let ghost la = seq_enc::<ResourceRecord>(self.answers@).len() as int;
        let ghost ln = seq_enc::<ResourceRecord>(self.name_servers@).len() as int;
        let ghost lo = opt_rr_enc(&self.header).len() as int;
        let ghost lx = seq_enc::<ResourceRecord>(self.additional_records@).len() as int;
        proof {
            assert(e0.len() == 12);
            assert(self.pkt_enc().len() == 12 + lq + la + ln + lo + lx);
            self.lemma_limits();
        }
""")
    c.ghost(rel, P_IMPL, W, "let mut name_refs = HashMap::new();", """
        proof {
            broadcast use crate::dns::name::axiom_label_slice_key_model;
            lemma_refs_empty(name_refs@, io_buf(out));
            assert(io_buf(out) =~= e0);
            lemma_hdr12_intro(io_buf(out), e0);
            lemma_chain_n_0::<Question>(io_buf(out), 12, self.questions@);
        }
""", where='after')
    # the loops carry only opaque progress predicates (chain_n / enc_n / hdr12): no sequence algebra in the loop queries
    COMMON = """self.entries_ok(), at_end(out), refs_ok(name_refs@, io_buf(out)), hdr12(io_buf(out), e0),
                12 + lq + la + ln + lo + lx <= 65535, io_buf(out).len() >= 12, lo == opt_rr_enc(&self.header).len(),
                lq == seq_enc::<Question>(self.questions@).len(), la == seq_enc::<ResourceRecord>(self.answers@).len(),
                ln == seq_enc::<ResourceRecord>(self.name_servers@).len(), lx == seq_enc::<ResourceRecord>(self.additional_records@).len(),"""
    def cloop(k, vs, ty, base, p0, keep_inv, keep_proof, off='', field=None):
        field = field or vs
        step = 'lemma_chain_n_step_q' if ty == 'Question' else 'lemma_chain_n_step_rr'
        c.loop_spec(rel, P_IMPL, W, k, """
            invariant %s
                0 <= vx_c%d.index@ <= %s.len(),
                io_buf(out).len() <= %s + enc_n::<%s>(%s, %svx_c%d.index@ as int),
                chain_n::<%s>(io_buf(out), %s, %s, %svx_c%d.index@ as int, io_buf(out).len() as int),
                %s
""" % (COMMON, k, field, base, ty, vs, off, k, ty, p0, vs, off, k, keep_inv), iter_name='vx_c%d' % k, body_pre="""
            broadcast use crate::dns::name::axiom_label_slice_key_model;
            let ghost vx_b = io_buf(out);
            let ghost vx_i = %svx_c%d.index@ as int;
            proof { self.lemma_entry(%d, vx_c%d.index@ as int); lemma_enc_n_bound::<%s>(%s, vx_i); }
""" % (off, k, k, k, ty, vs))
        c.ghost(rel, P_IMPL, W, "e.write_compressed_to(out, &mut name_refs)?;", """
            proof {
                let b2 = io_buf(out);
                lemma_hdr12_keep(vx_b, b2, e0);
                %s
                %s(vx_b, b2, %s, %s, vx_i);
            }
""" % (keep_proof, step, p0, vs), where='after', occurrence=k)
    cloop(0, 'self.questions@', 'Question', '12', '12', '', '')
    KQ = 'chain::<Question>(io_buf(out), 12, self.questions@, vx_p1), 12 <= vx_p1 <= io_buf(out).len(),'
    PQ = 'lemma_keep_q(vx_b, b2, 12, self.questions@, vx_p1);'
    cloop(1, 'self.answers@', 'ResourceRecord', '12 + lq', 'vx_p1', KQ, PQ)
    KA = KQ + ' chain::<ResourceRecord>(io_buf(out), vx_p1, self.answers@, vx_p2), vx_p1 <= vx_p2 <= io_buf(out).len(),'
    PA = PQ + ' lemma_keep_rr(vx_b, b2, vx_p1, self.answers@, vx_p2);'
    cloop(2, 'self.name_servers@', 'ResourceRecord', '12 + lq + la', 'vx_p2', KA, PA)
    KN = KA + ' chain::<ResourceRecord>(io_buf(out), vx_p2, self.name_servers@, vx_p3), vx_p2 <= vx_p3 <= io_buf(out).len(),'
    PN = PA + ' lemma_keep_rr(vx_b, b2, vx_p2, self.name_servers@, vx_p3);'
    KX = KN + """
                vx_all == vx_w0 + self.additional_records@, vx_w0.len() == (if self.header.opt is Some { 1int } else { 0int }), // @C09:one-opt-record,C04:opt-record-counted-and-written-once,C03:opt-record
                lo == opt_rr_enc(&self.header).len(), seq_enc::<ResourceRecord>(vx_all).len() == lo + lx,
                self.header.opt is Some ==> vx_w0[0].rdata == crate::rdata::RData::OPT(self.header.opt.unwrap())
                    && vx_w0[0].ttl == opt_ttl(self.header.response_code, self.header.opt.unwrap().version), // @C09:one-opt-record,C04:opt-record-counted-and-written-once,C03:opt-record"""
    cloop(3, 'vx_all', 'ResourceRecord', '12 + lq + la + ln', 'vx_p3', KX,
          PN + ' assert(vx_all[vx_i] == self.additional_records@[vx_i - vx_w0.len()]);', off='vx_w0.len() + ', field='self.additional_records@')
    # section boundaries
    c.ghost(rel, P_IMPL, W, "for e in vx_c1: &self.answers", """
        let ghost vx_p1 = io_buf(out).len() as int;
        proof {
            lemma_chain_n_full::<Question>(io_buf(out), 12, self.questions@, vx_p1);
            lemma_chain_n_0::<ResourceRecord>(io_buf(out), vx_p1, self.answers@);
        }
""", where='before')
    c.ghost(rel, P_IMPL, W, "for e in vx_c2: &self.name_servers", """
        let ghost vx_p2 = io_buf(out).len() as int;
        proof {
            lemma_chain_n_full::<ResourceRecord>(io_buf(out), vx_p1, self.answers@, vx_p2);
            lemma_chain_n_0::<ResourceRecord>(io_buf(out), vx_p2, self.name_servers@);
        }
""", where='before')
    jb_w, be_w = c.body(rel, P_IMPL, W)
    has_opt_block = "if let Some(rr) = self.header.opt_rr() {" in c.rd(rel)[jb_w:be_w]
    P3DECL = """
        let ghost vx_p3 = io_buf(out).len() as int;
        let ghost mut vx_w0: Seq<ResourceRecord> = Seq::empty();
        proof {
            lemma_chain_n_full::<ResourceRecord>(io_buf(out), vx_p2, self.name_servers@, vx_p3);
        }
"""
    if has_opt_block:
        c.ghost(rel, P_IMPL, W, "if let Some(rr) = self.header.opt_rr() {", P3DECL, where='before')
        c.ghost(rel, P_IMPL, W, "rr.write_to(out)?;", """
                let ghost vx_bo = io_buf(out);
                proof {
                    self.lemma_opt_rr(&rr, vx_bo);
                    lemma_refs_append(name_refs@, vx_bo, rr.wf_enc());
                }
    """, where='before')
        c.ghost(rel, P_IMPL, W, "rr.write_to(out)?;", """
                proof {
                    let b2 = io_buf(out);
                    assert(b2 =~= vx_bo + rr.wf_enc());
                    vx_w0 = seq![rr];
                    assert(ResourceRecord::wf_dec(b2, vx_p3, &vx_w0[0], b2.len() as int));
                    lemma_seq_enc_one::<ResourceRecord>(rr);
                    lemma_hdr12_keep(vx_bo, b2, e0);
                    lemma_keep_q(vx_bo, b2, 12, self.questions@, vx_p1);
                    lemma_keep_rr(vx_bo, b2, vx_p1, self.answers@, vx_p2);
                    lemma_keep_rr(vx_bo, b2, vx_p2, self.name_servers@, vx_p3);
                }
    """, where='after')
    else:
        # the OPT block is optional for anchoring purposes: without it the contract is still spliced and the final
        # obligation (ARCOUNT / one OPT record) decides
        c.ghost(rel, P_IMPL, W, "for e in vx_c3: &self.additional_records", P3DECL, where='before')
    c.ghost(rel, P_IMPL, W, "for e in vx_c3: &self.additional_records", """
        let ghost vx_all = vx_w0 + self.additional_records@;
        proof {
            lemma_enc_n_split::<ResourceRecord>(vx_w0, self.additional_records@);
            if self.header.opt is Some { assert(vx_all[0] == vx_w0[0]); } else { assert(lo == 0); assert(seq_enc::<ResourceRecord>(vx_w0).len() == 0); }
            lemma_chain_n_first::<ResourceRecord>(io_buf(out), vx_p3, vx_all, vx_w0.len() as int);
        }
""", where='before')
    c.ghost(rel, P_IMPL, W, "out.flush()?;", """
        proof {
            lemma_chain_n_full::<ResourceRecord>(io_buf(out), vx_p3, vx_all, io_buf(out).len() as int);
            lemma_hdr12_elim(io_buf(out), e0);
            self.lemma_assemble(io_buf(out), vx_p1, vx_p2, vx_p3, vx_w0);
        }
""", where='before')
    c.wrap(rel, P_IMPL)
