"""Packet: parse / parse_section (C01, C05, C09), write_to / write_header (C02, C04, C09)."""
import re
from typed import list_fns
from xf import AnchorLost, match_close

P_IMPL = "impl<'a> Packet<'a> {"

SPECS = """verus!{
// header_buffer readers are closure-heavy one-liners outside Verus: assumed here with exactly the statements that the
// loop-free Kani harnesses header_peek_short_buffers / header_peek_layout prove on the real functions
pub assume_specification [crate::dns::header_buffer::questions] (buffer: &[u8]) -> (r: crate::Result<u16>)
    ensures buffer.len() >= 6 ==> r == Ok::<u16, crate::SimpleDnsError>(be16(buffer[4], buffer[5])), buffer.len() < 6 ==> r is Err;
pub assume_specification [crate::dns::header_buffer::answers] (buffer: &[u8]) -> (r: crate::Result<u16>)
    ensures buffer.len() >= 8 ==> r == Ok::<u16, crate::SimpleDnsError>(be16(buffer[6], buffer[7])), buffer.len() < 8 ==> r is Err;
pub assume_specification [crate::dns::header_buffer::name_servers] (buffer: &[u8]) -> (r: crate::Result<u16>)
    ensures buffer.len() >= 10 ==> r == Ok::<u16, crate::SimpleDnsError>(be16(buffer[8], buffer[9])), buffer.len() < 10 ==> r is Err;
pub assume_specification [crate::dns::header_buffer::additional_records] (buffer: &[u8]) -> (r: crate::Result<u16>)
    ensures buffer.len() >= 12 ==> r == Ok::<u16, crate::SimpleDnsError>(be16(buffer[10], buffer[11])), buffer.len() < 12 ==> r is Err;

/// std: first index whose element satisfies the predicate (pure predicate)
pub assume_specification<'a, T, P> [<std::slice::Iter<'a, T> as std::iter::Iterator>::position] (it: &mut std::slice::Iter<'a, T>, pred: P) -> (r: std::option::Option<usize>)
    where P: std::ops::FnMut(<std::slice::Iter<'a, T> as std::iter::Iterator>::Item,) -> bool, std::slice::Iter<'a, T>: std::marker::Sized,
    ensures
        r is Some ==> r.unwrap() < old(it).remaining().len() && call_ensures(pred, (old(it).remaining()[r.unwrap() as int],), true)
            && forall|j: int| 0 <= j < r.unwrap() ==> call_ensures(pred, (#[trigger] old(it).remaining()[j],), false),
        r is None ==> forall|j: int| 0 <= j < old(it).remaining().len() ==> call_ensures(pred, (#[trigger] old(it).remaining()[j],), false);

/// entries decoded back-to-back (RFC 1035 4.1: sections are sequences of entries): p0 -> items -> p1
pub open spec fn chain<'a, T: WireFormat<'a>>(data: Seq<u8>, p0: int, vs: Seq<T>, p1: int) -> bool
    decreases vs.len()
{
    if vs.len() == 0 { p0 == p1 }
    else { exists|q: int| p0 <= q <= p1 && chain::<T>(data, p0, vs.drop_last(), q) && #[trigger] T::wf_dec(data, q, &vs.last(), p1) }
}
pub proof fn lemma_chain_index<'a, T: WireFormat<'a>>(data: Seq<u8>, p0: int, vs: Seq<T>, p1: int, i: int)
    requires chain::<T>(data, p0, vs, p1), 0 <= i < vs.len()
    ensures exists|a: int, b: int| p0 <= a && b <= p1 && #[trigger] T::wf_dec(data, a, &vs[i], b)
    decreases vs.len()
{
    let q = choose|q: int| p0 <= q <= p1 && chain::<T>(data, p0, vs.drop_last(), q) && #[trigger] T::wf_dec(data, q, &vs.last(), p1);
    if i == vs.len() - 1 {
        assert(T::wf_dec(data, q, &vs[i], p1));
    } else {
        lemma_chain_index::<T>(data, p0, vs.drop_last(), q, i);
        let (a, b) = choose|a: int, b: int| p0 <= a && b <= q && #[trigger] T::wf_dec(data, a, &vs.drop_last()[i], b);
        assert(T::wf_dec(data, a, &vs[i], b));
    }
}
/// the additional section as returned: the first OPT pseudo-record (RFC 6891) lifted out into the header
pub open spec fn opt_lifted<'a>(parsed: Seq<ResourceRecord<'a>>, kept: Seq<ResourceRecord<'a>>, opt: Option<crate::rdata::OPT<'a>>) -> bool {
    if exists|i: int| 0 <= i < parsed.len() && rdata_type(&(#[trigger] parsed[i]).rdata) == crate::TYPE::OPT {
        exists|i: int| 0 <= i < parsed.len() && #[trigger] parsed[i].rdata is OPT
            && (forall|j: int| 0 <= j < i ==> rdata_type(&(#[trigger] parsed[j]).rdata) != crate::TYPE::OPT)
            && kept == parsed.remove(i) && opt == Some(parsed[i].rdata->OPT_0)
    } else { kept == parsed && opt is None }
}
/// concatenated encodings of a section
pub open spec fn seq_enc<'a, T: WireFormat<'a>>(vs: Seq<T>) -> Seq<u8>
    decreases vs.len()
{
    if vs.len() == 0 { Seq::empty() } else { seq_enc::<T>(vs.drop_last()) + vs.last().wf_enc() }
}
pub open spec fn seq_ok<'a, T: WireFormat<'a>>(vs: Seq<T>) -> bool {
    vs.len() <= 65535 && forall|i: int| 0 <= i < vs.len() ==> (#[trigger] vs[i]).wf_ok()
}
/// RFC 6891 6.1.2: the OPT pseudo-record written for a header that carries EDNS data
pub open spec fn opt_rr_enc(h: &Header) -> Seq<u8> {
    match h.opt {
        None => Seq::empty(),
        Some(opt) => seq![0u8] + enc16(41) + enc16(opt.udp_packet_size) + enc_be(opt_ttl(h.response_code, opt.version) as nat, 4)
                     + enc16(opt.wf_enc().len() as u16) + opt.wf_enc(),
    }
}
impl<'a> Packet<'a> {
    pub closed spec fn hdr(&self) -> Header<'a> { self.header }
    /// "assembled through the public constructors and within DNS size limits"
    pub closed spec fn pkt_ok(&self) -> bool {
        &&& seq_ok::<Question>(self.questions@) && seq_ok::<ResourceRecord>(self.answers@)
        &&& seq_ok::<ResourceRecord>(self.name_servers@) && seq_ok::<ResourceRecord>(self.additional_records@)
        &&& (self.header.opt is Some ==> self.additional_records@.len() < 65535 && self.header.opt.unwrap().wf_ok()
             && self.header.opt.unwrap().wf_enc().len() <= 65535)
    }
    /// RFC 1035 4.1: header, question, answer, authority, additional (the OPT pseudo-record first)
    pub closed spec fn pkt_enc(&self) -> Seq<u8> {
        hdr_enc(&self.header, self.questions@.len() as u16, self.answers@.len() as u16, self.name_servers@.len() as u16,
                (self.additional_records@.len() + if self.header.opt is Some { 1int } else { 0int }) as u16)
        + seq_enc::<Question>(self.questions@) + seq_enc::<ResourceRecord>(self.answers@) + seq_enc::<ResourceRecord>(self.name_servers@)
        + opt_rr_enc(&self.header) + seq_enc::<ResourceRecord>(self.additional_records@)
    }
    /// the message `data` decodes to this packet
    pub closed spec fn dec(&self, data: Seq<u8>) -> bool {
        pkt_dec(data, self.questions@, self.answers@, self.name_servers@, self.additional_records@, &self.header)
    }
}
/// RFC 1035 4.1 message layout (witnesses: section boundaries p1..p4 and the additional section `add` as on the wire)
pub open spec fn pkt_dec_w<'a>(data: Seq<u8>, qs: Seq<Question<'a>>, ans: Seq<ResourceRecord<'a>>, nss: Seq<ResourceRecord<'a>>,
        adds: Seq<ResourceRecord<'a>>, h: &Header<'a>, p1: int, p2: int, p3: int, p4: int, add: Seq<ResourceRecord<'a>>) -> bool {
    &&& data.len() >= 12
    &&& 12 <= p1 <= p2 <= p3 <= p4 <= data.len()
    &&& qs.len() == be16(data[4], data[5])
    &&& ans.len() == be16(data[6], data[7])
    &&& nss.len() == be16(data[8], data[9])
    &&& add.len() == be16(data[10], data[11])
    &&& chain::<Question>(data, 12, qs, p1)
    &&& chain::<ResourceRecord>(data, p1, ans, p2)
    &&& chain::<ResourceRecord>(data, p2, nss, p3)
    &&& chain::<ResourceRecord>(data, p3, add, p4)
    &&& opt_lifted(add, adds, h.opt)
    &&& h.id == be16(data[0], data[1])
    &&& h.opcode == opcode_of_code((hdr_flags(data) >> 11) & 0xF)
    &&& pf_bits(h.z_flags) == hdr_flags(data) & 0x87B0
    &&& hdr_flags(data) & 0x0040 == 0
}
pub open spec fn pkt_dec<'a>(data: Seq<u8>, qs: Seq<Question<'a>>, ans: Seq<ResourceRecord<'a>>, nss: Seq<ResourceRecord<'a>>,
        adds: Seq<ResourceRecord<'a>>, h: &Header<'a>) -> bool {
    exists|p1: int, p2: int, p3: int, p4: int, add: Seq<ResourceRecord<'a>>| #[trigger] pkt_dec_w(data, qs, ans, nss, adds, h, p1, p2, p3, p4, add)
}
}
"""

def hoist_with_capacity(c, rel, ctx, fn, bound_expr):
    """R8: `Vec::with_capacity(E)` -> `{ let vx_cap = E; assert(vx_cap <= bound); Vec::with_capacity(vx_cap) }`"""
    jb, be = c.body(rel, ctx, fn)
    s = c.rd(rel)
    i = s.find('Vec::with_capacity(', jb, be)
    if i < 0:
        raise AnchorLost('%s: Vec::with_capacity lost in %s' % (rel, fn))
    po = i + len('Vec::with_capacity')
    pc = match_close(s, po, '(', ')')
    arg = s[po + 1:pc - 1]
    new = '{ let vx_cap = %s; assert(vx_cap as int <= %s); /* @C01:allocation-bounded-by-input */ Vec::with_capacity(vx_cap) }' % (arg.strip(), bound_expr)
    c.wr(rel, s[:i] + new + s[pc:])
    c.log.append(('rewrite', rel, 'R8 x1 (with_capacity argument hoisted into a let for the allocation-bound obligation)'))

def apply(c):
    rel = 'dns/packet.rs'
    c.wrap(rel, "pub struct Packet<'a> {")
    c.append(rel, SPECS)
    verified = ('parse', 'parse_section', 'write_to', 'write_header')
    for fn in list_fns(c, rel, P_IMPL):
        if fn not in verified:
            c.mark(rel, P_IMPL, fn, '#[verifier::external]')
    # ---- parse_section (generic)
    hoist_with_capacity(c, rel, P_IMPL, 'parse_section', 'data.len() - *offset')
    c.contract(rel, P_IMPL, 'parse_section', """
        requires *old(offset) <= data.len(), data.len() <= isize::MAX,
        ensures
            r is Ok ==> r.unwrap()@.len() == items_count, // @C05:count-honoured
            r is Ok ==> *old(offset) <= *final(offset), // @C01:cursor-monotone
            r is Ok ==> *final(offset) <= data.len(), // @C01:cursor-in-bounds
            r is Ok ==> chain::<T>(data@, *old(offset) as int, r.unwrap()@, *final(offset) as int), // @C05:entries-in-order
""")
    c.loop_spec(rel, P_IMPL, 'parse_section', 0, """
            invariant
                *offset <= data.len(), data.len() <= isize::MAX, *old(offset) <= *offset,
                section_items@.len() == vx_it.index@,
                chain::<T>(data@, *old(offset) as int, section_items@, *offset as int), // @C05:entries-in-order
""", iter_name='vx_it', body_pre="""
            let ghost vx_q = *offset as int;
            let ghost vx_old = section_items@;
""")
    c.ghost(rel, P_IMPL, 'parse_section', "section_items.push(T::parse(data, offset)?);", """
            proof { assert(section_items@.drop_last() =~= vx_old); assert(T::wf_dec(data@, vx_q, &section_items@.last(), *offset as int)); }
""", where='after')
    # ---- parse
    # R6: Option::map with a closure capturing &mut, inlined
    s = c.rd(rel)
    m = re.search(r"additional_records\s*\.iter\(\)\s*\.position\(\|rr\| (rr\.rdata\.type_code\(\) == [\w:]+)\)\s*\.map\(\|i\| (additional_records\.\w+\(i\))\),?", s)
    if not m:
        raise AnchorLost('%s: OPT lifting expression lost' % rel)
    c.wr(rel, s[:m.start()] + """{
                let mut vx_iter = additional_records.iter();
                let ghost vx_it0 = vx_iter;
                let vx_pred = |rr: &ResourceRecord<'a>| -> (b: bool)
                    ensures b == (rdata_type(&rr.rdata) == crate::TYPE::OPT)
                    { %s };
                let ghost vx_p = vx_pred;
                proof {
                    assert(vx_it0.remaining().len() == vx_add.len());
                    assert(forall|j: int| 0 <= j < vx_add.len() ==> *(#[trigger] vx_it0.remaining()[j]) == vx_add[j]);
                }
                match vx_iter.position(vx_pred) {
                    Some(i) => {
                        proof {
                            lemma_chain_index::<ResourceRecord>(data@, vx_p3, vx_add, vx_p4, i as int);
                            assert(call_ensures(vx_p, (vx_it0.remaining()[i as int],), true));
                            assert(rdata_type(&vx_add[i as int].rdata) == crate::TYPE::OPT);
                            assert(vx_add[i as int].rdata is OPT);
                            assert forall|j: int| 0 <= j < i implies rdata_type(&(#[trigger] vx_add[j]).rdata) != crate::TYPE::OPT by {
                                assert(call_ensures(vx_p, (vx_it0.remaining()[j],), false));
                            }
                        }
                        Some(%s)
                    }
                    None => {
                        proof {
                            assert forall|j: int| 0 <= j < vx_add.len() implies rdata_type(&(#[trigger] vx_add[j]).rdata) != crate::TYPE::OPT by {
                                assert(call_ensures(vx_p, (vx_it0.remaining()[j],), false));
                            }
                        }
                        None
                    }
                }
            },""" % (m.group(1), m.group(2)) + s[m.end():])
    c.log.append(('rewrite', rel, 'R6 x1 (Option::map over a closure capturing &mut inlined as match; iterator and predicate temporaries named)'))
    c.log.append(('closure-contract', rel, 'Packet::parse: position predicate gets `ensures b == (rdata_type(&rr.rdata) == TYPE::OPT)`'))
    c.contract(rel, P_IMPL, 'parse', """
        requires data.len() <= isize::MAX,
        ensures
            r is Ok ==> r.unwrap().dec(data@), // @C05:sections-follow-counts-and-rdlength,C09:opt-lifted,C08:packet-header
            data.len() < 12 ==> r is Err, // @C05:short-message-rejected
""")
    c.ghost(rel, P_IMPL, 'parse', "let answers = Self::parse_section(", "        let ghost vx_p1 = offset as int;", where='before')
    c.ghost(rel, P_IMPL, 'parse', "let name_servers =", "        let ghost vx_p2 = offset as int;", where='before')
    c.ghost(rel, P_IMPL, 'parse', "let mut additional_records: Vec<ResourceRecord> =", "        let ghost vx_p3 = offset as int;", where='before')
    c.ghost(rel, P_IMPL, 'parse', "header.extract_info_from_opt_rr(", "        let ghost vx_p4 = offset as int;\n        let ghost vx_add = additional_records@;", where='before')
    c.ghost(rel, P_IMPL, 'parse', "Ok(Self {", """
        proof {
            assert(opt_lifted(vx_add, additional_records@, header.opt)); // @C09:opt-lifted,C05:additional-section-as-parsed,C11:opt-lifted
            assert(pkt_dec_w(data@, questions@, answers@, name_servers@, additional_records@, &header, vx_p1, vx_p2, vx_p3, vx_p4, vx_add)); // @C05:sections-follow-counts-and-rdlength,C09:opt-lifted
        }
""", where='before')
    # ---- write_header / write_to
    c.contract(rel, P_IMPL, 'write_header', """
        requires self.pkt_ok(),
        ensures r is Ok ==> wrote(old(out), final(out), hdr_enc(&self.header, self.questions@.len() as u16, self.answers@.len() as u16,
            self.name_servers@.len() as u16, (self.additional_records@.len() + if self.header.opt is Some { 1int } else { 0int }) as u16)), // @C04:header-counts,C09:arcount-includes-opt
""")
    c.mark(rel, P_IMPL, 'write_to', '#[verifier::rlimit(50)]')
    c.contract(rel, P_IMPL, 'write_to', """
        requires self.pkt_ok(),
        ensures r is Ok ==> wrote(old(out), final(out), self.pkt_enc()), // @C04:exactly-the-entries,C02:packet-encoding,C09:one-opt-record
""", pre_body="""
        let ghost e0 = hdr_enc(&self.header, self.questions@.len() as u16, self.answers@.len() as u16, self.name_servers@.len() as u16,
                (self.additional_records@.len() + if self.header.opt is Some { 1int } else { 0int }) as u16);
        let ghost e1 = e0 + seq_enc::<Question>(self.questions@);
        let ghost e2 = e1 + seq_enc::<ResourceRecord>(self.answers@);
        let ghost e3 = e2 + seq_enc::<ResourceRecord>(self.name_servers@);
        let ghost e4 = e3 + opt_rr_enc(&self.header);
""")
    def loop(k, field, ty, base):
        c.loop_spec(rel, P_IMPL, 'write_to', k, """
            invariant self.pkt_ok(), 0 <= vx_it%d.index@ <= self.%s@.len(),
                wrote(old(out), out, %s + seq_enc::<%s>(self.%s@.subrange(0, vx_it%d.index@ as int))),
""" % (k, field, base, ty, field, k), iter_name='vx_it%d' % k, body_pre="""
            proof {
                let i = vx_it%d.index@ as int;
                assert(self.%s@.subrange(0, i + 1).drop_last() =~= self.%s@.subrange(0, i));
                assert(self.%s@.subrange(0, i + 1).last() == self.%s@[i]);
            }
""" % (k, field, field, field, field))
    c.ghost(rel, P_IMPL, 'write_to', "for e in &self.questions", "        proof { assert(self.questions@.subrange(0, 0) =~= Seq::<Question>::empty()); }", where='before')
    c.ghost(rel, P_IMPL, 'write_to', "for e in &self.answers", "        proof { assert(self.questions@.subrange(0, self.questions@.len() as int) =~= self.questions@); assert(self.answers@.subrange(0, 0) =~= Seq::<ResourceRecord>::empty()); }", where='before')
    c.ghost(rel, P_IMPL, 'write_to', "for e in &self.name_servers", "        proof { assert(self.answers@.subrange(0, self.answers@.len() as int) =~= self.answers@); assert(self.name_servers@.subrange(0, 0) =~= Seq::<ResourceRecord>::empty()); }", where='before')
    c.ghost(rel, P_IMPL, 'write_to', "if let Some(rr) = self.header.opt_rr()", "        proof { assert(self.name_servers@.subrange(0, self.name_servers@.len() as int) =~= self.name_servers@); }", where='before')
    c.ghost(rel, P_IMPL, 'write_to', "for e in &self.additional_records", "        proof { assert(self.additional_records@.subrange(0, 0) =~= Seq::<ResourceRecord>::empty()); }", where='before')
    c.ghost(rel, P_IMPL, 'write_to', "out.flush()?;", "        proof { assert(self.additional_records@.subrange(0, self.additional_records@.len() as int) =~= self.additional_records@); }", where='before')
    loop(0, 'questions', 'Question', 'e0')
    loop(1, 'answers', 'ResourceRecord', 'e1')
    loop(2, 'name_servers', 'ResourceRecord', 'e2')
    loop(3, 'additional_records', 'ResourceRecord', 'e4')
    c.wrap(rel, P_IMPL)
