"""Packet: parse / parse_section (C01, C05, C09), write_to / write_header (C02, C04, C09)."""
import re
from typed import list_fns
from xf import AnchorLost, match_close

P_IMPL = "impl<'a> Packet<'a> {"

SPECS = """verus!{
// header_buffer readers are closure-heavy one-liners outside Verus: assumed here with exactly the statements that the
// loop-free Kani harnesses header_peek_short_buffers / header_peek_layout prove on the real functions
pub assume_specification [crate::dns::header_buffer::questions] (buffer: &[u8]) -> (r: crate::Result<u16>)
    ensures buffer.len() >= 6 ==> r == Ok::<u16, crate::SimpleDnsError>(be16(buffer[4], buffer[5])), buffer.len() < 6 ==> r is Err;
pub assume_specification [crate::dns::header_buffer::answers] (buffer: &[u8]) -> (r: crate::Result<u16>)
    ensures buffer.len() >= 8 ==> r == Ok::<u16, crate::SimpleDnsError>(be16(buffer[6], buffer[7])), buffer.len() < 8 ==> r is Err;
pub assume_specification [crate::dns::header_buffer::name_servers] (buffer: &[u8]) -> (r: crate::Result<u16>)
    ensures buffer.len() >= 10 ==> r == Ok::<u16, crate::SimpleDnsError>(be16(buffer[8], buffer[9])), buffer.len() < 10 ==> r is Err;
pub assume_specification [crate::dns::header_buffer::additional_records] (buffer: &[u8]) -> (r: crate::Result<u16>)
    ensures buffer.len() >= 12 ==> r == Ok::<u16, crate::SimpleDnsError>(be16(buffer[10], buffer[11])), buffer.len() < 12 ==> r is Err;

/// std: first index whose element satisfies the predicate (pure predicate)
pub assume_specification<'a, T, P> [<std::slice::Iter<'a, T> as std::iter::Iterator>::position] (it: &mut std::slice::Iter<'a, T>, pred: P) -> (r: std::option::Option<usize>)
    where P: std::ops::FnMut(<std::slice::Iter<'a, T> as std::iter::Iterator>::Item,) -> bool, std::slice::Iter<'a, T>: std::marker::Sized,
    ensures
        r is Some ==> r.unwrap() < old(it).remaining().len() && call_ensures(pred, (old(it).remaining()[r.unwrap() as int],), true)
            && forall|j: int| 0 <= j < r.unwrap() ==> call_ensures(pred, (#[trigger] old(it).remaining()[j],), false),
        r is None ==> forall|j: int| 0 <= j < old(it).remaining().len() ==> call_ensures(pred, (#[trigger] old(it).remaining()[j],), false);

/// entries decoded back-to-back (RFC 1035 4.1: sections are sequences of entries): p0 -> items -> p1
pub open spec fn chain<'a, T: WireFormat<'a>>(data: Seq<u8>, p0: int, vs: Seq<T>, p1: int) -> bool
    decreases vs.len()
{
    if vs.len() == 0 { p0 == p1 }
    else { exists|q: int| p0 <= q <= p1 && chain::<T>(data, p0, vs.drop_last(), q) && #[trigger] T::wf_dec(data, q, &vs.last(), p1) }
}
pub proof fn lemma_chain_index<'a, T: WireFormat<'a>>(data: Seq<u8>, p0: int, vs: Seq<T>, p1: int, i: int)
    requires chain::<T>(data, p0, vs, p1), 0 <= i < vs.len()
    ensures exists|a: int, b: int| p0 <= a && b <= p1 && #[trigger] T::wf_dec(data, a, &vs[i], b)
    decreases vs.len()
{
    let q = choose|q: int| p0 <= q <= p1 && chain::<T>(data, p0, vs.drop_last(), q) && #[trigger] T::wf_dec(data, q, &vs.last(), p1);
    if i == vs.len() - 1 {
        assert(T::wf_dec(data, q, &vs[i], p1));
    } else {
        lemma_chain_index::<T>(data, p0, vs.drop_last(), q, i);
        let (a, b) = choose|a: int, b: int| p0 <= a && b <= q && #[trigger] T::wf_dec(data, a, &vs.drop_last()[i], b);
        assert(T::wf_dec(data, a, &vs[i], b));
    }
}
/// the additional section as returned: the first OPT pseudo-record (RFC 6891) lifted out into the header
pub open spec fn opt_lifted<'a>(parsed: Seq<ResourceRecord<'a>>, kept: Seq<ResourceRecord<'a>>, opt: Option<crate::rdata::OPT<'a>>) -> bool {
    if exists|i: int| 0 <= i < parsed.len() && rdata_type(&(#[trigger] parsed[i]).rdata) == crate::TYPE::OPT {
        exists|i: int| 0 <= i < parsed.len() && #[trigger] parsed[i].rdata is OPT
            && (forall|j: int| 0 <= j < i ==> rdata_type(&(#[trigger] parsed[j]).rdata) != crate::TYPE::OPT)
            && kept == parsed.remove(i) && opt == Some(parsed[i].rdata->OPT_0)
    } else { kept == parsed && opt is None }
}
/// concatenated encodings of a section
pub open spec fn seq_enc<'a, T: WireFormat<'a>>(vs: Seq<T>) -> Seq<u8>
    decreases vs.len()
{
    if vs.len() == 0 { Seq::empty() } else { seq_enc::<T>(vs.drop_last()) + vs.last().wf_enc() }
}
pub open spec fn seq_ok<'a, T: WireFormat<'a>>(vs: Seq<T>) -> bool {
    vs.len() <= 65535 && forall|i: int| 0 <= i < vs.len() ==> (#[trigger] vs[i]).wf_ok()
}
/// RFC 6891 6.1.2: the OPT pseudo-record written for a header that carries EDNS data
pub open spec fn opt_rr_enc(h: &Header) -> Seq<u8> {
    match h.opt {
        None => Seq::empty(),
        Some(opt) => seq![0u8] + enc16(41) + enc16(opt.udp_packet_size) + enc_be(opt_ttl(h.response_code, opt.version) as nat, 4)
                     + enc16(opt.wf_enc().len() as u16) + opt.wf_enc(),
    }
}
pub open spec fn seq_canon<'a, T: WireFormat<'a>>(vs: Seq<T>) -> bool {
    forall|i: int| 0 <= i < vs.len() ==> (#[trigger] vs[i]).wf_canon()
}
pub proof fn lemma_seq_enc_step<'a, T: WireFormat<'a>>(vs: Seq<T>, i: int)
    requires 0 <= i < vs.len()
    ensures seq_enc::<T>(vs.subrange(0, i + 1)) == seq_enc::<T>(vs.subrange(0, i)) + vs[i].wf_enc(),
            seq_enc::<T>(vs.subrange(0, i + 1)).len() <= seq_enc::<T>(vs).len(),
{
    assert(vs.subrange(0, i + 1).drop_last() =~= vs.subrange(0, i));
    assert(vs.subrange(0, i + 1).last() == vs[i]);
    lemma_seq_enc_prefix::<T>(vs, i + 1);
}
pub proof fn lemma_seq_enc_prefix<'a, T: WireFormat<'a>>(vs: Seq<T>, j: int)
    requires 0 <= j <= vs.len()
    ensures seq_enc::<T>(vs.subrange(0, j)).len() <= seq_enc::<T>(vs).len()
    decreases vs.len() - j
{
    if j < vs.len() {
        lemma_seq_enc_prefix::<T>(vs, j + 1);
        assert(vs.subrange(0, j + 1).drop_last() =~= vs.subrange(0, j));
    } else {
        assert(vs.subrange(0, j) =~= vs);
    }
}
/// element decoding does not depend on bytes appended after the element
pub proof fn lemma_q_stable(d: Seq<u8>, x: Seq<u8>, p: int, v: &Question, p2: int)
    requires Question::wf_dec(d, p, v, p2), 0 <= p
    ensures Question::wf_dec(d + x, p, v, p2)
{
    lemma_append_stable(d, x, p, 0);
    lemma_inplace_append_stable(d, x, p, 0);
    let q = p + inplace_len(d, p);
    assert((d + x)[q] == d[q] && (d + x)[q + 1] == d[q + 1] && (d + x)[q + 2] == d[q + 2] && (d + x)[q + 3] == d[q + 3]);
}
pub proof fn lemma_rr_stable(d: Seq<u8>, x: Seq<u8>, p: int, v: &ResourceRecord, p2: int)
    requires ResourceRecord::wf_dec(d, p, v, p2), 0 <= p
    ensures ResourceRecord::wf_dec(d + x, p, v, p2)
{
    lemma_append_stable(d, x, p, 0);
    lemma_inplace_append_stable(d, x, p, 0);
    let q = p + inplace_len(d, p);
    assert((d + x)[q] == d[q] && (d + x)[q + 1] == d[q + 1] && (d + x)[q + 2] == d[q + 2] && (d + x)[q + 3] == d[q + 3] && (d + x)[q + 8] == d[q + 8] && (d + x)[q + 9] == d[q + 9]);
    assert((d + x).subrange(q + 4, q + 8) =~= d.subrange(q + 4, q + 8));
    assert((d + x).subrange(0, p2) =~= d.subrange(0, p2));
}
pub proof fn lemma_qchain_stable<'a>(d: Seq<u8>, x: Seq<u8>, p0: int, vs: Seq<Question<'a>>, p1: int)
    requires chain::<Question>(d, p0, vs, p1), 0 <= p0
    ensures chain::<Question>(d + x, p0, vs, p1)
    decreases vs.len()
{
    if vs.len() > 0 {
        let q = choose|q: int| p0 <= q <= p1 && chain::<Question>(d, p0, vs.drop_last(), q) && #[trigger] Question::wf_dec(d, q, &vs.last(), p1);
        lemma_qchain_stable(d, x, p0, vs.drop_last(), q);
        lemma_q_stable(d, x, q, &vs.last(), p1);
    }
}
pub proof fn lemma_rrchain_stable<'a>(d: Seq<u8>, x: Seq<u8>, p0: int, vs: Seq<ResourceRecord<'a>>, p1: int)
    requires chain::<ResourceRecord>(d, p0, vs, p1), 0 <= p0
    ensures chain::<ResourceRecord>(d + x, p0, vs, p1)
    decreases vs.len()
{
    if vs.len() > 0 {
        let q = choose|q: int| p0 <= q <= p1 && chain::<ResourceRecord>(d, p0, vs.drop_last(), q) && #[trigger] ResourceRecord::wf_dec(d, q, &vs.last(), p1);
        lemma_rrchain_stable(d, x, p0, vs.drop_last(), q);
        lemma_rr_stable(d, x, q, &vs.last(), p1);
    }
}
/// one more entry written by a compressing writer: b2 extends b, the new bytes decode to e
pub proof fn lemma_step_q<'a>(b: Seq<u8>, b2: Seq<u8>, p0: int, vs: Seq<Question<'a>>, i: int)
    requires 0 <= p0 <= b.len(), 0 <= i < vs.len(), b2.len() >= b.len(), b2.subrange(0, b.len() as int) =~= b,
             chain::<Question>(b, p0, vs.subrange(0, i), b.len() as int), Question::wf_dec(b2, b.len() as int, &vs[i], b2.len() as int)
    ensures chain::<Question>(b2, p0, vs.subrange(0, i + 1), b2.len() as int)
{
    let x = b2.subrange(b.len() as int, b2.len() as int);
    assert(b2 =~= b + x);
    lemma_qchain_stable(b, x, p0, vs.subrange(0, i), b.len() as int);
    assert(vs.subrange(0, i + 1).drop_last() =~= vs.subrange(0, i));
    assert(vs.subrange(0, i + 1).last() == vs[i]);
}
pub proof fn lemma_step_rr<'a>(b: Seq<u8>, b2: Seq<u8>, p0: int, vs: Seq<ResourceRecord<'a>>, i: int)
    requires 0 <= p0 <= b.len(), 0 <= i < vs.len(), b2.len() >= b.len(), b2.subrange(0, b.len() as int) =~= b,
             chain::<ResourceRecord>(b, p0, vs.subrange(0, i), b.len() as int), ResourceRecord::wf_dec(b2, b.len() as int, &vs[i], b2.len() as int)
    ensures chain::<ResourceRecord>(b2, p0, vs.subrange(0, i + 1), b2.len() as int)
{
    let x = b2.subrange(b.len() as int, b2.len() as int);
    assert(b2 =~= b + x);
    lemma_rrchain_stable(b, x, p0, vs.subrange(0, i), b.len() as int);
    assert(vs.subrange(0, i + 1).drop_last() =~= vs.subrange(0, i));
    assert(vs.subrange(0, i + 1).last() == vs[i]);
}
/// earlier sections stay decodable while later entries are appended
pub proof fn lemma_keep_q<'a>(b: Seq<u8>, b2: Seq<u8>, p0: int, vs: Seq<Question<'a>>, p1: int)
    requires 0 <= p0, b2.len() >= b.len(), b2.subrange(0, b.len() as int) =~= b, chain::<Question>(b, p0, vs, p1)
    ensures chain::<Question>(b2, p0, vs, p1)
{
    let x = b2.subrange(b.len() as int, b2.len() as int);
    assert(b2 =~= b + x);
    lemma_qchain_stable(b, x, p0, vs, p1);
}
pub proof fn lemma_keep_rr<'a>(b: Seq<u8>, b2: Seq<u8>, p0: int, vs: Seq<ResourceRecord<'a>>, p1: int)
    requires 0 <= p0, b2.len() >= b.len(), b2.subrange(0, b.len() as int) =~= b, chain::<ResourceRecord>(b, p0, vs, p1)
    ensures chain::<ResourceRecord>(b2, p0, vs, p1)
{
    let x = b2.subrange(b.len() as int, b2.len() as int);
    assert(b2 =~= b + x);
    lemma_rrchain_stable(b, x, p0, vs, p1);
}
/// the 12 header octets read back as the header fields they were written from
pub proof fn lemma_hdr_rt(h: &Header, qd: u16, an: u16, ns: u16, ar: u16, d: Seq<u8>)
    requires d.len() >= 12, d.subrange(0, 12) == hdr_enc(h, qd, an, ns, ar)
    ensures
        be16(d[0], d[1]) == h.id, be16(d[4], d[5]) == qd, be16(d[6], d[7]) == an, be16(d[8], d[9]) == ns, be16(d[10], d[11]) == ar,
        h.opcode == opcode_of_code((hdr_flags(d) >> 11) & 0xF),
        pf_bits(h.z_flags) == hdr_flags(d) & 0x87B0,
        hdr_flags(d) & 0x0040 == 0,
{
    let e = hdr_enc(h, qd, an, ns, ar);
    let fl = hdr_flags_enc(h);
    assert forall|i: int| 0 <= i < 12 implies d[i] == e[i] by { assert(d.subrange(0, 12)[i] == e[i]); }
    lemma_be16_enc16(h.id); lemma_be16_enc16(fl); lemma_be16_enc16(qd); lemma_be16_enc16(an); lemma_be16_enc16(ns); lemma_be16_enc16(ar);
    assert(e[0] == enc16(h.id)[0] && e[1] == enc16(h.id)[1] && e[2] == enc16(fl)[0] && e[3] == enc16(fl)[1]);
    assert(e[4] == enc16(qd)[0] && e[5] == enc16(qd)[1] && e[6] == enc16(an)[0] && e[7] == enc16(an)[1]);
    assert(e[8] == enc16(ns)[0] && e[9] == enc16(ns)[1] && e[10] == enc16(ar)[0] && e[11] == enc16(ar)[1]);
    let pf = pf_bits(h.z_flags); let op = opcode_code(h.opcode); let rc = rcode_code(h.response_code);
    assert(pf & 0x87B0u16 == pf) by { lemma_pf_bits(h.z_flags); }
    assert(op <= 6 && rc <= 17);
    assert(((pf | (op << 11u16) | (rc & 0xFu16)) >> 11u16) & 0xFu16 == op
        && (pf | (op << 11u16) | (rc & 0xFu16)) & 0x87B0u16 == pf
        && (pf | (op << 11u16) | (rc & 0xFu16)) & 0x0040u16 == 0) by(bit_vector)
        requires pf & 0x87B0u16 == pf, op <= 6;
}
/// the OPT pseudo-record built by Header::opt_rr is canonical (its TTL carries the version it is parsed back with)
pub proof fn lemma_opt_ttl_version(rc: RCODE, ver: u8)
    ensures (opt_ttl(rc, ver) >> 16u32) & 0xFFu32 == ver as u32
{
    let c = rcode_code(rc) as u32;
    let v = ver as u32;
    assert(c <= 17);
    assert(((((c >> 4u32) << 24u32) | (v << 16u32)) >> 16u32) & 0xFFu32 == v) by(bit_vector) requires c <= 17, v <= 255;
}
impl<'a> Packet<'a> {
    pub closed spec fn hdr(&self) -> Header<'a> { self.header }
    /// every entry reads back as itself; OPT data lives only in the header (never in additional_records)
    pub closed spec fn pkt_canon(&self) -> bool {
        &&& seq_canon::<Question>(self.questions@) && seq_canon::<ResourceRecord>(self.answers@)
        &&& seq_canon::<ResourceRecord>(self.name_servers@) && seq_canon::<ResourceRecord>(self.additional_records@)
        &&& forall|i: int| 0 <= i < self.additional_records@.len() ==> rdata_type(&(#[trigger] self.additional_records@[i]).rdata) != crate::TYPE::OPT
        &&& self.pkt_enc().len() <= 65535
    }
    /// "assembled through the public constructors and within DNS size limits"
    pub closed spec fn pkt_ok(&self) -> bool {
        &&& seq_ok::<Question>(self.questions@) && seq_ok::<ResourceRecord>(self.answers@)
        &&& seq_ok::<ResourceRecord>(self.name_servers@) && seq_ok::<ResourceRecord>(self.additional_records@)
        &&& (self.header.opt is Some ==> self.additional_records@.len() < 65535 && self.header.opt.unwrap().wf_ok()
             && self.header.opt.unwrap().wf_enc().len() <= 65535)
    }
    /// RFC 1035 4.1: header, question, answer, authority, additional (the OPT pseudo-record first)
    pub closed spec fn pkt_enc(&self) -> Seq<u8> {
        hdr_enc(&self.header, self.questions@.len() as u16, self.answers@.len() as u16, self.name_servers@.len() as u16,
                (self.additional_records@.len() + if self.header.opt is Some { 1int } else { 0int }) as u16)
        + seq_enc::<Question>(self.questions@) + seq_enc::<ResourceRecord>(self.answers@) + seq_enc::<ResourceRecord>(self.name_servers@)
        + opt_rr_enc(&self.header) + seq_enc::<ResourceRecord>(self.additional_records@)
    }
    /// the message `data` decodes to this packet
    pub closed spec fn dec(&self, data: Seq<u8>) -> bool {
        pkt_dec(data, self.questions@, self.answers@, self.name_servers@, self.additional_records@, &self.header)
    }
}
/// RFC 1035 4.1 message layout (witnesses: section boundaries p1..p4 and the additional section `add` as on the wire)
pub open spec fn pkt_dec_w<'a>(data: Seq<u8>, qs: Seq<Question<'a>>, ans: Seq<ResourceRecord<'a>>, nss: Seq<ResourceRecord<'a>>,
        adds: Seq<ResourceRecord<'a>>, h: &Header<'a>, p1: int, p2: int, p3: int, p4: int, add: Seq<ResourceRecord<'a>>) -> bool {
    &&& data.len() >= 12
    &&& 12 <= p1 <= p2 <= p3 <= p4 <= data.len()
    &&& qs.len() == be16(data[4], data[5])
    &&& ans.len() == be16(data[6], data[7])
    &&& nss.len() == be16(data[8], data[9])
    &&& add.len() == be16(data[10], data[11])
    &&& chain::<Question>(data, 12, qs, p1)
    &&& chain::<ResourceRecord>(data, p1, ans, p2)
    &&& chain::<ResourceRecord>(data, p2, nss, p3)
    &&& chain::<ResourceRecord>(data, p3, add, p4)
    &&& opt_lifted(add, adds, h.opt)
    &&& h.id == be16(data[0], data[1])
    &&& h.opcode == opcode_of_code((hdr_flags(data) >> 11) & 0xF)
    &&& pf_bits(h.z_flags) == hdr_flags(data) & 0x87B0
    &&& hdr_flags(data) & 0x0040 == 0
}
pub open spec fn pkt_dec<'a>(data: Seq<u8>, qs: Seq<Question<'a>>, ans: Seq<ResourceRecord<'a>>, nss: Seq<ResourceRecord<'a>>,
        adds: Seq<ResourceRecord<'a>>, h: &Header<'a>) -> bool {
    exists|p1: int, p2: int, p3: int, p4: int, add: Seq<ResourceRecord<'a>>| #[trigger] pkt_dec_w(data, qs, ans, nss, adds, h, p1, p2, p3, p4, add)
}
}
"""

def hoist_with_capacity(c, rel, ctx, fn, bound_expr):
    """R8: `Vec::with_capacity(E)` -> `{ let vx_cap = E; assert(vx_cap <= bound); Vec::with_capacity(vx_cap) }`"""
    jb, be = c.body(rel, ctx, fn)
    s = c.rd(rel)
    i = s.find('Vec::with_capacity(', jb, be)
    if i < 0:
        raise AnchorLost('%s: Vec::with_capacity lost in %s' % (rel, fn))
    po = i + len('Vec::with_capacity')
    pc = match_close(s, po, '(', ')')
    arg = s[po + 1:pc - 1]
    new = '{ let vx_cap = %s; assert(vx_cap as int <= %s); /* @C01:allocation-bounded-by-input */ Vec::with_capacity(vx_cap) }' % (arg.strip(), bound_expr)
    c.wr(rel, s[:i] + new + s[pc:])
    c.log.append(('rewrite', rel, 'R8 x1 (with_capacity argument hoisted into a let for the allocation-bound obligation)'))

def apply(c):
    rel = 'dns/packet.rs'
    c.wrap(rel, "pub struct Packet<'a> {")
    c.append(rel, SPECS)
    verified = ('parse', 'parse_section', 'write_to', 'write_header', 'write_compressed_to')
    for fn in list_fns(c, rel, P_IMPL):
        if fn not in verified:
            c.mark(rel, P_IMPL, fn, '#[verifier::external]')
    # ---- parse_section (generic)
    hoist_with_capacity(c, rel, P_IMPL, 'parse_section', 'data.len() - *offset')
    c.contract(rel, P_IMPL, 'parse_section', """
        requires *old(offset) <= data.len(), data.len() <= isize::MAX,
        ensures
            r is Ok ==> r.unwrap()@.len() == items_count, // @C05:count-honoured
            r is Ok ==> *old(offset) <= *final(offset), // @C01:cursor-monotone
            r is Ok ==> *final(offset) <= data.len(), // @C01:cursor-in-bounds
            r is Ok ==> chain::<T>(data@, *old(offset) as int, r.unwrap()@, *final(offset) as int), // @C05:entries-in-order
""")
    c.loop_spec(rel, P_IMPL, 'parse_section', 0, """
            invariant
                *offset <= data.len(), data.len() <= isize::MAX, *old(offset) <= *offset,
                section_items@.len() == vx_it.index@,
                chain::<T>(data@, *old(offset) as int, section_items@, *offset as int), // @C05:entries-in-order
""", iter_name='vx_it', body_pre="""
            let ghost vx_q = *offset as int;
            let ghost vx_old = section_items@;
""")
    c.ghost(rel, P_IMPL, 'parse_section', "section_items.push(T::parse(data, offset)?);", """
            proof { assert(section_items@.drop_last() =~= vx_old); assert(T::wf_dec(data@, vx_q, &section_items@.last(), *offset as int)); }
""", where='after')
    # ---- parse
    # R6: Option::map with a closure capturing &mut, inlined
    s = c.rd(rel)
    m = re.search(r"additional_records\s*\.iter\(\)\s*\.position\(\|rr\| (rr\.rdata\.type_code\(\) == [\w:]+)\)\s*\.map\(\|i\| (additional_records\.\w+\(i\))\),?", s)
    if not m:
        raise AnchorLost('%s: OPT lifting expression lost' % rel)
    c.wr(rel, s[:m.start()] + """{
                let mut vx_iter = additional_records.iter();
                let ghost vx_it0 = vx_iter;
                let vx_pred = |rr: &ResourceRecord<'a>| -> (b: bool)
                    ensures b == (rdata_type(&rr.rdata) == crate::TYPE::OPT)
                    { %s };
                let ghost vx_p = vx_pred;
                proof {
                    assert(vx_it0.remaining().len() == vx_add.len());
                    assert(forall|j: int| 0 <= j < vx_add.len() ==> *(#[trigger] vx_it0.remaining()[j]) == vx_add[j]);
                }
                match vx_iter.position(vx_pred) {
                    Some(i) => {
                        proof {
                            lemma_chain_index::<ResourceRecord>(data@, vx_p3, vx_add, vx_p4, i as int);
                            assert(call_ensures(vx_p, (vx_it0.remaining()[i as int],), true));
                            assert(rdata_type(&vx_add[i as int].rdata) == crate::TYPE::OPT);
                            assert(vx_add[i as int].rdata is OPT);
                            assert forall|j: int| 0 <= j < i implies rdata_type(&(#[trigger] vx_add[j]).rdata) != crate::TYPE::OPT by {
                                assert(call_ensures(vx_p, (vx_it0.remaining()[j],), false));
                            }
                        }
                        Some(%s)
                    }
                    None => {
                        proof {
                            assert forall|j: int| 0 <= j < vx_add.len() implies rdata_type(&(#[trigger] vx_add[j]).rdata) != crate::TYPE::OPT by {
                                assert(call_ensures(vx_p, (vx_it0.remaining()[j],), false));
                            }
                        }
                        None
                    }
                }
            },""" % (m.group(1), m.group(2)) + s[m.end():])
    c.log.append(('rewrite', rel, 'R6 x1 (Option::map over a closure capturing &mut inlined as match; iterator and predicate temporaries named)'))
    c.log.append(('closure-contract', rel, 'Packet::parse: position predicate gets `ensures b == (rdata_type(&rr.rdata) == TYPE::OPT)`'))
    c.contract(rel, P_IMPL, 'parse', """
        requires data.len() <= isize::MAX,
        ensures
            r is Ok ==> r.unwrap().dec(data@), // @C05:sections-follow-counts-and-rdlength,C09:opt-lifted,C08:packet-header
            data.len() < 12 ==> r is Err, // @C05:short-message-rejected
""")
    c.ghost(rel, P_IMPL, 'parse', "let answers = Self::parse_section(", "        let ghost vx_p1 = offset as int;", where='before')
    c.ghost(rel, P_IMPL, 'parse', "let name_servers =", "        let ghost vx_p2 = offset as int;", where='before')
    c.ghost(rel, P_IMPL, 'parse', "let mut additional_records: Vec<ResourceRecord> =", "        let ghost vx_p3 = offset as int;", where='before')
    c.ghost(rel, P_IMPL, 'parse', "header.extract_info_from_opt_rr(", "        let ghost vx_p4 = offset as int;\n        let ghost vx_add = additional_records@;", where='before')
    c.ghost(rel, P_IMPL, 'parse', "Ok(Self {", """
        proof {
            assert(opt_lifted(vx_add, additional_records@, header.opt)); // @C09:opt-lifted,C05:additional-section-as-parsed,C11:opt-lifted
            assert(pkt_dec_w(data@, questions@, answers@, name_servers@, additional_records@, &header, vx_p1, vx_p2, vx_p3, vx_p4, vx_add)); // @C05:sections-follow-counts-and-rdlength,C09:opt-lifted
        }
""", where='before')
    # ---- write_header / write_to
    c.contract(rel, P_IMPL, 'write_header', """
        requires self.pkt_ok(),
        ensures r is Ok ==> wrote(old(out), final(out), hdr_enc(&self.header, self.questions@.len() as u16, self.answers@.len() as u16,
            self.name_servers@.len() as u16, (self.additional_records@.len() + if self.header.opt is Some { 1int } else { 0int }) as u16)), // @C04:header-counts,C09:arcount-includes-opt
""")
    c.mark(rel, P_IMPL, 'write_to', '#[verifier::rlimit(50)]')
    c.contract(rel, P_IMPL, 'write_to', """
        requires self.pkt_ok(),
        ensures r is Ok ==> wrote(old(out), final(out), self.pkt_enc()), // @C04:exactly-the-entries,C02:packet-encoding,C09:one-opt-record
""", pre_body="""
        let ghost e0 = hdr_enc(&self.header, self.questions@.len() as u16, self.answers@.len() as u16, self.name_servers@.len() as u16,
                (self.additional_records@.len() + if self.header.opt is Some { 1int } else { 0int }) as u16);
        let ghost e1 = e0 + seq_enc::<Question>(self.questions@);
        let ghost e2 = e1 + seq_enc::<ResourceRecord>(self.answers@);
        let ghost e3 = e2 + seq_enc::<ResourceRecord>(self.name_servers@);
        let ghost e4 = e3 + opt_rr_enc(&self.header);
""")
    def loop(k, field, ty, base):
        c.loop_spec(rel, P_IMPL, 'write_to', k, """
            invariant self.pkt_ok(), 0 <= vx_it%d.index@ <= self.%s@.len(),
                wrote(old(out), out, %s + seq_enc::<%s>(self.%s@.subrange(0, vx_it%d.index@ as int))),
""" % (k, field, base, ty, field, k), iter_name='vx_it%d' % k, body_pre="""
            proof {
                let i = vx_it%d.index@ as int;
                assert(self.%s@.subrange(0, i + 1).drop_last() =~= self.%s@.subrange(0, i));
                assert(self.%s@.subrange(0, i + 1).last() == self.%s@[i]);
            }
""" % (k, field, field, field, field))
    c.ghost(rel, P_IMPL, 'write_to', "for e in &self.questions", "        proof { assert(self.questions@.subrange(0, 0) =~= Seq::<Question>::empty()); }", where='before')
    c.ghost(rel, P_IMPL, 'write_to', "for e in &self.answers", "        proof { assert(self.questions@.subrange(0, self.questions@.len() as int) =~= self.questions@); assert(self.answers@.subrange(0, 0) =~= Seq::<ResourceRecord>::empty()); }", where='before')
    c.ghost(rel, P_IMPL, 'write_to', "for e in &self.name_servers", "        proof { assert(self.answers@.subrange(0, self.answers@.len() as int) =~= self.answers@); assert(self.name_servers@.subrange(0, 0) =~= Seq::<ResourceRecord>::empty()); }", where='before')
    c.ghost(rel, P_IMPL, 'write_to', "if let Some(rr) = self.header.opt_rr()", "        proof { assert(self.name_servers@.subrange(0, self.name_servers@.len() as int) =~= self.name_servers@); }", where='before')
    c.ghost(rel, P_IMPL, 'write_to', "for e in &self.additional_records", "        proof { assert(self.additional_records@.subrange(0, 0) =~= Seq::<ResourceRecord>::empty()); }", where='before')
    c.ghost(rel, P_IMPL, 'write_to', "out.flush()?;", "        proof { assert(self.additional_records@.subrange(0, self.additional_records@.len() as int) =~= self.additional_records@); }", where='before')
    loop(0, 'questions', 'Question', 'e0')
    loop(1, 'answers', 'ResourceRecord', 'e1')
    loop(2, 'name_servers', 'ResourceRecord', 'e2')
    loop(3, 'additional_records', 'ResourceRecord', 'e4')
    # ---- write_compressed_to: the whole message decodes to this packet (C03), is framed by the header counts (C04),
    #      carries the OPT record once (C09) and is never longer than the plain encoding
    W = 'write_compressed_to'
    c.mark(rel, P_IMPL, W, '#[verifier::rlimit(60)]')
    c.contract(rel, P_IMPL, W, """
        requires self.pkt_ok(), self.pkt_canon(), io_buf(old(out)).len() == 0, io_pos(old(out)) == 0,
        ensures
            r is Ok ==> at_end(final(out)),
            r is Ok ==> io_buf(final(out)).len() <= self.pkt_enc().len(), // @C03:never-longer
            r is Ok ==> self.dec(io_buf(final(out))), // @C03:compressed-message-decodes-to-the-packet,C04:counts-and-entries,C07:pointers-expand,C09:one-opt-record
""", pre_body="""
        let ghost e0 = hdr_enc(&self.header, self.questions@.len() as u16, self.answers@.len() as u16, self.name_servers@.len() as u16,
                (self.additional_records@.len() + if self.header.opt is Some { 1int } else { 0int }) as u16);
        let ghost lq = seq_enc::<Question>(self.questions@).len() as int;
        let ghost la = seq_enc::<ResourceRecord>(self.answers@).len() as int;
        let ghost ln = seq_enc::<ResourceRecord>(self.name_servers@).len() as int;
        let ghost lo = opt_rr_enc(&self.header).len() as int;
        let ghost lx = seq_enc::<ResourceRecord>(self.additional_records@).len() as int;
        proof {
            assert(e0.len() == 12);
            assert(self.pkt_enc().len() == 12 + lq + la + ln + lo + lx);
        }
""")
    c.ghost(rel, P_IMPL, W, "let mut name_refs = HashMap::new();", """
        proof {
            broadcast use crate::dns::name::axiom_label_slice_key_model;
            lemma_refs_empty(name_refs@, io_buf(out));
            assert(io_buf(out) =~= e0);
            assert(io_buf(out).subrange(0, 12) =~= e0);
            assert(self.questions@.subrange(0, 0) =~= Seq::<Question>::empty());
        }
""", where='after')
    COMMON = """self.pkt_ok(), self.pkt_canon(), at_end(out), refs_ok(name_refs@, io_buf(out)),
                e0.len() == 12, io_buf(out).len() >= 12, io_buf(out).subrange(0, 12) =~= e0,
                self.pkt_enc().len() == 12 + lq + la + ln + lo + lx,
                lq == seq_enc::<Question>(self.questions@).len(), la == seq_enc::<ResourceRecord>(self.answers@).len(),
                ln == seq_enc::<ResourceRecord>(self.name_servers@).len(), lx == seq_enc::<ResourceRecord>(self.additional_records@).len(),"""
    def cloop(k, field, ty, base, keep_inv, keep_proof, step, extra_inv=''):
        c.loop_spec(rel, P_IMPL, W, k, """
            invariant %s
                0 <= vx_c%d.index@ <= self.%s@.len(),
                io_buf(out).len() <= %s + seq_enc::<%s>(self.%s@.subrange(0, vx_c%d.index@ as int)).len(),
                %s
                %s
""" % (COMMON, k, field, base, ty, field, k, keep_inv, extra_inv), iter_name='vx_c%d' % k, body_pre="""
            broadcast use crate::dns::name::axiom_label_slice_key_model;
            let ghost vx_b = io_buf(out);
            let ghost vx_i = vx_c%d.index@ as int;
            proof { lemma_seq_enc_step::<%s>(self.%s@, vx_i); }
""" % (k, ty, field))
        c.ghost(rel, P_IMPL, W, "e.write_compressed_to(out, &mut name_refs)?;", """
            proof {
                let b2 = io_buf(out);
                assert(b2.subrange(0, 12) =~= e0) by { assert forall|j: int| 0 <= j < 12 implies b2[j] == vx_b[j] by { assert(b2.subrange(0, vx_b.len() as int)[j] == vx_b[j]); } }
                %s
                %s
            }
""" % (keep_proof, step), where='after', occurrence=k)
    cloop(0, 'questions', 'Question', '12', '', '',
          'lemma_step_q(vx_b, b2, 12, self.questions@, vx_i);',
          'chain::<Question>(io_buf(out), 12, self.questions@.subrange(0, vx_c0.index@ as int), io_buf(out).len() as int),')
    KQ = 'chain::<Question>(io_buf(out), 12, self.questions@, vx_p1), 12 <= vx_p1 <= io_buf(out).len(),'
    PQ = 'lemma_keep_q(vx_b, b2, 12, self.questions@, vx_p1);'
    cloop(1, 'answers', 'ResourceRecord', '12 + lq', KQ, PQ,
          'lemma_step_rr(vx_b, b2, vx_p1, self.answers@, vx_i);',
          'chain::<ResourceRecord>(io_buf(out), vx_p1, self.answers@.subrange(0, vx_c1.index@ as int), io_buf(out).len() as int),')
    KA = KQ + ' chain::<ResourceRecord>(io_buf(out), vx_p1, self.answers@, vx_p2), vx_p1 <= vx_p2 <= io_buf(out).len(),'
    PA = PQ + ' lemma_keep_rr(vx_b, b2, vx_p1, self.answers@, vx_p2);'
    cloop(2, 'name_servers', 'ResourceRecord', '12 + lq + la', KA, PA,
          'lemma_step_rr(vx_b, b2, vx_p2, self.name_servers@, vx_i);',
          'chain::<ResourceRecord>(io_buf(out), vx_p2, self.name_servers@.subrange(0, vx_c2.index@ as int), io_buf(out).len() as int),')
    KN = KA + ' chain::<ResourceRecord>(io_buf(out), vx_p2, self.name_servers@, vx_p3), vx_p2 <= vx_p3 <= io_buf(out).len(),'
    PN = PA + ' lemma_keep_rr(vx_b, b2, vx_p2, self.name_servers@, vx_p3);'
    cloop(3, 'additional_records', 'ResourceRecord', '12 + lq + la + ln + lo', KN, PN,
          """assert((vx_w0 + self.additional_records@).subrange(0, vx_w0.len() + vx_i) =~= vx_w0 + self.additional_records@.subrange(0, vx_i));
                assert((vx_w0 + self.additional_records@).subrange(0, vx_w0.len() + vx_i + 1) =~= vx_w0 + self.additional_records@.subrange(0, vx_i + 1));
                assert((vx_w0 + self.additional_records@)[vx_w0.len() + vx_i] == self.additional_records@[vx_i]);
                lemma_step_rr(vx_b, b2, vx_p3, vx_w0 + self.additional_records@, vx_w0.len() + vx_i);""",
          """vx_w0.len() == (if self.header.opt is Some { 1int } else { 0int }), lo == opt_rr_enc(&self.header).len(), // @C09:one-opt-record,C04:opt-record-counted-and-written-once,C03:opt-record
                self.header.opt is Some ==> vx_w0.len() == 1 && vx_w0[0].rdata == crate::rdata::RData::OPT(self.header.opt.unwrap()), // @C09:one-opt-record,C04:opt-record-counted-and-written-once,C03:opt-record
                chain::<ResourceRecord>(io_buf(out), vx_p3, vx_w0 + self.additional_records@.subrange(0, vx_c3.index@ as int), io_buf(out).len() as int),""")
    # section boundaries
    c.ghost(rel, P_IMPL, W, "for e in vx_c1: &self.answers", """
        let ghost vx_p1 = io_buf(out).len() as int;
        proof {
            assert(self.questions@.subrange(0, self.questions@.len() as int) =~= self.questions@);
            assert(self.answers@.subrange(0, 0) =~= Seq::<ResourceRecord>::empty());
        }
""", where='before')
    c.ghost(rel, P_IMPL, W, "for e in vx_c2: &self.name_servers", """
        let ghost vx_p2 = io_buf(out).len() as int;
        proof {
            assert(self.answers@.subrange(0, self.answers@.len() as int) =~= self.answers@);
            assert(self.name_servers@.subrange(0, 0) =~= Seq::<ResourceRecord>::empty());
        }
""", where='before')
    jb_w, be_w = c.body(rel, P_IMPL, W)
    has_opt_block = "if let Some(rr) = self.header.opt_rr() {" in c.rd(rel)[jb_w:be_w]
    P3DECL = """
        let ghost vx_p3 = io_buf(out).len() as int;
        let ghost mut vx_w0: Seq<ResourceRecord> = Seq::empty();
        proof {
            assert(self.name_servers@.subrange(0, self.name_servers@.len() as int) =~= self.name_servers@);
        }
"""
    if has_opt_block:
        c.ghost(rel, P_IMPL, W, "if let Some(rr) = self.header.opt_rr() {", """
            let ghost vx_p3 = io_buf(out).len() as int;
            let ghost mut vx_w0: Seq<ResourceRecord> = Seq::empty();
            proof {
                assert(self.name_servers@.subrange(0, self.name_servers@.len() as int) =~= self.name_servers@);
            }
    """, where='before')
        c.ghost(rel, P_IMPL, W, "rr.write_to(out)?;", """
                let ghost vx_bo = io_buf(out);
                proof {
                    lemma_opt_ttl_version(self.header.response_code, self.header.opt.unwrap().version);
                    assert(rr.name.lv().len() == 0);
                    assert(wl(rr.name.lv()) == 0);
                    assert(rr.wf_ok());
                    assert(rr.wf_canon());
                    rr.lemma_rt(vx_bo);
                    lemma_enc_be_len(rr.ttl as nat, 4);
                    assert(rr.wf_enc() =~= opt_rr_enc(&self.header)) by {
                        assert(run(rr.name.lv()) =~= Seq::<u8>::empty());
                        assert(name_enc(rr.name.lv()) =~= seq![0u8]);
                    }
                    lemma_refs_append(name_refs@, vx_bo, rr.wf_enc());
                }
    """, where='before')
        c.ghost(rel, P_IMPL, W, "rr.write_to(out)?;", """
                proof {
                    let b2 = io_buf(out);
                    assert(b2 =~= vx_bo + rr.wf_enc());
                    vx_w0 = seq![rr];
                    assert(b2.subrange(0, 12) =~= e0);
                    lemma_keep_q(vx_bo, b2, 12, self.questions@, vx_p1);
                    lemma_keep_rr(vx_bo, b2, vx_p1, self.answers@, vx_p2);
                    lemma_keep_rr(vx_bo, b2, vx_p2, self.name_servers@, vx_p3);
                    assert(vx_w0.drop_last() =~= Seq::<ResourceRecord>::empty());
                    assert(chain::<ResourceRecord>(b2, vx_p3, vx_w0.drop_last(), vx_p3));
                    assert(vx_w0.last() == rr);
                    assert(vx_p3 == vx_bo.len());
                    assert(ResourceRecord::wf_dec(b2, vx_p3, &vx_w0.last(), b2.len() as int));
                    assert(chain::<ResourceRecord>(b2, vx_p3, vx_w0, b2.len() as int));
                }
    """, where='after')

    else:
        # the OPT block is optional for anchoring purposes: without it the contract is still spliced and the final
        # obligation (ARCOUNT / one OPT record) decides
        c.ghost(rel, P_IMPL, W, "for e in vx_c3: &self.additional_records", P3DECL, where='before')
    c.ghost(rel, P_IMPL, W, "for e in vx_c3: &self.additional_records", """
        proof {
            assert(self.additional_records@.subrange(0, 0) =~= Seq::<ResourceRecord>::empty());
            assert(vx_w0 + Seq::<ResourceRecord>::empty() =~= vx_w0);
            if self.header.opt is None { assert(chain::<ResourceRecord>(io_buf(out), vx_p3, vx_w0, vx_p3)); }
        }
""", where='before')
    c.ghost(rel, P_IMPL, W, "out.flush()?;", """
        proof {
            let m = io_buf(out);
            let add = vx_w0 + self.additional_records@;
            assert(self.additional_records@.subrange(0, self.additional_records@.len() as int) =~= self.additional_records@);
            lemma_hdr_rt(&self.header, self.questions@.len() as u16, self.answers@.len() as u16, self.name_servers@.len() as u16,
                (self.additional_records@.len() + if self.header.opt is Some { 1int } else { 0int }) as u16, m);
            assert(opt_lifted(add, self.additional_records@, self.header.opt)) by {
                if self.header.opt is Some {
                    assert(add[0] == vx_w0[0]);
                    assert(add.remove(0) =~= self.additional_records@);
                    assert(rdata_type(&add[0].rdata) == crate::TYPE::OPT);
                } else {
                    assert(add =~= self.additional_records@);
                }
            }
            assert(pkt_dec_w(m, self.questions@, self.answers@, self.name_servers@, self.additional_records@, &self.header,
                             vx_p1, vx_p2, vx_p3, m.len() as int, add));
        }
""", where='before')
    c.wrap(rel, P_IMPL)
