"""Compressing overrides of the RFC 1035 / 1183 types (SOA MX MINFO RP AFSDB RouteThrough HINFO ISDN): the real bodies are
proved against the trait-level compressed-writer contract (C03, C07). Proofs are generated from the RFC schema: one ghost
snapshot per statement, one isolated `assert(<decoder conjunct>) by {..}` per field at the end."""
import re
from schema import TYPES, INT_WIDTH
from typed import impl_header, dec_steps, len_term
from xf import AnchorLost

OVERRIDES = ['AFSDB', 'MX', 'RouteThrough', 'MINFO', 'RP', 'SOA', 'HINFO', 'ISDN']

def enc_of(kind, f):
    x = 'self.%s' % f
    if kind == 'u8':
        return 'seq![%s]' % x
    if kind == 'i32':
        return 'enc_be(i32_bits(%s), 4)' % x
    return 'enc_be(%s as nat, %d)' % (x, INT_WIDTH[kind])

def apply(c):
    table = {t[0]: t for t in TYPES}
    for tname in OVERRIDES:
        _, f, code, rfc, fields = table[tname]
        rel = 'dns/rdata/%s.rs' % f
        h = impl_header(c, rel, tname)
        W = 'write_compressed_to'
        # un-assume: remove the external_body marker placed by typed.wrap_type
        s = c.rd(rel)
        k, decl, po, pc, jb, be = c.fn_range(rel, h, W)
        seg = s[k:decl]
        if '#[verifier::external_body]' not in seg:
            raise AnchorLost('%s: external_body marker of %s lost' % (rel, W))
        c.wr(rel, s[:k] + seg.replace('#[verifier::external_body]\n', '', 1) + s[decl:])
        c.externalised[:] = [e for e in c.externalised if not (e[0].startswith(rel) and e[0].endswith(':: ' + W))]
        # group statements: consecutive trailing int fields of SOA are written by write_common
        groups = []   # (kind, [fields], anchor)
        i = 0
        while i < len(fields):
            kind, fld = fields[i]
            if kind in ('name', 'cstr'):
                groups.append((kind, [fields[i]], 'self.%s.write_compressed_to(out, name_refs)' % fld))
                i += 1
            elif tname == 'SOA':
                groups.append(('ints', fields[i:], 'self.write_common(out)'))
                i = len(fields)
            else:
                groups.append(('ints', [fields[i]], 'out.write_all(&self.%s.' % fld))
                i += 1
        n = len(groups)
        # R9 on the tail call, with the final proof
        steps = dec_steps(fields, v='self')
        qdefs = ['                let q0 = vx_s0.len() as int;']
        fi = 0
        fld_q = {}
        for gi, (gk, gf, anchor) in enumerate(groups):
            for (kind, fld) in gf:
                fld_q[fld] = fi
                qdefs.append('                let q%d = q%d + %s;' % (fi + 1, fi, len_term(kind, fld) if kind not in ('name',) else '(vx_s%d.len() - vx_s%d.len())' % (gi + 1, gi)))
                fi += 1
        final = ['        proof {', '            if vx_r is Ok {', '                lemma_pow256_vals();', '                let m = io_buf(out);', '                let vx_s%d = m;' % n]
        final += qdefs
        # prefix chain
        for gi in range(n - 1, -1, -1):
            final.append('                assert(m.subrange(0, vx_s%d.len() as int) =~= vx_s%d) by { assert(vx_s%d.subrange(0, vx_s%d.len() as int) =~= vx_s%d); assert(m.subrange(0, vx_s%d.len() as int) =~= vx_s%d); }'
                         % (gi, gi, gi + 1, gi, gi, gi + 1, gi + 1))
        fi = 0
        for gi, (gk, gf, anchor) in enumerate(groups):
            for (kind, fld) in gf:
                q = 'q%d' % fi
                cond = re.sub(r'\bdata\b', 'm', steps[fi][0])
                cond = re.sub(r'\bq\b', q, cond)
                x = 'self.%s' % fld
                hints = []
                if kind == 'name':
                    hints.append('let x = m.subrange(vx_s%d.len() as int, m.len() as int);' % (gi + 1))
                    hints.append('assert(m =~= vx_s%d + x);' % (gi + 1))
                    hints.append('lemma_append_stable(vx_s%d, x, %s, 0); lemma_inplace_append_stable(vx_s%d, x, %s, 0);' % (gi + 1, q, gi + 1, q))
                    cond += ' && %s + inplace_len(m, %s) == q%d' % (q, q, fi + 1)
                elif kind == 'cstr':
                    hints.append('assert(m[%s] == vx_s%d[%s]) by { assert(m.subrange(0, vx_s%d.len() as int)[%s] == vx_s%d[%s]); }' % (q, gi + 1, q, gi + 1, q, gi + 1, q))
                    hints.append('assert(m.subrange(%s + 1, q%d) =~= vx_s%d.subrange(%s + 1, q%d)) by { assert forall|j: int| %s + 1 <= j < q%d implies m[j] == vx_s%d[j] by { assert(m.subrange(0, vx_s%d.len() as int)[j] == vx_s%d[j]); } }'
                                 % (q, fi + 1, gi + 1, q, fi + 1, q, fi + 1, gi + 1, gi + 1, gi + 1))
                    cond += ' && %s + 1 + m[%s] == q%d' % (q, q, fi + 1)
                else:
                    nb = 1 if kind == 'u8' else INT_WIDTH[kind]
                    val = 'i32_bits(%s)' % x if kind == 'i32' else '%s as nat' % x
                    if kind != 'u8':
                        hints.append('lemma_be_enc(%s, %d);' % (val, nb))
                    hints.append('assert(m.subrange(%s, %s + %d) =~= %s) by { assert forall|j: int| 0 <= j < %d implies m[%s + j] == %s[j] by { assert(m.subrange(0, vx_s%d.len() as int)[%s + j] == vx_s%d[%s + j]); } }'
                                 % (q, q, nb, enc_of(kind, fld), nb, q, enc_of(kind, fld), gi + 1, q, gi + 1, q))
                final.append('                assert(%s) by { %s }' % (cond, ' '.join(hints)))
                fi += 1
        final.append('                assert(q%d == m.len());' % fi)
        # table validity if the last statement was a plain write
        if groups[-1][0] == 'ints':
            encs = ' + '.join(enc_of(k2, f2) for (k2, f2) in groups[-1][1])
            final.append('                assert(m =~= vx_s%d + (%s));' % (n - 1, encs))
            final.append('                lemma_refs_append(name_refs@, vx_s%d, %s);' % (n - 1, encs))
        final += ['            }', '        }']
        c.bind_tail(rel, h, W, '\n'.join(final))
        # snapshots: s0 at entry, s_k after statement k (k < n); hints after plain writes
        c.contract(rel, h, W, "", pre_body="\n        let ghost vx_s0 = io_buf(out);\n")
        for gi, (gk, gf, anchor) in enumerate(groups[:-1]):
            g = '        let ghost vx_s%d = io_buf(out);' % (gi + 1)
            if gk == 'ints':
                encs = ' + '.join(enc_of(k2, f2) for (k2, f2) in gf)
                g += '\n        proof { assert(vx_s%d =~= vx_s%d + (%s)); lemma_refs_append(name_refs@, vx_s%d, %s); }' % (gi + 1, gi, encs, gi, encs)
            c.ghost(rel, h, W, anchor, g, where='after')
