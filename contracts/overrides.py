"""Compressing overrides of the RFC 1035 / 1183 types (SOA MX MINFO RP AFSDB RouteThrough HINFO ISDN): the real bodies are
proved against the trait-level compressed-writer contract (C03, C07). Proofs are generated from the RFC schema: one ghost
snapshot per statement, one isolated `assert(<decoder conjunct>) by {..}` per field at the end."""
import re
from schema import TYPES, INT_WIDTH
from typed import impl_header, dec_steps, len_term
from xf import AnchorLost

OVERRIDES = ['AFSDB', 'MX', 'RouteThrough', 'MINFO', 'RP', 'SOA', 'HINFO', 'ISDN']

def enc_of(kind, f):
    x = 'self.%s' % f
    if kind == 'u8':
        return 'seq![%s]' % x
    if kind == 'i32':
        return 'enc_be(i32_bits(%s), 4)' % x
    return 'enc_be(%s as nat, %d)' % (x, INT_WIDTH[kind])

def apply(c):
    table = {t[0]: t for t in TYPES}
    for tname in OVERRIDES:
        _, f, code, rfc, fields = table[tname]
        rel = 'dns/rdata/%s.rs' % f
        h = impl_header(c, rel, tname)
        W = 'write_compressed_to'
        # un-assume: remove the external_body marker placed by typed.wrap_type
        s = c.rd(rel)
        k, decl, po, pc, jb, be = c.fn_range(rel, h, W)
        seg = s[k:decl]
        if '#[verifier::external_body]' not in seg:
            raise AnchorLost('%s: external_body marker of %s lost' % (rel, W))
        c.wr(rel, s[:k] + seg.replace('#[verifier::external_body]\n', '', 1) + s[decl:])
        c.externalised[:] = [e for e in c.externalised if not (e[0].startswith(rel) and e[0].endswith(':: ' + W))]
        if tname == 'SOA':
            # two names + five integers: the largest of the generated window proofs (13-18 M units); margin for the canary run
            c.mark(rel, h, W, '#[verifier::rlimit(30)]')
        # group statements: consecutive trailing int fields of SOA are written by write_common
        groups = []   # (kind, [fields], anchor)
        i = 0
        while i < len(fields):
            kind, fld = fields[i]
            if kind in ('name', 'cstr'):
                groups.append((kind, [fields[i]], 'self.%s.write_compressed_to(out, name_refs)' % fld))
                i += 1
            elif tname == 'SOA':
                groups.append(('ints', fields[i:], 'self.write_common(out)'))
                i = len(fields)
            else:
                groups.append(('ints', [fields[i]], 'out.write_all(&self.%s.' % fld))
                i += 1
        n = len(groups)
        # R9 on the tail call, with the final proof (main clause on the real buffer, window clause on every agreeing buffer)
        steps = dec_steps(fields, v='self')
        qdefs = ['                let q0 = vx_s0.len() as int;']
        fi = 0
        for gi, (gk, gf, anchor) in enumerate(groups):
            for (kind, fld) in gf:
                qdefs.append('                let q%d = q%d + %s;' % (fi + 1, fi, len_term(kind, fld) if kind not in ('name',) else '(vx_s%d.len() - vx_s%d.len())' % (gi + 1, gi)))
                fi += 1

        def field_asserts(B, M, ind):
            """decoder conjuncts of every field on buffer M, from the per-step facts on the buffers B(k) (prefixes of M)"""
            out = []
            fi = 0
            for gi, (gk, gf, anchor) in enumerate(groups):
                for (kind, fld) in gf:
                    q = 'q%d' % fi
                    cond = re.sub(r'\bdata\b', M, steps[fi][0])
                    cond = re.sub(r'\bq\b', q, cond)
                    x = 'self.%s' % fld
                    hints = []
                    bk = B(gi + 1)
                    if kind == 'name':
                        hints.append('let x = %s.subrange(%s.len() as int, %s.len() as int);' % (M, bk, M))
                        hints.append('assert(%s =~= %s + x);' % (M, bk))
                        hints.append('lemma_append_stable(%s, x, %s, 0); lemma_inplace_append_stable(%s, x, %s, 0);' % (bk, q, bk, q))
                        cond += ' && %s + inplace_len(%s, %s) == q%d' % (q, M, q, fi + 1)
                    elif kind == 'cstr':
                        hints.append('assert(%s[%s] == %s[%s]) by { assert(%s.subrange(0, %s.len() as int)[%s] == %s[%s]); }' % (M, q, bk, q, M, bk, q, bk, q))
                        hints.append('assert(%s.subrange(%s + 1, q%d) =~= %s.subrange(%s + 1, q%d)) by { assert forall|j: int| %s + 1 <= j < q%d implies %s[j] == %s[j] by { assert(%s.subrange(0, %s.len() as int)[j] == %s[j]); } }'
                                     % (M, q, fi + 1, bk, q, fi + 1, q, fi + 1, M, bk, M, bk, bk))
                        cond += ' && %s + 1 + %s[%s] == q%d' % (q, M, q, fi + 1)
                    else:
                        nb = 1 if kind == 'u8' else INT_WIDTH[kind]
                        val = 'i32_bits(%s)' % x if kind == 'i32' else '%s as nat' % x
                        if kind != 'u8':
                            hints.append('lemma_be_enc(%s, %d);' % (val, nb))
                        hints.append('assert(%s.subrange(%s, %s + %d) =~= %s) by { assert forall|j: int| 0 <= j < %d implies %s[%s + j] == %s[j] by { assert(%s.subrange(0, %s.len() as int)[%s + j] == %s[%s + j]); } }'
                                     % (M, q, q, nb, enc_of(kind, fld), nb, M, q, enc_of(kind, fld), M, bk, q, bk, q))
                    out.append(ind + 'assert(%s) by { %s }' % (cond, ' '.join(hints)))
                    fi += 1
            out.append(ind + 'assert(q%d == %s.len());' % (fi, M))
            return out

        I = '                '
        final = ['        proof {', '            if vx_r is Ok {', I + 'lemma_pow256_vals();', I + 'let vx_m = io_buf(out);', I + 'let vx_s%d = vx_m;' % n, I + 'let vx_t%d = name_refs@;' % n]
        final += qdefs
        for gi in range(n - 1, -1, -1):
            final.append(I + 'assert(vx_m.subrange(0, vx_s%d.len() as int) =~= vx_s%d) by { assert(vx_s%d.subrange(0, vx_s%d.len() as int) =~= vx_s%d); assert(vx_m.subrange(0, vx_s%d.len() as int) =~= vx_s%d); }'
                         % (gi, gi, gi + 1, gi, gi, gi + 1, gi + 1))
        final += field_asserts(lambda k: 'vx_s%d' % k, 'vx_m', I)
        if groups[-1][0] == 'ints':
            encs = ' + '.join(enc_of(k2, f2) for (k2, f2) in groups[-1][1])
            final.append(I + 'assert(vx_m =~= vx_s%d + (%s));' % (n - 1, encs))
            final.append(I + 'lemma_refs_append(name_refs@, vx_s%d, %s);' % (n - 1, encs))
        # ---- window clause
        J = I + '    '
        final.append(I + 'assert forall|wa: int, mp: Seq<u8>| 0 <= wa && wa + 2 <= vx_s0.len() && #[trigger] agree_out(vx_m, mp, wa) && refs_ok(vx_t0, mp.subrange(0, vx_s0.len() as int))')
        final.append(I + '    implies refs_ok(name_refs@, mp) && Self::wf_cdec(mp, vx_s0.len() as int, self, mp.len() as int) by {')
        for k in range(0, n):
            final.append(J + 'let vx_b%d = mp.subrange(0, vx_s%d.len() as int);' % (k, k))
        final.append(J + 'let vx_b%d = mp;' % n)
        final.append(J + 'lemma_agree_prefix(vx_m, mp, wa, vx_m.len() as int); assert(mp.subrange(0, mp.len() as int) =~= mp);')
        for k in range(0, n + 1):
            final.append(J + 'lemma_agree_prefix(vx_m, mp, wa, vx_s%d.len() as int); assert(agree_out(vx_s%d, vx_b%d, wa));' % (k, k, k))
            if k > 0:
                final.append(J + 'assert(vx_b%d.subrange(0, vx_s%d.len() as int) =~= vx_b%d);' % (k, k - 1, k - 1))
        for gi, (gk, gf, anchor) in enumerate(groups):
            k = gi + 1
            if gk == 'ints':
                encs = ' + '.join(enc_of(k2, f2) for (k2, f2) in gf)
                final.append(J + 'assert(vx_b%d =~= vx_b%d + (%s)) by { lemma_agree_suffix(vx_s%d, %s, vx_b%d, wa); }' % (k, k - 1, encs, k - 1, encs, k))
                final.append(J + 'lemma_refs_append(vx_t%d, vx_b%d, %s); assert(refs_ok(vx_t%d, vx_b%d));' % (k - 1, k - 1, encs, k, k))
            else:
                # the callee's window clause, instantiated at (wa, vx_b<k>) through its trigger agree_out(vx_s<k>, vx_b<k>, wa)
                final.append(J + 'assert(refs_ok(vx_t%d, vx_b%d));' % (k, k))
        final += field_asserts(lambda k: 'vx_b%d' % k, 'mp', J)
        final.append(I + '}')
        final += ['            }', '        }']
        c.bind_tail(rel, h, W, '\n'.join(final))
        # snapshots: s0 at entry, s_k after statement k (k < n); hints after plain writes
        c.contract(rel, h, W, "", pre_body="\n        let ghost vx_s0 = io_buf(out);\n        let ghost vx_t0 = name_refs@;\n")
        for gi, (gk, gf, anchor) in enumerate(groups[:-1]):
            g = '        let ghost vx_s%d = io_buf(out);\n        let ghost vx_t%d = name_refs@;' % (gi + 1, gi + 1)
            if gk == 'ints':
                encs = ' + '.join(enc_of(k2, f2) for (k2, f2) in gf)
                g += '\n        proof { assert(vx_s%d =~= vx_s%d + (%s)); lemma_refs_append(name_refs@, vx_s%d, %s); }' % (gi + 1, gi, encs, gi, encs)
            c.ghost(rel, h, W, anchor, g, where='after')
