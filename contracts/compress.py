"""Name compression (C03, C07): Name::compress_append against the RFC 1035 4.1.4 decoder with a ghost invariant on the
suffix table; round-trip lemma and compressed-writer contracts for Name."""
import re
from xf import AnchorLost

NAME_WF = "impl<'a> WireFormat<'a> for Name<'a> {"
NAME_IMPL = "impl<'a> Name<'a> {"

SPECS = r"""verus!{
// the suffix table is keyed by label slices: derived Hash / Eq of Label are structural (assumption "derived impls")
#[verifier::external_body]
pub broadcast proof fn axiom_label_slice_key_model<'a>()
    ensures #[trigger] vstd::std_specs::hash::obeys_key_model::<&'a [Label<'a>]>() {}

/// every recorded suffix position is a valid pointer target (< 2^14, inside the message) that decodes to that suffix
pub closed spec fn refs_ok<'a>(map: Map<&'a [Label<'a>], usize>, m: Seq<u8>) -> bool {
    forall|k: &'a [Label<'a>]| #[trigger] map.contains_key(k) ==>
        map[k] < m.len() && map[k] < 0x4000 && dec_labels(m, map[k] as int, 0) == Some(labels_view(k@))
}
pub proof fn lemma_refs_append<'a>(map: Map<&'a [Label<'a>], usize>, m: Seq<u8>, x: Seq<u8>)
    requires refs_ok(map, m)
    ensures refs_ok(map, m + x)
{
    assert forall|k: &'a [Label<'a>]| #[trigger] map.contains_key(k) implies
        map[k] < (m + x).len() && map[k] < 0x4000 && dec_labels(m + x, map[k] as int, 0) == Some(labels_view(k@)) by {
        lemma_append_stable(m, x, map[k] as int, 0);
    }
}
pub open spec fn ref_old<'a>(m0: Seq<u8>, k: &'a [Label<'a>], v: usize) -> bool {
    v < m0.len() && v < 0x4000 && dec_labels(m0, v as int, 0) == Some(labels_view(k@))
}
pub open spec fn ref_pend<'a>(lv: Seq<Seq<u8>>, m0len: int, k: &'a [Label<'a>], v: usize, j: int) -> bool {
    labels_view(k@) == lv.subrange(j, lv.len() as int) && v == m0len + wl(lv.subrange(0, j)) && v < 0x4000
}
/// buffers that agree everywhere except in the 2-octet window at `a` (an RDLENGTH slot that will be patched later)
pub closed spec fn agree_out(m: Seq<u8>, mp: Seq<u8>, a: int) -> bool {
    m.len() == mp.len() && forall|i: int| 0 <= i < m.len() && !(a <= i < a + 2) ==> #[trigger] mp[i] == m[i]
}
/// loop invariant of compress_append (independent of the buffer contents): every entry is either an entry of the table
/// as it was at entry (same value), or a suffix of the name being written whose bytes are not complete yet ("pending")
pub open spec fn inv_refs<'a>(map: Map<&'a [Label<'a>], usize>, t0: Map<&'a [Label<'a>], usize>, lv: Seq<Seq<u8>>, m0len: int, i: int) -> bool {
    forall|k: &'a [Label<'a>]| #[trigger] map.contains_key(k) ==>
        (t0.contains_key(k) && t0[k] == map[k]) || (exists|j: int| 0 <= j < i && #[trigger] ref_pend(lv, m0len, k, map[k], j))
}

/// all suffix positions decode once the terminator has been written
pub proof fn lemma_finish_zero(m0: Seq<u8>, lv: Seq<Seq<u8>>, m1: Seq<u8>, j: int)
    requires labels_ok(lv), wl(lv) <= 254, m1 == m0 + run(lv) + seq![0u8], 0 <= j <= lv.len()
    ensures dec_labels(m1, m0.len() + wl(lv.subrange(0, j)), 0) == Some(lv.subrange(j, lv.len() as int)),
            j == 0 ==> inplace_len(m1, m0.len() as int) == wl(lv) + 1,
{
    let n = lv.len() as int;
    lemma_run_len(lv);
    let base = m0.len() as int;
    assert(m1.subrange(base, base + wl(lv)) =~= run(lv));
    lemma_sub_run(m1, base, lv, j);
    let t = lv.subrange(j, n); let q = base + wl(lv.subrange(0, j));
    lemma_sub_labels_ok(lv, j, n);
    lemma_split(lv, j); lemma_run_len(lv.subrange(0, j)); lemma_run_len(t);
    assert(m1[base + wl(lv)] == 0u8);
    assert(dec_labels(m1, q + wl(t), wl(t)) == Some(Seq::<Seq<u8>>::empty()));
    lemma_run_decodes(m1, q, t, 0, Seq::empty());
    assert(t + Seq::<Seq<u8>>::empty() =~= t);
    if j == 0 {
        assert(lv.subrange(0, 0) =~= Seq::<Seq<u8>>::empty());
        assert(lv.subrange(0, n) =~= lv);
    }
}

/// all suffix positions up to i decode once a pointer to an existing copy of lv[i..] has been written
pub proof fn lemma_finish_ptr(m0: Seq<u8>, lv: Seq<Seq<u8>>, i: int, p: u16, m1: Seq<u8>, j: int)
    requires labels_ok(lv), wl(lv) <= 254, 0 <= i < lv.len(), 0 <= j <= i,
             p < m0.len(), p < 0x4000,
             dec_labels(m0, p as int, 0) == Some(lv.subrange(i, lv.len() as int)),
             m1 == m0 + run(lv.subrange(0, i)) + enc16(p | 0xC000u16),
    ensures dec_labels(m1, m0.len() + wl(lv.subrange(0, j)), 0) == Some(lv.subrange(j, lv.len() as int)),
            j == 0 ==> inplace_len(m1, m0.len() as int) == wl(lv.subrange(0, i)) + 2,
{
    let n = lv.len() as int;
    let pre = lv.subrange(0, i); let suf = lv.subrange(i, n);
    lemma_run_len(pre); lemma_split(lv, i); lemma_run_len(suf);
    let base = m0.len() as int;
    let pp = base + wl(pre);
    lemma_ptr_bits(p);
    let v = p | 0xC000u16;
    assert(m1[pp] == (v >> 8) as u8);
    assert(m1[pp + 1] == (v & 0xff) as u8);
    assert(m1.len() == pp + 2);
    lemma_append_stable(m0, run(pre) + enc16(v), p as int, 0);
    assert(m0 + (run(pre) + enc16(v)) =~= m1);
    assert(m1.subrange(base, base + wl(pre)) =~= run(pre));
    lemma_sub_run(m1, base, pre, j);
    let t = pre.subrange(j, i); let q = base + wl(pre.subrange(0, j));
    lemma_sub_labels_ok(lv, 0, i);
    lemma_sub_labels_ok(pre, j, i);
    lemma_run_len(t); lemma_run_len(pre.subrange(0, j));
    lemma_split(pre, j);
    assert(pre.subrange(0, j) =~= lv.subrange(0, j));
    lemma_budget(m1, p as int, 0, wl(t));
    assert(dec_labels(m1, pp, wl(t)) == Some(suf));
    lemma_run_decodes(m1, q, t, 0, suf);
    assert(t + suf =~= lv.subrange(j, n));
    if j == 0 {
        assert(pre.subrange(0, 0) =~= Seq::<Seq<u8>>::empty());
        assert(pre.subrange(0, i) =~= pre);
        assert(inplace_len(m1, pp) == 2);
    }
}

pub proof fn lemma_inv_init<'a>(map: Map<&'a [Label<'a>], usize>, lv: Seq<Seq<u8>>, m0len: int)
    ensures inv_refs(map, map, lv, m0len, 0)
{}

/// loop step in the Vacant arm
pub proof fn lemma_vacant_step<'a>(map_b: Map<&'a [Label<'a>], usize>, map_a: Map<&'a [Label<'a>], usize>, t0: Map<&'a [Label<'a>], usize>,
                               k0: &'a [Label<'a>], pos: usize, inserted: bool, m0len: int, lv: Seq<Seq<u8>>, i: int)
    requires
        0 <= i < lv.len(),
        inv_refs(map_b, t0, lv, m0len, i),
        !map_b.contains_key(k0),
        labels_view(k0@) == lv.subrange(i, lv.len() as int),
        pos == m0len + wl(lv.subrange(0, i)),
        inserted ==> pos < 0x4000 && map_a == map_b.insert(k0, pos),
        !inserted ==> map_a == map_b,
    ensures
        inv_refs(map_a, t0, lv, m0len, i + 1),
{
    assert forall|k: &'a [Label<'a>]| #[trigger] map_a.contains_key(k) implies
        (t0.contains_key(k) && t0[k] == map_a[k]) || (exists|j: int| 0 <= j < i + 1 && #[trigger] ref_pend(lv, m0len, k, map_a[k], j)) by {
        if inserted && k == k0 {
            assert(ref_pend(lv, m0len, k, map_a[k], i));
        } else {
            assert(map_b.contains_key(k) && map_b[k] == map_a[k]);
            if !(t0.contains_key(k) && t0[k] == map_a[k]) {
                let j = choose|j: int| 0 <= j < i && #[trigger] ref_pend(lv, m0len, k, map_b[k], j);
                assert(ref_pend(lv, m0len, k, map_a[k], j));
            }
        }
    }
}

/// exit through the terminator; m0x is any buffer of the entry length on which the entry table is valid
pub proof fn lemma_zero_exit<'a>(map: Map<&'a [Label<'a>], usize>, t0: Map<&'a [Label<'a>], usize>, m0x: Seq<u8>, lv: Seq<Seq<u8>>, m1: Seq<u8>)
    requires labels_ok(lv), wl(lv) <= 254, inv_refs(map, t0, lv, m0x.len() as int, lv.len() as int), refs_ok(t0, m0x),
             m1 == m0x + run(lv) + seq![0u8]
    ensures
        dec_labels(m1, m0x.len() as int, 0) == Some(lv),
        inplace_len(m1, m0x.len() as int) == m1.len() - m0x.len(),
        refs_ok(map, m1),
        m1.len() == m0x.len() + wl(lv) + 1,
{
    let m0 = m0x;
    let n = lv.len() as int;
    lemma_run_len(lv);
    assert(lv.subrange(0, 0) =~= Seq::<Seq<u8>>::empty());
    assert(lv.subrange(0, n) =~= lv);
    lemma_finish_zero(m0, lv, m1, 0);
    assert forall|k: &'a [Label<'a>]| #[trigger] map.contains_key(k) implies
        map[k] < m1.len() && map[k] < 0x4000 && dec_labels(m1, map[k] as int, 0) == Some(labels_view(k@)) by {
        let v = map[k];
        if t0.contains_key(k) && t0[k] == v {
            assert(ref_old(m0, k, v));
            lemma_append_stable(m0, run(lv) + seq![0u8], v as int, 0);
            assert(m0 + (run(lv) + seq![0u8]) =~= m1);
        } else {
            let j = choose|j: int| 0 <= j < n && #[trigger] ref_pend(lv, m0.len() as int, k, v, j);
            lemma_finish_zero(m0, lv, m1, j);
            lemma_split(lv, j); lemma_run_len(lv.subrange(j, n)); lemma_run_len(lv.subrange(0, j));
        }
    }
}

/// exit through a pointer to an existing entry
/// the pointer exit on every buffer that differs from the output only inside an RDLENGTH slot of the old buffer (window clause)
pub proof fn lemma_ptr_exit_window<'a>(map: Map<&'a [Label<'a>], usize>, t0: Map<&'a [Label<'a>], usize>, k0: &'a [Label<'a>], m0: Seq<u8>, lv: Seq<Seq<u8>>, i: int, p: u16, m1: Seq<u8>)
    requires labels_ok(lv), wl(lv) <= 254, 0 <= i < lv.len(), inv_refs(map, t0, lv, m0.len() as int, i),
             map.contains_key(k0), labels_view(k0@) == lv.subrange(i, lv.len() as int),
             p == map[k0] as u16,
             m1 == m0 + run(lv.subrange(0, i)) + enc16(p | 0xC000u16),
    ensures
        forall|wa: int, mp: Seq<u8>| 0 <= wa && wa + 2 <= m0.len() && #[trigger] agree_out(m1, mp, wa) && refs_ok(t0, mp.subrange(0, m0.len() as int))
            ==> refs_ok(map, mp) && dec_labels(mp, m0.len() as int, 0) == Some(lv) && mp.len() == m0.len() + inplace_len(mp, m0.len() as int),
{
    assert forall|wa: int, mp: Seq<u8>| 0 <= wa && wa + 2 <= m0.len() && #[trigger] agree_out(m1, mp, wa) && refs_ok(t0, mp.subrange(0, m0.len() as int))
        implies refs_ok(map, mp) && dec_labels(mp, m0.len() as int, 0) == Some(lv) && mp.len() == m0.len() + inplace_len(mp, m0.len() as int) by {
        let x = run(lv.subrange(0, i)) + enc16(p | 0xC000u16);
        assert(m1 =~= m0 + x);
        lemma_agree_suffix(m0, x, mp, wa);
        let m0x = mp.subrange(0, m0.len() as int);
        assert(mp =~= m0x + run(lv.subrange(0, i)) + enc16(p | 0xC000u16));
        lemma_ptr_exit(map, t0, k0, m0x, lv, i, p, mp);
    }
}
pub proof fn lemma_ptr_exit<'a>(map: Map<&'a [Label<'a>], usize>, t0: Map<&'a [Label<'a>], usize>, k0: &'a [Label<'a>], m0x: Seq<u8>, lv: Seq<Seq<u8>>, i: int, p: u16, m1: Seq<u8>)
    requires labels_ok(lv), wl(lv) <= 254, 0 <= i < lv.len(), inv_refs(map, t0, lv, m0x.len() as int, i), refs_ok(t0, m0x),
             map.contains_key(k0), labels_view(k0@) == lv.subrange(i, lv.len() as int),
             p == map[k0] as u16,
             m1 == m0x + run(lv.subrange(0, i)) + enc16(p | 0xC000u16),
    ensures
        dec_labels(m1, m0x.len() as int, 0) == Some(lv),
        inplace_len(m1, m0x.len() as int) == m1.len() - m0x.len(),
        refs_ok(map, m1),
        m1.len() == m0x.len() + wl(lv.subrange(0, i)) + 2,
        m1.len() - m0x.len() <= wl(lv) + 1,
        p < 0x4000 && p < m0x.len() && dec_labels(m0x, p as int, 0) == Some(lv.subrange(i, lv.len() as int)),
{
    let m0 = m0x;
    let n = lv.len() as int;
    let v0 = map[k0];
    let suf = lv.subrange(i, n);
    assert(t0.contains_key(k0) && t0[k0] == v0) by {
        if !(t0.contains_key(k0) && t0[k0] == v0) {
            let j = choose|j: int| 0 <= j < i && #[trigger] ref_pend(lv, m0.len() as int, k0, v0, j);
            assert(lv.subrange(j, n).len() == n - j);
            assert(suf.len() == n - i);
        }
    }
    assert(ref_old(m0, k0, v0));
    assert(p == v0);
    lemma_run_len(lv.subrange(0, i));
    assert(lv.subrange(0, 0) =~= Seq::<Seq<u8>>::empty());
    lemma_finish_ptr(m0, lv, i, p, m1, 0);
    assert(lv.subrange(0, n) =~= lv);
    lemma_sub_labels_ok(lv, i, n); lemma_wl_pos(suf); lemma_split(lv, i);
    assert forall|k: &'a [Label<'a>]| #[trigger] map.contains_key(k) implies
        map[k] < m1.len() && map[k] < 0x4000 && dec_labels(m1, map[k] as int, 0) == Some(labels_view(k@)) by {
        let v = map[k];
        if t0.contains_key(k) && t0[k] == v {
            assert(ref_old(m0, k, v));
            lemma_append_stable(m0, run(lv.subrange(0, i)) + enc16(p | 0xC000u16), v as int, 0);
            assert(m0 + (run(lv.subrange(0, i)) + enc16(p | 0xC000u16)) =~= m1);
        } else {
            let j = choose|j: int| 0 <= j < i && #[trigger] ref_pend(lv, m0.len() as int, k, v, j);
            lemma_finish_ptr(m0, lv, i, p, m1, j);
            lemma_split(lv.subrange(0, i), j);
            assert(lv.subrange(0, i).subrange(0, j) =~= lv.subrange(0, j));
            lemma_run_len(lv.subrange(0, i).subrange(j, i));
        }
    }
}
pub proof fn lemma_refs_empty<'a>(map: Map<&'a [Label<'a>], usize>, m: Seq<u8>)
    requires forall|k: &'a [Label<'a>]| !map.contains_key(k)
    ensures refs_ok(map, m)
{}
/// what a valid table entry means (for users outside this module)
pub proof fn lemma_refs_entry<'a>(map: Map<&'a [Label<'a>], usize>, m: Seq<u8>, k: &'a [Label<'a>])
    requires refs_ok(map, m), map.contains_key(k)
    ensures map[k] < m.len(), map[k] < 0x4000, dec_labels(m, map[k] as int, 0) == Some(labels_view(k@))
{}
pub proof fn lemma_agree_intro(m: Seq<u8>, mp: Seq<u8>, a: int)
    requires m.len() == mp.len(), forall|i: int| 0 <= i < m.len() && !(a <= i < a + 2) ==> mp[i] == m[i]
    ensures agree_out(m, mp, a)
{}
pub proof fn lemma_agree_elim(m: Seq<u8>, mp: Seq<u8>, a: int, i: int)
    requires agree_out(m, mp, a), 0 <= i < m.len(), !(a <= i < a + 2)
    ensures mp[i] == m[i], m.len() == mp.len()
{}
/// prefixes of agreeing buffers agree (window inside the prefix), the rest is identical
pub proof fn lemma_agree_prefix(m: Seq<u8>, mp: Seq<u8>, a: int, n: int)
    requires agree_out(m, mp, a), 0 <= a, a + 2 <= n <= m.len()
    ensures agree_out(m.subrange(0, n), mp.subrange(0, n), a), mp.subrange(n, mp.len() as int) =~= m.subrange(n, m.len() as int), m.len() == mp.len()
{}
/// a buffer that agrees with m1 = m0 + x outside a window inside m0 is (its own prefix) + x
pub proof fn lemma_agree_suffix(m0: Seq<u8>, x: Seq<u8>, mp: Seq<u8>, a: int)
    requires 0 <= a, a + 2 <= m0.len(), agree_out(m0 + x, mp, a)
    ensures mp =~= mp.subrange(0, m0.len() as int) + x, agree_out(m0, mp.subrange(0, m0.len() as int), a), mp.len() == m0.len() + x.len(),
            mp.subrange(0, m0.len() as int).len() == m0.len(),
{
    let m1 = m0 + x;
    assert forall|i: int| m0.len() <= i < m1.len() implies mp[i] == x[i - m0.len()] by { assert(mp[i] == m1[i]); }
    assert forall|i: int| 0 <= i < m0.len() && !(a <= i < a + 2) implies #[trigger] mp.subrange(0, m0.len() as int)[i] == m0[i] by { assert(mp[i] == m1[i]); }
}
}
"""

def apply(c):
    rel = 'dns/name.rs'
    c.append(rel, SPECS)
    # ---- R3: `for (i, label) in self.iter().enumerate()` -> explicit counter (Enumerate has no vstd spec)
    jb, be = c.body(rel, NAME_IMPL, 'compress_append')
    s = c.rd(rel)
    seg = s[jb:be]
    m = re.search(r'for \((\w+), (\w+)\) in self\.iter\(\)\.enumerate\(\) \{', seg)
    if not m or re.search(r'\bcontinue\b', seg):
        raise AnchorLost('%s: enumerate loop of compress_append lost (R3 side condition)' % rel)
    from xf import match_close
    lb = jb + m.end() - 1
    le = match_close(s, lb)
    iv, lv = m.group(1), m.group(2)
    new = ('let mut %s = 0usize;\n        for %s in self.iter() {' % (iv, lv)) + s[lb + 1:le - 1] + '    %s += 1;\n        }' % iv
    c.wr(rel, s[:jb + m.start()] + new + s[le:])
    c.log.append(('rewrite', rel, 'R3 x1 (enumerate() -> explicit counter in Name::compress_append)'))

    # ---- R12: a VacantEntry that is inserted only on one branch is moved on the other branch too.
    # (Verus 0.2026.09.13 assumes `has_resolved(e)` at the end of the scope of a *conditionally* moved value; together with
    #  the post-condition of VacantEntry::insert this makes the inserting path contradictory, i.e. everything after it verifies
    #  vacuously -- reproduced in /verif/tools/verus_vacant_entry_bug.rs.  With the value moved on every path no resolution is
    #  assumed at scope end.  `let _vx_moved = e;` only drops the entry, which is what the implicit scope end does.)
    jb, be = c.body(rel, NAME_IMPL, 'compress_append')
    s = c.rd(rel)
    n12 = 0
    for m in reversed(list(re.finditer(r'if ([^{};]+?) \{\s*(\w+)\.insert\(([^;{}]*)\);\s*\}(?!\s*else)', s[jb:be]))):
        a, b = jb + m.start(), jb + m.end()
        s = s[:b] + ' else { let _vx_moved = %s; }' % m.group(2) + s[b:]
        n12 += 1
    if n12 == 0 and re.search(r'\.insert\(', c.rd(rel)[jb:be]):
        # an insertion that is not of the recognised conditional shape: if it is unconditional no rewrite is needed; a
        # conditional one of another shape must not be verified under the unsound resolution rule
        if re.search(r'\bif\b[^{};]*\{[^{}]*\.insert\(', c.rd(rel)[jb:be]):
            raise AnchorLost('%s: conditional entry insertion of unrecognised shape in compress_append (R12)' % rel)
    c.wr(rel, s)
    if n12:
        c.log.append(('rewrite', rel, 'R12 x%d (conditionally inserted VacantEntry moved on the other branch too: works around an unsound resolution assumption of Verus)' % n12))

    c.contract(rel, NAME_IMPL, 'compress_append', """
        requires
            name_ok(self.lv()), at_end(old(out)), io_buf(old(out)).len() <= 0x7fff_ffff,
            refs_ok(old(name_refs)@, io_buf(old(out))),
        ensures
            r is Ok ==> io_buf(final(out)).len() >= io_buf(old(out)).len()
                && io_buf(final(out)).subrange(0, io_buf(old(out)).len() as int) =~= io_buf(old(out)), // @C04:only-appends
            r is Ok ==> at_end(final(out)),
            r is Ok ==> refs_ok(final(name_refs)@, io_buf(final(out))), // @C03:suffix-table-valid,C07:pointer-targets-below-16384-and-decode-to-suffix
            r is Ok ==> dec_labels(io_buf(final(out)), io_buf(old(out)).len() as int, 0) == Some(self.lv()), // @C03:compressed-name-decodes,C07:pointers-expand-to-the-name
            r is Ok ==> io_buf(final(out)).len() == io_buf(old(out)).len() + inplace_len(io_buf(final(out)), io_buf(old(out)).len() as int), // @C03:compressed-name-decodes
            r is Ok ==> io_buf(final(out)).len() - io_buf(old(out)).len() <= wl(self.lv()) + 1, // @C03:never-longer
            r is Ok ==> io_buf(final(out)).len() > io_buf(old(out)).len(),
            r is Ok ==> forall|wa: int, mp: Seq<u8>| 0 <= wa && wa + 2 <= io_buf(old(out)).len() && #[trigger] agree_out(io_buf(final(out)), mp, wa)
                    && refs_ok(old(name_refs)@, mp.subrange(0, io_buf(old(out)).len() as int))
                ==> refs_ok(final(name_refs)@, mp) && dec_labels(mp, io_buf(old(out)).len() as int, 0) == Some(self.lv())
                    && mp.len() == io_buf(old(out)).len() + inplace_len(mp, io_buf(old(out)).len() as int), // @C03:insensitive-to-rdlength-patch
            r is Ok ==> ((exists|k: &'a [Label<'a>]| old(name_refs)@.contains_key(k) && k@ == self.lseq()) && self.lseq().len() > 0
                ==> io_buf(final(out)).len() == io_buf(old(out)).len() + 2), // @C07:repeated-name-is-a-pointer
""", pre_body="""
        broadcast use axiom_label_slice_key_model;
        let ghost m0 = io_buf(out);
        let ghost lv = self.lv();
        let ghost n = lv.len() as int;
        let ghost refs0 = name_refs@;
        proof {
            lemma_labels_view_len(self.labels@);
            assert(lv.subrange(0, 0) =~= Seq::<Seq<u8>>::empty());
            lemma_inv_init(name_refs@, lv, m0.len() as int);
            assert(io_buf(out).subrange(0, m0.len() as int) =~= m0);
            assert(io_buf(out) =~= m0 + run(lv.subrange(0, 0)));
        }
""")
    c.loop_spec(rel, NAME_IMPL, 'compress_append', 0, """
            invariant
                i == vx_it.index@, 0 <= i <= n, i <= self.labels.len(), n == self.labels@.len(), lv == self.lv(), lv == labels_view(self.labels@),
                name_ok(lv), m0.len() <= 0x7fff_ffff,
                m0 == io_buf(old(out)), refs0 == old(name_refs)@,
                at_end(out),
                io_buf(out) == m0 + run(lv.subrange(0, i as int)),
                io_buf(out).len() == m0.len() + wl(lv.subrange(0, i as int)),
                inv_refs(name_refs@, refs0, lv, m0.len() as int, i as int), // @C03:suffix-table-valid,C07:suffix-table-valid
                refs_ok(refs0, m0),
                i == 0 ==> name_refs@ == refs0,
                i > 0 ==> !(exists|k: &'a [Label<'a>]| refs0.contains_key(k) && k@ == self.lseq()),
""", iter_name='vx_it', body_pre="""
            broadcast use axiom_label_slice_key_model;
            let ghost m = io_buf(out);
            let ghost map_b = name_refs@;
            proof {
                assert(i < n);
                lemma_labels_view_len(self.labels@);
                lemma_split(lv, i as int);
                lemma_run_len(lv.subrange(0, i as int));
                lemma_run_len(lv.subrange(i as int, n));
                assert(label.lview() == lv[i as int]);
            }
            let ghost mut g_k0: &'a [Label<'a>] = arbitrary();
            let ghost mut g_pos: usize = 0;
""")
    # Occupied arm
    c.ghost(rel, NAME_IMPL, 'compress_append', "let p = *e.get() as u16;", """
                    let ghost k0 = e.spec_key();
                    proof {
                        assert(k0@ =~= self.labels@.subrange(i as int, n));
                        lemma_labels_view_len(k0@);
                        assert(labels_view(k0@) =~= lv.subrange(i as int, n));
                        assert(map_b.contains_key(k0) && e.value() == map_b[k0]);
                    }
""", where='before')
    c.ghost(rel, NAME_IMPL, 'compress_append', "return Ok(());", """
                    proof {
                        assert(name_refs@ == map_b);
                        assert(io_buf(out) =~= m0 + run(lv.subrange(0, i as int)) + enc16(p | 0xC000u16));
                        lemma_ptr_exit(map_b, refs0, k0, m0, lv, i as int, p, io_buf(out));
                        // window clause: the same exit argument on every buffer that differs only inside an RDLENGTH slot of m0
                        lemma_ptr_exit_window(map_b, refs0, k0, m0, lv, i as int, p, io_buf(out));
                        assert(io_buf(out).subrange(0, m0.len() as int) =~= m0);
                        lemma_split(lv, i as int); lemma_run_len(lv);
                        if i == 0 { assert(lv.subrange(0, 0) =~= Seq::<Seq<u8>>::empty()); }
                    }
""", where='before')
    # Vacant arm
    c.ghost(rel, NAME_IMPL, 'compress_append', "let position = out.stream_position()? as usize;", """
                    let ghost k0 = e.spec_key();
                    proof {
                        assert(k0@ =~= self.labels@.subrange(i as int, n));
                        lemma_labels_view_len(k0@);
                        assert(labels_view(k0@) =~= lv.subrange(i as int, n));
                        assert(!map_b.contains_key(k0));
                        assert(!0xC000u16 == 0x3FFFu16) by(bit_vector);
                        if i == 0 {
                            assert(self.labels@.subrange(0, n) =~= self.labels@);
                            assert(k0@ == self.lseq());
                            assert(!(exists|k: &'a [Label<'a>]| refs0.contains_key(k) && k@ == self.lseq())) by {
                                if exists|k: &'a [Label<'a>]| refs0.contains_key(k) && k@ == self.lseq() {
                                    let k = choose|k: &'a [Label<'a>]| refs0.contains_key(k) && k@ == self.lseq();
                                    assert(k@ == k0@);
                                    assert(k =~= k0);
                                }
                            }
                        }
                    }
""", where='before')
    c.ghost(rel, NAME_IMPL, 'compress_append', "out.write_all(&label.data)?;", """
                    proof {
                        g_k0 = k0; g_pos = position;
                        assert(1 <= lv[i as int].len() <= 63);
                        assert(io_buf(out) =~= m + seq![lv[i as int].len() as u8] + lv[i as int]);
                    }
""", where='after', occurrence=1 if False else 0)
    # after the match: the entry borrow has resolved, the map is visible again
    s = c.rd(rel)
    jb, be = c.body(rel, NAME_IMPL, 'compress_append')
    k = s.rfind('i += 1;', jb, be)
    if k < 0:
        raise AnchorLost('%s: counter increment lost' % rel)
    ls = s.rfind('\n', 0, k) + 1
    c.wr(rel, s[:ls] + """            proof {
                /* @cover: g_pos <= 0x3FFF */
                /* @cover: g_pos > 0x3FFF */
                assert(g_pos > 0x3FFF ==> name_refs@ == map_b);
                assert(g_pos <= 0x3FFF ==> name_refs@ == map_b.insert(g_k0, g_pos));
                lemma_vacant_step(map_b, name_refs@, refs0, g_k0, g_pos, g_pos <= 0x3FFF, m0.len() as int, lv, i as int);
                lemma_run_snoc(lv, i as int);
                assert(io_buf(out) =~= m0 + run(lv.subrange(0, i + 1)));
            }
""" + s[ls:])
    c.ghost(rel, NAME_IMPL, 'compress_append', "out.write_all(&[0])?;", """
        proof {
            assert(lv.subrange(0, n) =~= lv);
            assert(io_buf(out) =~= m0 + run(lv) + seq![0u8]);
            lemma_zero_exit(name_refs@, refs0, m0, lv, io_buf(out));
            assert forall|wa: int, mp: Seq<u8>| 0 <= wa && wa + 2 <= m0.len() && #[trigger] agree_out(io_buf(out), mp, wa) && refs_ok(refs0, mp.subrange(0, m0.len() as int))
                implies refs_ok(name_refs@, mp) && dec_labels(mp, m0.len() as int, 0) == Some(lv) && mp.len() == m0.len() + inplace_len(mp, m0.len() as int) by {
                let x = run(lv) + seq![0u8];
                assert(io_buf(out) =~= m0 + x);
                lemma_agree_suffix(m0, x, mp, wa);
                let m0x = mp.subrange(0, m0.len() as int);
                assert(mp =~= m0x + run(lv) + seq![0u8]);
                lemma_zero_exit(name_refs@, refs0, m0x, lv, mp);
            }
            assert(io_buf(out).subrange(0, m0.len() as int) =~= m0);
            lemma_run_len(lv);
            if n == 0 { }
        }
""", where='after')
