"""C12: Display for Label / CharacterString may only fail when the formatter's sink fails (never on the bytes they hold),
and never panics.  std::fmt::Formatter is modelled by one ghost predicate."""

SPECS = """verus!{
/// ghost: the sink behind the formatter has reported an error
pub uninterp spec fn fmt_sink_failed(f: &std::fmt::Formatter) -> bool;
pub assume_specification<'a> [std::fmt::Formatter::<'a>::write_str] (f: &mut std::fmt::Formatter<'a>, s: &str) -> (r: std::fmt::Result)
    ensures r is Err ==> fmt_sink_failed(final(f));
pub assume_specification<'a> [std::str::from_utf8] (v: &'a [u8]) -> (r: std::result::Result<&'a str, std::str::Utf8Error>);
pub assume_specification [std::str::Utf8Error::error_len] (e: &std::str::Utf8Error) -> (r: std::option::Option<usize>);
pub assume_specification [std::str::Utf8Error::valid_up_to] (e: &std::str::Utf8Error) -> (r: usize);
pub assume_specification<'a> [std::string::String::from_utf8_lossy] (v: &'a [u8]) -> (r: std::borrow::Cow<'a, str>);
}
"""

def apply(c):
    c.append('vx.rs', SPECS)
    rel = 'dns/name.rs'
    h = "impl<'a> Display for Label<'a> {"
    c.contract(rel, h, 'fmt', """
        ensures r is Err ==> fmt_sink_failed(final(f)), // @C12:display-fails-only-with-the-sink
""")
    c.wrap(rel, h)
    # Display for Name: labels separated by dots (R3: enumerate -> counter; R16: `f.write_fmt(format_args!("{}", x))` is
    # `Display::fmt(x, f)` for a type whose fmt ignores the formatting flags -- Label::fmt only calls write_str)
    import re
    from xf import AnchorLost
    h = "impl<'a> Display for Name<'a> {"
    # both rewrites are applied where their pattern occurs; a body of another shape is verified as it stands (its safety
    # obligations and the post-condition below still decide)
    try:
        c.enumerate_to_counter(rel, h, 'fmt')
        has_enum = True
    except AnchorLost:
        has_enum = False
    jb, be = c.body(rel, h, 'fmt')
    s0 = c.rd(rel)
    seg, n16 = re.subn(r'f\.write_fmt\(format_args!\("\{\}", ([\w\.\[\]&]+)\)\)', r"vx_label_fmt(&\1, f)", s0[jb:be])
    c.wr(rel, s0[:jb] + seg + s0[be:])
    if n16:
        c.log.append(('rewrite', rel, 'R16 x%d (f.write_fmt(format_args!("{}", label)) -> Display::fmt(label, f))' % n16))
    # Verus rejects a call through std::fmt::Display (unspecified pre-condition of the external trait method); the wrapper
    # restates exactly the contract that is *proved* on `impl Display for Label` above
    c.append(rel, """verus!{
/// marker: a Label or a reference to one (format_args! takes its arguments by reference, `&T: Display` forwards to `T`)
pub trait VxIsLabel {}
impl<'a> VxIsLabel for Label<'a> {}
impl<'a, 'b> VxIsLabel for &'b Label<'a> {}
#[verifier::external_body]
pub fn vx_label_fmt<L: VxIsLabel + std::fmt::Display>(label: &L, f: &mut std::fmt::Formatter<'_>) -> (r: std::fmt::Result)
    ensures r is Err ==> fmt_sink_failed(final(f)),
{ std::fmt::Display::fmt(label, f) }
}
""")
    c.contract(rel, h, 'fmt', """
        ensures r is Err ==> fmt_sink_failed(final(f)), // @C12:display-fails-only-with-the-sink
""")
    if has_enum:
        c.loop_spec(rel, h, 'fmt', 0, """
            invariant i == vx_it.index@, 0 <= i <= self.labels@.len(), i <= self.labels.len(),
""", iter_name='vx_it')
    c.wrap(rel, h)
    rel = 'dns/character_string.rs'
    h = "impl<'a> Display for CharacterString<'a> {"
    c.contract(rel, h, 'fmt', """
        ensures r is Err ==> fmt_sink_failed(final(f)), // @C12:display-fails-only-with-the-sink
""")
    c.wrap(rel, h)
