"""C12: Display for Label / CharacterString may only fail when the formatter's sink fails (never on the bytes they hold),
and never panics.  std::fmt::Formatter is modelled by one ghost predicate."""

SPECS = """verus!{
/// ghost: the sink behind the formatter has reported an error
pub uninterp spec fn fmt_sink_failed(f: &std::fmt::Formatter) -> bool;
pub assume_specification<'a> [std::fmt::Formatter::<'a>::write_str] (f: &mut std::fmt::Formatter<'a>, s: &str) -> (r: std::fmt::Result)
    ensures r is Err ==> fmt_sink_failed(final(f));
pub assume_specification<'a> [std::str::from_utf8] (v: &'a [u8]) -> (r: std::result::Result<&'a str, std::str::Utf8Error>);
pub assume_specification [std::str::Utf8Error::error_len] (e: &std::str::Utf8Error) -> (r: std::option::Option<usize>);
pub assume_specification [std::str::Utf8Error::valid_up_to] (e: &std::str::Utf8Error) -> (r: usize);
pub assume_specification<'a> [std::string::String::from_utf8_lossy] (v: &'a [u8]) -> (r: std::borrow::Cow<'a, str>);
}
"""

def apply(c):
    c.append('vx.rs', SPECS)
    rel = 'dns/name.rs'
    h = "impl<'a> Display for Label<'a> {"
    c.contract(rel, h, 'fmt', """
        ensures r is Err ==> fmt_sink_failed(final(f)), // @C12:display-fails-only-with-the-sink
""")
    c.wrap(rel, h)
    rel = 'dns/character_string.rs'
    h = "impl<'a> Display for CharacterString<'a> {"
    c.contract(rel, h, 'fmt', """
        ensures r is Err ==> fmt_sink_failed(final(f)), // @C12:display-fails-only-with-the-sink
""")
    c.wrap(rel, h)
