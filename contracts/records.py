"""Question and ResourceRecord: envelope contracts (C05, C01, C02)."""
from typed import list_fns
import hand_types

Q_WF = "impl<'a> WireFormat<'a> for Question<'a> {"
Q_IMPL = "impl<'a> Question<'a> {"
RR_WF = "impl<'a> WireFormat<'a> for ResourceRecord<'a> {"
RR_IMPL = "impl<'a> ResourceRecord<'a> {"

def apply(c):
    # ------------------------------------------------------------------ Question
    rel = 'dns/question.rs'
    c.wrap(rel, "pub struct Question<'a> {")
    for fn in list_fns(c, rel, Q_IMPL):
        if fn not in ('write_common',):
            c.mark(rel, Q_IMPL, fn, '#[verifier::external]')
    c.contract(rel, Q_IMPL, 'write_common', """
        ensures r is Ok ==> wrote(old(out), final(out), self.fixed_enc()), // @C02:question-fixed-part
""")
    c.wrap(rel, Q_IMPL)
    c.mark(rel, Q_WF, 'write_compressed_to', '#[verifier::external_body]')
    c.append(rel, """verus!{
impl<'a> Question<'a> {
    /// RFC 1035 4.1.2: QTYPE(2) QCLASS(2); RFC 6762 18.12: top bit of QCLASS = unicast-response
    pub open spec fn fixed_enc(&self) -> Seq<u8> {
        enc16(code_of_qtype(self.qtype)) + enc16(if self.unicast_response { code_of_qclass(self.qclass) | 0x8000 } else { code_of_qclass(self.qclass) })
    }
}
}
""")
    c.sub(rel, Q_WF, Q_WF + """
    open spec fn wf_ok(&self) -> bool { name_ok(self.qname.lv()) }
    open spec fn wf_enc(&self) -> Seq<u8> { name_enc(self.qname.lv()) + self.fixed_enc() }
    /// RFC 1035 4.1.2 question entry
    open spec fn wf_dec(data: Seq<u8>, p: int, v: &Self, p2: int) -> bool {
        let q = p + inplace_len(data, p);
        &&& dec_labels(data, p, 0) == Some(v.qname.lv())
        &&& q + 4 <= data.len()
        &&& p2 == q + 4
        &&& qtype_of_code(be16(data[q], data[q + 1])) == Ok::<QTYPE, crate::SimpleDnsError>(v.qtype)
        &&& qclass_of_code(be16(data[q + 2], data[q + 3]) & 0x7FFF) == Ok::<QCLASS, crate::SimpleDnsError>(v.qclass)
        &&& v.unicast_response == (be16(data[q + 2], data[q + 3]) & 0x8000 == 0x8000)
    }
    open spec fn wf_cdec(data: Seq<u8>, p: int, v: &Self, p2: int) -> bool { Self::wf_dec(data, p, v, p2) }
    open spec fn wf_canon(&self) -> bool { true }
    open spec fn wf_nocomp() -> bool { false }
    #[verifier::external_body]
    proof fn lemma_rt(&self, pre: Seq<u8>) {}
""")
    c.wrap(rel, Q_WF)

    # ------------------------------------------------------------------ ResourceRecord
    rel = 'dns/resource_record.rs'
    c.wrap(rel, "mod flag {")
    c.wrap(rel, "pub struct ResourceRecord<'a> {")
    for fn in list_fns(c, rel, RR_IMPL):
        if fn not in ('write_common', 'new'):
            c.mark(rel, RR_IMPL, fn, '#[verifier::external]')
    c.contract(rel, RR_IMPL, 'new', """
        ensures r.name == name, r.class == class, r.ttl == ttl, r.rdata == rdata, r.cache_flush == false,
""")
    c.contract(rel, RR_IMPL, 'write_common', """
        ensures r is Ok ==> wrote(old(out), final(out), self.fixed_enc()), // @C02:record-fixed-part
""")
    c.wrap(rel, RR_IMPL)
    c.mark(rel, RR_WF, 'write_compressed_to', '#[verifier::external_body]')
    c.append(rel, """verus!{
impl<'a> ResourceRecord<'a> {
    /// RFC 1035 4.1.3: TYPE(2) CLASS(2) TTL(4); for OPT (RFC 6891) the CLASS slot carries the UDP payload size;
    /// RFC 6762 10.2: top bit of CLASS = cache-flush
    pub open spec fn fixed_enc(&self) -> Seq<u8> {
        enc16(code_of_type(rdata_type(&self.rdata)))
        + (match self.rdata {
            RData::OPT(opt) => enc16(opt.udp_packet_size),
            _ => enc16(if self.cache_flush { code_of_class(self.class) | 0x8000 } else { code_of_class(self.class) }),
        })
        + enc_be(self.ttl as nat, 4)
    }
}
}
""")
    c.sub(rel, RR_WF, RR_WF + """
    open spec fn wf_ok(&self) -> bool { name_ok(self.name.lv()) && self.rdata.wf_ok() && self.rdata.wf_enc().len() <= 65535 }
    open spec fn wf_enc(&self) -> Seq<u8> {
        name_enc(self.name.lv()) + self.fixed_enc() + enc16(self.rdata.wf_enc().len() as u16) + self.rdata.wf_enc()
    }
    /// RFC 1035 4.1.3 resource record: owner name, TYPE CLASS TTL RDLENGTH, RDATA of exactly RDLENGTH bytes
    open spec fn wf_dec(data: Seq<u8>, p: int, v: &Self, p2: int) -> bool {
        let q = p + inplace_len(data, p);
        &&& dec_labels(data, p, 0) == Some(v.name.lv())
        &&& q + 10 <= data.len()
        &&& p2 == q + 10 + be16(data[q + 8], data[q + 9])
        &&& p2 <= data.len()
        &&& v.ttl as nat == be_nat(data.subrange(q + 4, q + 8))
        &&& rdata_type(&v.rdata) == type_of_code(be16(data[q], data[q + 1]))
        &&& RData::wf_dec(data, q, &v.rdata, p2)
        &&& (if type_of_code(be16(data[q], data[q + 1])) == TYPE::OPT { v.class == CLASS::IN && !v.cache_flush }
             else { class_of_code(be16(data[q + 2], data[q + 3]) & 0x7FFF) == Ok::<CLASS, crate::SimpleDnsError>(v.class)
                    && v.cache_flush == (be16(data[q + 2], data[q + 3]) & 0x8000 == 0x8000) })
    }
    open spec fn wf_cdec(data: Seq<u8>, p: int, v: &Self, p2: int) -> bool { Self::wf_dec(data, p, v, p2) }
    open spec fn wf_canon(&self) -> bool { true }
    open spec fn wf_nocomp() -> bool { false }
    #[verifier::external_body]
    proof fn lemma_rt(&self, pre: Seq<u8>) {}
""")
    c.contract(rel, RR_WF, 'parse', "", pre_body="""
        proof { assert(!0x8000u16 == 0x7FFFu16) by(bit_vector); }
""")
    c.wrap(rel, RR_WF)
