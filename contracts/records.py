"""Question and ResourceRecord: envelope contracts (C05, C01, C02)."""
from typed import list_fns
import hand_types

Q_WF = "impl<'a> WireFormat<'a> for Question<'a> {"
Q_IMPL = "impl<'a> Question<'a> {"
RR_WF = "impl<'a> WireFormat<'a> for ResourceRecord<'a> {"
RR_IMPL = "impl<'a> ResourceRecord<'a> {"

def apply(c):
    # ------------------------------------------------------------------ Question
    rel = 'dns/question.rs'
    c.wrap(rel, "pub struct Question<'a> {")
    for fn in list_fns(c, rel, Q_IMPL):
        if fn not in ('write_common',):
            c.mark(rel, Q_IMPL, fn, '#[verifier::external]')
    c.contract(rel, Q_IMPL, 'write_common', """
        ensures r is Ok ==> wrote(old(out), final(out), self.fixed_enc()), // @C02:question-fixed-part,C11:question-fixed-part
""")
    c.wrap(rel, Q_IMPL)
    c.append(rel, """verus!{
impl<'a> Question<'a> {
    /// RFC 1035 4.1.2: QTYPE(2) QCLASS(2); RFC 6762 18.12: top bit of QCLASS = unicast-response
    pub open spec fn fixed_enc(&self) -> Seq<u8> {
        enc16(code_of_qtype(self.qtype)) + enc16(if self.unicast_response { code_of_qclass(self.qclass) | 0x8000 } else { code_of_qclass(self.qclass) })
    }
}
}
""")
    c.sub(rel, Q_WF, Q_WF + """
    open spec fn wf_ok(&self) -> bool { name_ok(self.qname.lv()) }
    open spec fn wf_enc(&self) -> Seq<u8> { name_enc(self.qname.lv()) + self.fixed_enc() }
    /// RFC 1035 4.1.2 question entry
    open spec fn wf_dec(data: Seq<u8>, p: int, v: &Self, p2: int) -> bool {
        let q = p + inplace_len(data, p);
        &&& dec_labels(data, p, 0) == Some(v.qname.lv())
        &&& q + 4 <= data.len()
        &&& p2 == q + 4
        &&& qtype_of_code(be16(data[q], data[q + 1])) == Ok::<QTYPE, crate::SimpleDnsError>(v.qtype)
        &&& qclass_of_code(be16(data[q + 2], data[q + 3]) & 0x7FFF) == Ok::<QCLASS, crate::SimpleDnsError>(v.qclass)
        &&& v.unicast_response == (be16(data[q + 2], data[q + 3]) & 0x8000 == 0x8000)
    }
    open spec fn wf_cdec(data: Seq<u8>, p: int, v: &Self, p2: int) -> bool { Self::wf_dec(data, p, v, p2) }
    /// the type / class read back as themselves (e.g. not QTYPE::TYPE(TYPE::Unknown(255)), which is written like ANY)
    open spec fn wf_canon(&self) -> bool {
        qtype_of_code(code_of_qtype(self.qtype)) == Ok::<QTYPE, crate::SimpleDnsError>(self.qtype)
        && qclass_of_code(code_of_qclass(self.qclass)) == Ok::<QCLASS, crate::SimpleDnsError>(self.qclass)
    }
    open spec fn wf_in_rdata() -> bool { false }
    open spec fn wf_nocomp() -> bool { false }
    open spec fn wf_eqv(&self, other: &Self) -> bool {
        self.qname.lv() == other.qname.lv() && self.qtype == other.qtype && self.qclass == other.qclass && self.unicast_response == other.unicast_response
    }
    proof fn lemma_det(data: Seq<u8>, p: int, v1: &Self, e1: int, v2: &Self, e2: int) {}
    open spec fn wf_fit(&self) -> bool { true }
    open spec fn wf_empty_ok() -> bool { false }
    proof fn lemma_dec_ok(data: Seq<u8>, p: int, v: &Self, p2: int) {
        lemma_name_dec_ok(data, p, v.qname.lv());
        let q = p + inplace_len(data, p);
        lemma_qcodes_rt(be16(data[q], data[q + 1]), be16(data[q + 2], data[q + 3]) & 0x7FFF);
    }
    proof fn lemma_rt(&self, pre: Seq<u8>) {
        let d = pre + self.wf_enc();
        lemma_name_roundtrip(pre, self.qname.lv(), self.fixed_enc());
        assert(d =~= pre + name_enc(self.qname.lv()) + self.fixed_enc());
        lemma_run_len(self.qname.lv());
        lemma_q_fixed(self.qtype, self.qclass, self.unicast_response);
        let q = pre.len() as int + wl(self.qname.lv()) + 1;
        assert(d[q] == self.fixed_enc()[0] && d[q + 1] == self.fixed_enc()[1] && d[q + 2] == self.fixed_enc()[2] && d[q + 3] == self.fixed_enc()[3]);
    }
""")
    c.append(rel, """verus!{
/// a question type / class obtained from a code maps back to that code
pub proof fn lemma_qcodes_rt(t: u16, c: u16)
    ensures
        qtype_of_code(t) is Ok ==> qtype_of_code(code_of_qtype(qtype_of_code(t).unwrap())) == qtype_of_code(t),
        qclass_of_code(c) is Ok ==> qclass_of_code(code_of_qclass(qclass_of_code(c).unwrap())) == qclass_of_code(c),
{
    crate::dns::rdata::lemma_type_code_rt(t);
}
/// the four fixed octets of a question read back as the type, class and unicast bit they were written from
pub proof fn lemma_q_fixed(qtype: QTYPE, qclass: QCLASS, uni: bool)
    ensures ({
        let t = code_of_qtype(qtype);
        let cw = if uni { code_of_qclass(qclass) | 0x8000 } else { code_of_qclass(qclass) };
        let f = enc16(t) + enc16(cw);
        &&& f.len() == 4
        &&& be16(f[0], f[1]) == t
        &&& be16(f[2], f[3]) & 0x7FFF == code_of_qclass(qclass)
        &&& (be16(f[2], f[3]) & 0x8000 == 0x8000) == uni
    })
{
    let t = code_of_qtype(qtype);
    let c = code_of_qclass(qclass);
    assert(c <= 255);
    let cw = if uni { c | 0x8000 } else { c };
    lemma_be16_enc16(t); lemma_be16_enc16(cw);
    assert((c | 0x8000u16) & 0x7FFFu16 == c && (c | 0x8000u16) & 0x8000u16 == 0x8000u16 && c & 0x7FFFu16 == c && c & 0x8000u16 == 0) by(bit_vector) requires c <= 255;
}
}
""")
    c.bind_tail(rel, Q_WF, 'write_compressed_to', """
        proof {
            if vx_r is Ok {
                let m1 = io_buf(out);
                assert(m1 =~= vx_s1 + self.fixed_enc());
                lemma_append_stable(vx_s1, self.fixed_enc(), vx_m0.len() as int, 0);
                lemma_inplace_append_stable(vx_s1, self.fixed_enc(), vx_m0.len() as int, 0);
                lemma_refs_append(name_refs@, vx_s1, self.fixed_enc());
                lemma_q_fixed(self.qtype, self.qclass, self.unicast_response);
                lemma_run_len(self.qname.lv());
                let q = vx_s1.len() as int;
                assert(m1[q] == self.fixed_enc()[0] && m1[q + 1] == self.fixed_enc()[1] && m1[q + 2] == self.fixed_enc()[2] && m1[q + 3] == self.fixed_enc()[3]);
                assert(m1.subrange(0, vx_m0.len() as int) =~= vx_m0);
            }
        }
""")
    c.ghost(rel, Q_WF, 'write_compressed_to', "self.qname.write_compressed_to(out, name_refs)?;", "        let ghost vx_m0 = io_buf(out);", where='before')
    c.ghost(rel, Q_WF, 'write_compressed_to', "self.qname.write_compressed_to(out, name_refs)?;", "        let ghost vx_s1 = io_buf(out);", where='after')
    c.wrap(rel, Q_WF)

    # ------------------------------------------------------------------ ResourceRecord
    rel = 'dns/resource_record.rs'
    c.wrap(rel, "mod flag {")
    c.wrap(rel, "pub struct ResourceRecord<'a> {")
    for fn in list_fns(c, rel, RR_IMPL):
        if fn not in ('write_common', 'new'):
            c.mark(rel, RR_IMPL, fn, '#[verifier::external]')
    c.contract(rel, RR_IMPL, 'new', """
        ensures r.name == name, r.class == class, r.ttl == ttl, r.rdata == rdata, r.cache_flush == false,
""")
    c.contract(rel, RR_IMPL, 'write_common', """
        ensures r is Ok ==> wrote(old(out), final(out), self.fixed_enc()), // @C02:record-fixed-part,C11:record-fixed-part
""")
    c.wrap(rel, RR_IMPL)
    c.append(rel, """verus!{
impl<'a> ResourceRecord<'a> {
    /// RFC 1035 4.1.3: TYPE(2) CLASS(2) TTL(4); for OPT (RFC 6891) the CLASS slot carries the UDP payload size;
    /// RFC 6762 10.2: top bit of CLASS = cache-flush
    pub open spec fn fixed_enc(&self) -> Seq<u8> {
        enc16(code_of_type(rdata_type(&self.rdata)))
        + (match self.rdata {
            RData::OPT(opt) => enc16(opt.udp_packet_size),
            _ => enc16(if self.cache_flush { code_of_class(self.class) | 0x8000 } else { code_of_class(self.class) }),
        })
        + enc_be(self.ttl as nat, 4)
    }
}
}
""")
    c.sub(rel, RR_WF, RR_WF + """
    /// (an RDATA that does not fit RDLENGTH is refused by the writers, so it is not a precondition)
    /// the last conjunct only keeps length arithmetic within usize
    open spec fn wf_ok(&self) -> bool { name_ok(self.name.lv()) && self.rdata.wf_ok() && self.rdata.wf_enc().len() <= 0x7fff_ffff }
    open spec fn wf_enc(&self) -> Seq<u8> {
        name_enc(self.name.lv()) + self.fixed_enc() + enc16(self.rdata.wf_enc().len() as u16) + self.rdata.wf_enc()
    }
    /// RFC 1035 4.1.3 resource record: owner name, TYPE CLASS TTL RDLENGTH, RDATA of exactly RDLENGTH bytes
    open spec fn wf_dec(data: Seq<u8>, p: int, v: &Self, p2: int) -> bool {
        let q = p + inplace_len(data, p);
        &&& dec_labels(data, p, 0) == Some(v.name.lv())
        &&& q + 10 <= data.len()
        &&& p2 == q + 10 + be16(data[q + 8], data[q + 9])
        &&& p2 <= data.len()
        &&& v.ttl as nat == be_nat(data.subrange(q + 4, q + 8))
        &&& rdata_type(&v.rdata) == type_of_code(be16(data[q], data[q + 1]))
        &&& RData::wf_dec(data, q, &v.rdata, p2)
        &&& (if type_of_code(be16(data[q], data[q + 1])) == TYPE::OPT { v.class == CLASS::IN && !v.cache_flush }
             else { class_of_code(be16(data[q + 2], data[q + 3]) & 0x7FFF) == Ok::<CLASS, crate::SimpleDnsError>(v.class)
                    && v.cache_flush == (be16(data[q + 2], data[q + 3]) & 0x8000 == 0x8000) })
    }
    open spec fn wf_cdec(data: Seq<u8>, p: int, v: &Self, p2: int) -> bool { Self::wf_dec(data, p, v, p2) }
    /// the record reads back as itself: canonical RDATA, type code that maps back to the type, an OPT record's class /
    /// flush bit / TTL version octet agree with what the parser derives, non-empty content for non-empty variants
    open spec fn wf_canon(&self) -> bool {
        &&& self.rdata.wf_canon()
        &&& self.rdata.wf_enc().len() <= 65535
        &&& type_of_code(code_of_type(rdata_type(&self.rdata))) == rdata_type(&self.rdata)
        &&& (self.rdata is OPT <==> rdata_type(&self.rdata) == TYPE::OPT)
        &&& (match self.rdata {
                RData::OPT(opt) => self.class == CLASS::IN && !self.cache_flush && ((self.ttl >> 16u32) & 0xFFu32) == opt.version as u32,
                RData::Empty(_) => true,
                _ => self.rdata.wf_enc().len() > 0,
            })
    }
    open spec fn wf_in_rdata() -> bool { false }
    open spec fn wf_nocomp() -> bool { false }
    open spec fn wf_eqv(&self, other: &Self) -> bool {
        self.name.lv() == other.name.lv() && self.class == other.class && self.ttl == other.ttl && self.cache_flush == other.cache_flush
        && self.rdata.wf_eqv(&other.rdata)
    }
    proof fn lemma_det(data: Seq<u8>, p: int, v1: &Self, e1: int, v2: &Self, e2: int) {
        let q = p + inplace_len(data, p);
        RData::lemma_det(data, q, &v1.rdata, e1, &v2.rdata, e2);
    }
    /// RDLENGTH is 16 bits: names expanded from compression pointers may make a received RDATA larger than it can say
    open spec fn wf_fit(&self) -> bool { self.rdata.wf_enc().len() <= 65535 }
    open spec fn wf_empty_ok() -> bool { false }
    proof fn lemma_dec_ok(data: Seq<u8>, p: int, v: &Self, p2: int) {
        lemma_name_dec_ok(data, p, v.name.lv());
        let q = p + inplace_len(data, p);
        lemma_inplace_nonneg(data, p);
        crate::dns::rdata::lemma_rdata_wf_dec_ok(data, q, &v.rdata, p2);
        lemma_rr_dec_canon(data, q, v, p2);
    }
    proof fn lemma_rt(&self, pre: Seq<u8>) {
        let lv = self.name.lv();
        let rd = self.rdata.wf_enc();
        let d = pre + self.wf_enc();
        let q = pre.len() as int + wl(lv) + 1;
        let p2 = d.len() as int;
        assert(self.fixed_enc().len() == 8) by { lemma_enc_be_len(self.ttl as nat, 4); }
        lemma_rr_layout(pre, lv, self.fixed_enc(), rd);
        assert(d =~= pre + name_enc(lv) + self.fixed_enc() + enc16(rd.len() as u16) + rd);
        lemma_rr_fixed(self, d, q);
        let d0 = d.subrange(0, q + 10);
        self.rdata.lemma_rt(d0);
        assert(d0 + rd == d);
        assert(d0.len() == q + 10);
        assert(RData::wf_cdec(d, q + 10, &self.rdata, p2));
        if !(self.rdata is Empty) && !(self.rdata is OPT) { lemma_cdec_is_dec(&self.rdata, d, q + 10, p2); }
        let p = pre.len() as int;
        assert(p + inplace_len(d, p) == q);
        assert(dec_labels(d, p, 0) == Some(self.name.lv()));
        assert(p2 == q + 10 + be16(d[q + 8], d[q + 9]));
        assert(self.ttl as nat == be_nat(d.subrange(q + 4, q + 8)));
        assert(rdata_type(&self.rdata) == type_of_code(be16(d[q], d[q + 1])));
        assert(d.subrange(0, p2) =~= d);
        assert(RData::wf_dec(d, q, &self.rdata, p2));
    }
""")
    c.append(rel, """verus!{
/// record-level canonicity of a decoded record (type code maps back, OPT class / flush / version as the parser derives them)
pub proof fn lemma_rr_dec_canon(data: Seq<u8>, q: int, v: &ResourceRecord, p2: int)
    requires
        0 <= q, q + 10 <= data.len(), p2 <= data.len(),
        v.ttl as nat == be_nat(data.subrange(q + 4, q + 8)),
        rdata_type(&v.rdata) == type_of_code(be16(data[q], data[q + 1])),
        RData::wf_dec(data, q, &v.rdata, p2), v.rdata.wf_canon(), v.rdata.wf_enc().len() <= 65535,
        v.rdata is OPT || v.rdata is Empty || v.rdata.wf_enc().len() > 0,
        (if type_of_code(be16(data[q], data[q + 1])) == TYPE::OPT { v.class == CLASS::IN && !v.cache_flush } else { true }),
    ensures v.wf_canon()
{
    let x = be16(data[q], data[q + 1]);
    crate::dns::rdata::lemma_type_code_rt(x);
    match v.rdata {
        RData::OPT(opt) => {
            assert(type_of_code(x) == TYPE::OPT);
            lemma_u32_octets(v.ttl, data.subrange(q + 4, q + 8));
            assert(data.subrange(q + 4, q + 8)[1] == data[q + 5]);
            let d2 = data.subrange(0, p2);
            assert(d2[q + 5] == data[q + 5]);
        }
        _ => {}
    }
}
/// layout of an uncompressed record after any prefix: owner name decodes in place, then 8 fixed octets, RDLENGTH, RDATA
pub proof fn lemma_rr_layout(pre: Seq<u8>, lv: Seq<Seq<u8>>, f: Seq<u8>, rd: Seq<u8>)
    requires name_ok(lv), f.len() == 8, rd.len() <= 65535,
    ensures ({
        let d = pre + name_enc(lv) + f + enc16(rd.len() as u16) + rd;
        let q = pre.len() as int + wl(lv) + 1;
        &&& dec_labels(d, pre.len() as int, 0) == Some(lv)
        &&& inplace_len(d, pre.len() as int) == wl(lv) + 1
        &&& wl(lv) >= 0
        &&& d.len() == q + 10 + rd.len()
        &&& d.subrange(q, q + 8) == f
        &&& be16(d[q + 8], d[q + 9]) == rd.len()
        &&& d == d.subrange(0, q + 10) + rd
    }),
{
    let d = pre + name_enc(lv) + f + enc16(rd.len() as u16) + rd;
    let q = pre.len() as int + wl(lv) + 1;
    lemma_run_len(lv);
    lemma_name_roundtrip(pre, lv, f + enc16(rd.len() as u16) + rd);
    assert(d =~= pre + name_enc(lv) + (f + enc16(rd.len() as u16) + rd));
    lemma_be16_enc16(rd.len() as u16);
    assert(enc16(rd.len() as u16).len() == 2);
    assert(d.subrange(q, q + 8) =~= f);
    assert(d[q + 8] == enc16(rd.len() as u16)[0] && d[q + 9] == enc16(rd.len() as u16)[1]);
    assert(d =~= d.subrange(0, q + 10) + rd);
}
/// the eight fixed octets TYPE CLASS TTL of a record, found at data[q..q+8], read back as the fields they were written from
pub proof fn lemma_rr_fixed(rr: &ResourceRecord, data: Seq<u8>, q: int)
    requires 0 <= q, q + 8 <= data.len(), data.subrange(q, q + 8) == rr.fixed_enc(), rr.wf_canon(),
    ensures
        type_of_code(be16(data[q], data[q + 1])) == rdata_type(&rr.rdata),
        rr.ttl as nat == be_nat(data.subrange(q + 4, q + 8)),
        data[q + 5] as u32 == (rr.ttl >> 16u32) & 0xFFu32,
        (match rr.rdata {
            RData::OPT(opt) => be16(data[q + 2], data[q + 3]) == opt.udp_packet_size,
            _ => class_of_code(be16(data[q + 2], data[q + 3]) & 0x7FFF) == Ok::<CLASS, crate::SimpleDnsError>(rr.class)
                 && rr.cache_flush == (be16(data[q + 2], data[q + 3]) & 0x8000 == 0x8000),
        }),
{
    let f = rr.fixed_enc();
    let sub = data.subrange(q, q + 8);
    let t = code_of_type(rdata_type(&rr.rdata));
    lemma_be16_enc16(t);
    lemma_pow256_vals();
    lemma_enc_be_len(rr.ttl as nat, 4);
    let mid = match rr.rdata {
        RData::OPT(opt) => enc16(opt.udp_packet_size),
        _ => enc16(if rr.cache_flush { code_of_class(rr.class) | 0x8000 } else { code_of_class(rr.class) }),
    };
    assert(mid.len() == 2 && enc16(t).len() == 2);
    assert(f =~= enc16(t) + mid + enc_be(rr.ttl as nat, 4));
    assert(f.len() == 8);
    assert(f.subrange(4, 8) =~= enc_be(rr.ttl as nat, 4));
    assert(f[2] == mid[0] && f[3] == mid[1]);
    assert forall|i: int| 0 <= i < 8 implies data[q + i] == f[i] by { assert(sub[i] == f[i]); }
    assert(f[0] == enc16(t)[0] && f[1] == enc16(t)[1]);
    assert(data.subrange(q + 4, q + 8) =~= f.subrange(4, 8));
    lemma_be_enc(rr.ttl as nat, 4);
    lemma_u32_octets(rr.ttl, data.subrange(q + 4, q + 8));
    assert(data.subrange(q + 4, q + 8)[1] == data[q + 5]);
    match rr.rdata {
        RData::OPT(opt) => {
            lemma_be16_enc16(opt.udp_packet_size);
            assert(mid == enc16(opt.udp_packet_size));
        }
        _ => {
            let c = code_of_class(rr.class);
            assert(c <= 254);
            let cw = if rr.cache_flush { c | 0x8000 } else { c };
            lemma_be16_enc16(cw);
            assert(mid == enc16(cw));
            assert((c | 0x8000u16) & 0x7FFFu16 == c && (c | 0x8000u16) & 0x8000u16 == 0x8000u16 && c & 0x7FFFu16 == c && c & 0x8000u16 == 0) by(bit_vector) requires c <= 254;
        }
    }
}

}
""")
    # RDLENGTH is 16 bits: larger RDATA is refused, never truncated (strengthens the trait contract for this impl)
    c.contract(rel, RR_WF, 'write_to', """
        ensures self.rdata.wf_enc().len() > 65535 ==> r is Err, // @C04:oversized-rdata-refused
""")
    c.contract(rel, RR_WF, 'write_compressed_to', "", pre_body="""
        let ghost vx_m0 = io_buf(out);
""")
    c.ghost(rel, RR_WF, 'write_compressed_to', "self.name.write_compressed_to(out, name_refs)?;", "        let ghost vx_s1 = io_buf(out);\n        let ghost vx_t1 = name_refs@;", where='after')
    c.ghost(rel, RR_WF, 'write_compressed_to', "self.write_common(out)?;", """
        let ghost vx_s2 = io_buf(out);
        proof { assert(vx_s2 =~= vx_s1 + self.fixed_enc()); lemma_enc_be_len(self.ttl as nat, 4); }
""", where='after')
    c.ghost(rel, RR_WF, 'write_compressed_to', "out.write_all(&[0, 0])?;", """
        let ghost vx_s3 = io_buf(out);
        proof {
            assert(vx_s3 =~= vx_s2 + seq![0u8, 0u8]);
            assert(vx_s3 =~= vx_s1 + (self.fixed_enc() + seq![0u8, 0u8]));
            lemma_refs_append(name_refs@, vx_s1, self.fixed_enc() + seq![0u8, 0u8]);
        }
""", where='after')
    c.ghost(rel, RR_WF, 'write_compressed_to', "self.rdata.write_compressed_to(out, name_refs)?;", """
        let ghost vx_s4 = io_buf(out);
""", where='after')
    c.ghost(rel, RR_WF, 'write_compressed_to', "out.seek(std::io::SeekFrom::End(0))?;", """
        proof {
            let lval = (vx_s4.len() - vx_s2.len() - 2) as u16;
            assert(io_buf(out) == overwrite(vx_s4, vx_s2.len() as int, enc16(lval)));
            lemma_rr_compressed(self, name_refs@, vx_t1, vx_m0, vx_s1, vx_s2, vx_s3, vx_s4, io_buf(out));
        }
""", where='after')
    c.append(rel, """verus!{
/// the record-level composition for the compressing writer: owner name (s1), fixed part (s2), zeroed RDLENGTH (s3),
/// RDATA (s4), RDLENGTH patched by seeking back (s5)
#[verifier::rlimit(30)]
pub proof fn lemma_rr_compressed<'a>(rr: &ResourceRecord<'a>, map: Map<&'a [Label<'a>], usize>, t1: Map<&'a [Label<'a>], usize>, m0: Seq<u8>, s1: Seq<u8>, s2: Seq<u8>,
                                     s3: Seq<u8>, s4: Seq<u8>, s5: Seq<u8>)
    requires
        rr.wf_ok(), rr.wf_canon(),
        refs_ok(t1, s1),   // table after the owner name
        // window clause of the RDATA writer (table t1 at its entry, buffer s3 at its entry)
        forall|wa: int, mp: Seq<u8>| 0 <= wa && wa + 2 <= s3.len() && #[trigger] agree_out(s4, mp, wa) && refs_ok(t1, mp.subrange(0, s3.len() as int))
            ==> refs_ok(map, mp) && RData::wf_cdec(mp, s3.len() as int, &rr.rdata, mp.len() as int),
        s1.len() >= m0.len(), s1.subrange(0, m0.len() as int) =~= m0,
        dec_labels(s1, m0.len() as int, 0) == Some(rr.name.lv()), s1.len() == m0.len() + inplace_len(s1, m0.len() as int),
        s1.len() - m0.len() <= wl(rr.name.lv()) + 1,
        s2 == s1 + rr.fixed_enc(), s3 == s2 + seq![0u8, 0u8],
        s4.len() >= s3.len(), s4.subrange(0, s3.len() as int) =~= s3, refs_ok(map, s4),
        RData::wf_cdec(s4, s3.len() as int, &rr.rdata, s4.len() as int),
        s4.len() - s3.len() <= rr.rdata.wf_enc().len(), rr.rdata.wf_enc().len() > 0 ==> s4.len() > s3.len(),
        s5 == overwrite(s4, s2.len() as int, enc16((s4.len() - s2.len() - 2) as u16)),
    ensures
        s5.len() == s4.len(), s5.subrange(0, m0.len() as int) =~= m0, refs_ok(map, s5),
        ResourceRecord::wf_dec(s5, m0.len() as int, rr, s5.len() as int),   // transparency at record level
        s5.len() - m0.len() <= rr.wf_enc().len(),
        be16(s5[s2.len() as int], s5[s2.len() as int + 1]) == s5.len() - s2.len() - 2,   // RDLENGTH == number of RDATA bytes that follow
{
    let a = s2.len() as int;
    let q = s1.len() as int;
    let lval = (s4.len() - a - 2) as u16;
    lemma_enc_be_len(rr.ttl as nat, 4);
    lemma_run_len(rr.name.lv());
    assert(rr.fixed_enc().len() == 8);
    assert(a == q + 8);
    assert(s4.len() - a - 2 <= 65535);
    lemma_be16_enc16(lval);
    assert(s4[a] == s3[a] && s4[a + 1] == s3[a + 1]) by { assert(s4.subrange(0, s3.len() as int)[a] == s3[a]); assert(s4.subrange(0, s3.len() as int)[a + 1] == s3[a + 1]); }
    assert(s5.len() == s4.len());
    assert forall|i: int| 0 <= i < s4.len() && !(a <= i < a + 2) implies s5[i] == s4[i] by {}
    lemma_agree_intro(s4, s5, a);
    assert(s5[a] == enc16(lval)[0] && s5[a + 1] == enc16(lval)[1]);
    let x4 = s4.subrange(q, s4.len() as int);
    assert(s4 =~= s1 + x4) by {
        assert forall|i: int| 0 <= i < q implies s4[i] == s1[i] by { assert(s4.subrange(0, s3.len() as int)[i] == s3[i]); }
    }
    lemma_append_stable(s1, x4, m0.len() as int, 0);
    lemma_inplace_append_stable(s1, x4, m0.len() as int, 0);
    // the seek-back patch: s5 agrees with s4 outside the RDLENGTH slot [a, a+2); instantiate the RDATA writer's window clause
    lemma_agree_intro(s4, s5, a);
    let s3p = s5.subrange(0, s3.len() as int);
    assert(s3p =~= s1 + (rr.fixed_enc() + enc16(lval))) by {
        assert forall|i: int| 0 <= i < a implies s5[i] == (s1 + rr.fixed_enc())[i] by { assert(s4.subrange(0, s3.len() as int)[i] == s3[i]); }
    }
    lemma_refs_append(t1, s1, rr.fixed_enc() + enc16(lval));
    assert(refs_ok(map, s5) && RData::wf_cdec(s5, s3.len() as int, &rr.rdata, s5.len() as int));
    // the owner name is decoded from bytes before the slot
    let x5 = s5.subrange(q, s5.len() as int);
    assert(s5 =~= s1 + x5) by {
        assert forall|i: int| 0 <= i < q implies s5[i] == s1[i] by { assert(s4.subrange(0, s3.len() as int)[i] == s3[i]); }
    }
    lemma_append_stable(s1, x5, m0.len() as int, 0);
    lemma_inplace_append_stable(s1, x5, m0.len() as int, 0);
    assert(s5.subrange(q, q + 8) =~= rr.fixed_enc()) by {
        assert forall|i: int| 0 <= i < 8 implies s5[q + i] == rr.fixed_enc()[i] by {
            assert(s4.subrange(0, s3.len() as int)[q + i] == s3[q + i]);
        }
    }
    lemma_rr_fixed(rr, s5, q);
    assert(s5.subrange(0, s5.len() as int) =~= s5);
    assert(s5.subrange(0, m0.len() as int) =~= m0) by {
        assert forall|i: int| 0 <= i < m0.len() implies s5[i] == m0[i] by {
            assert(s4.subrange(0, s3.len() as int)[i] == s3[i]);
            assert(s1.subrange(0, m0.len() as int)[i] == m0[i]);
        }
    }
    let p2 = s5.len() as int;
    assert(p2 == q + 10 + be16(s5[q + 8], s5[q + 9]));
    // RData::wf_dec at the record header
    let ty = type_of_code(be16(s5[q], s5[q + 1]));
    assert(ty == rdata_type(&rr.rdata));
    match rr.rdata {
        RData::OPT(opt) => {
            assert(OPT::wf_dec(s5, q, &opt, p2));
        }
        RData::Empty(t) => { }
        _ => {
            assert(s4.len() > s3.len());
            lemma_cdec_is_dec(&rr.rdata, s5, q + 10, p2);
            assert(rdata_dec(s5, q + 10, ty, &rr.rdata, p2));
        }
    }
    assert(RData::wf_dec(s5, q, &rr.rdata, p2));
    lemma_enc16_len_le(rr);
}
pub proof fn lemma_enc16_len_le(rr: &ResourceRecord)
    ensures rr.wf_enc().len() == wl(rr.name.lv()) + 1 + 8 + 2 + rr.rdata.wf_enc().len()
{
    lemma_enc_be_len(rr.ttl as nat, 4);
    lemma_run_len(rr.name.lv());
}
}
""")
    c.contract(rel, RR_WF, 'parse', "", pre_body="""
        proof { assert(!0x8000u16 == 0x7FFFu16) by(bit_vector); }
""")
    c.wrap(rel, RR_WF)
