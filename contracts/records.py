"""Question and ResourceRecord (C01, C05, C02)."""
from typed import list_fns
import hand_types

Q_WF = "impl<'a> WireFormat<'a> for Question<'a> {"
Q_IMPL = "impl<'a> Question<'a> {"
RR_WF = "impl<'a> WireFormat<'a> for ResourceRecord<'a> {"
RR_IMPL = "impl<'a> ResourceRecord<'a> {"

def apply(c):
    rel = 'dns/question.rs'
    c.wrap(rel, "pub struct Question<'a> {")
    for fn in list_fns(c, rel, Q_IMPL):
        c.mark(rel, Q_IMPL, fn, '#[verifier::external]')
    c.wrap(rel, Q_IMPL)
    for fn in ('write_to', 'write_compressed_to', 'len'):
        c.mark(rel, Q_WF, fn, '#[verifier::external_body]')
    c.sub(rel, Q_WF, Q_WF + hand_types.WEAK)
    c.wrap(rel, Q_WF)

    rel = 'dns/resource_record.rs'
    c.wrap(rel, "mod flag {")
    c.wrap(rel, "pub struct ResourceRecord<'a> {")
    for fn in list_fns(c, rel, RR_IMPL):
        c.mark(rel, RR_IMPL, fn, '#[verifier::external]')
    c.wrap(rel, RR_IMPL)
    for fn in ('write_to', 'write_compressed_to', 'len'):
        c.mark(rel, RR_WF, fn, '#[verifier::external_body]')
    c.sub(rel, RR_WF, RR_WF + hand_types.WEAK)
    c.wrap(rel, RR_WF)
