"""Header (RFC 1035 4.1.1) and the EDNS glue (RFC 6891): C08 (Verus side), C09, C01."""
from typed import list_fns

H_IMPL = "impl<'a> Header<'a> {"

HDR_SPECS = """verus!{
#[verifier::external_type_specification] #[verifier::external_body]
pub struct ExPacketFlag(crate::dns::PacketFlag);
/// ghost: the bits of a flag set
pub uninterp spec fn pf_bits(f: crate::dns::PacketFlag) -> u16;
// bitflags-generated methods: assumed here, proved on the real code by the Kani harnesses header_parse_layout /
// header_flags_algebra (same statements)
pub assume_specification [crate::dns::PacketFlag::from_bits_truncate] (bits: u16) -> (r: crate::dns::PacketFlag)
    ensures pf_bits(r) == bits & 0x87B0u16;
pub assume_specification [crate::dns::PacketFlag::bits] (f: &crate::dns::PacketFlag) -> (r: u16)
    ensures r == pf_bits(*f), r & 0x87B0u16 == r;
/// a flag set only holds the seven defined bits (bitflags invariant; Kani: header_flags_algebra `a.bits() & !FLAG_BITS == 0`)
#[verifier::external_body]
pub proof fn lemma_pf_bits(f: crate::dns::PacketFlag) ensures pf_bits(f) & 0x87B0u16 == pf_bits(f) {}

/// RFC 1035 4.1.1 flags word: QR(0x8000) OPCODE(0x7800) AA TC RD RA Z(0x0040) AD CD RCODE(0x000F)
pub open spec fn hdr_flags(data: Seq<u8>) -> u16 { be16(data[2], data[3]) }
pub open spec fn hdr_dec(data: Seq<u8>, h: &Header) -> bool {
    &&& data.len() >= 12
    &&& hdr_flags(data) & 0x0040 == 0
    &&& h.id == be16(data[0], data[1])
    &&& h.opcode == opcode_of_code((hdr_flags(data) >> 11) & 0xF)
    &&& h.response_code == rcode_of_code(hdr_flags(data) & 0xF)
    &&& pf_bits(h.z_flags) == hdr_flags(data) & 0x87B0
    &&& h.opt is None
}
pub open spec fn opcode_code(o: OPCODE) -> u16 {
    match o { OPCODE::StandardQuery => 0, OPCODE::InverseQuery => 1, OPCODE::ServerStatusRequest => 2, OPCODE::Notify => 4,
              OPCODE::Update => 5, OPCODE::Reserved => 6 }
}
pub open spec fn rcode_code(r: RCODE) -> u16 {
    match r { RCODE::NoError => 0, RCODE::FormatError => 1, RCODE::ServerFailure => 2, RCODE::NameError => 3, RCODE::NotImplemented => 4,
              RCODE::Refused => 5, RCODE::YXDOMAIN => 6, RCODE::YXRRSET => 7, RCODE::NXRRSET => 8, RCODE::NOTAUTH => 9, RCODE::NOTZONE => 10,
              RCODE::BADVERS => 16, RCODE::Reserved => 17 }
}
/// flags word written for a header (named opcodes/rcodes): low 4 bits of the rcode, opcode in bits 11..14
pub open spec fn hdr_flags_enc(h: &Header) -> u16 {
    pf_bits(h.z_flags) | (opcode_code(h.opcode) << 11) | (rcode_code(h.response_code) & 0xF)
}
pub open spec fn hdr_enc(h: &Header, qd: u16, an: u16, ns: u16, ar: u16) -> Seq<u8> {
    enc16(h.id) + enc16(hdr_flags_enc(h)) + enc16(qd) + enc16(an) + enc16(ns) + enc16(ar)
}
/// RFC 6891 6.1.3: TTL of the OPT record = EXTENDED-RCODE(8) VERSION(8) flags(16)
pub open spec fn opt_ttl(rcode: RCODE, version: u8) -> u32 { ((rcode_code(rcode) as u32 >> 4) << 24) | ((version as u32) << 16) }
}
"""

def apply(c):
    rel = 'dns/header.rs'
    c.wrap(rel, "pub(crate) mod masks {")
    # R4 (visibility only): the struct lives in the private module `header`; Verus needs it as visible as its pub methods
    c.sub(rel, "pub(crate) struct Header<'a> {", "pub struct Header<'a> {")
    c.log.append(('rewrite', rel, 'R4 x1 (pub(crate) struct Header -> pub struct Header, private module)'))
    c.wrap(rel, "pub struct Header<'a> {")
    c.append(rel, HDR_SPECS)
    verified = ('parse', 'write_to', 'get_flags', 'extract_info_from_opt_rr')
    for fn in list_fns(c, rel, H_IMPL):
        if fn == 'opt_rr':
            c.mark(rel, H_IMPL, fn, '#[verifier::external_body]')
        elif fn not in verified:
            c.mark(rel, H_IMPL, fn, '#[verifier::external]')
    c.contract(rel, H_IMPL, 'parse', """
        ensures
            r is Ok ==> hdr_dec(data@, &r.unwrap()), // @C08:parse-layout
            r is Err ==> data.len() < 12 || hdr_flags(data@) & 0x0040 != 0, // @C08:only-z-bit-rejected
""", pre_body="""
        proof { lemma_tz_consts(); }
""")
    c.ghost(rel, H_IMPL, 'parse', "let header = Self {", """
        proof {
            assert((flags & 0x7800u16) >> 11u16 == (flags >> 11u16) & 0xFu16) by(bit_vector);
        }
""", where='before')
    c.contract(rel, H_IMPL, 'get_flags', """
        ensures r == hdr_flags_enc(self), // @C08:write-layout
""", pre_body="""
        proof { lemma_tz_consts(); }
""")
    c.contract(rel, H_IMPL, 'write_to', """
        ensures r is Ok ==> wrote(old(buffer), final(buffer), hdr_enc(self, questions, answers, name_servers, additional_records)), // @C08:write-layout,C04:header-counts
""")
    c.contract(rel, H_IMPL, 'opt_rr', """
        ensures
            (r is Some) == (self.opt is Some), // @C09:one-opt-record
            r is Some ==> r.unwrap().name.lv() =~= Seq::<Seq<u8>>::empty() && r.unwrap().class == crate::CLASS::IN
                && r.unwrap().cache_flush == false
                && r.unwrap().ttl == opt_ttl(self.response_code, self.opt.unwrap().version)
                && r.unwrap().rdata == crate::rdata::RData::OPT(self.opt.unwrap()), // @C09:opt-record-shape
""")
    c.contract(rel, H_IMPL, 'extract_info_from_opt_rr', """
        requires opt_rr is Some ==> opt_rr.unwrap().rdata is OPT,
        ensures
            opt_rr is None ==> *final(self) == *old(self),
            opt_rr is Some ==> final(self).opt == Some(opt_rr.unwrap().rdata->OPT_0) && final(self).id == old(self).id
                && final(self).opcode == old(self).opcode && final(self).z_flags == old(self).z_flags,
            opt_rr is Some ==> final(self).response_code
                == rcode_of_code((((opt_rr.unwrap().ttl >> 24u32) as u16) << 4u16) | rcode_code(old(self).response_code)), // @C09:rcode-recombined
""")
    c.wrap(rel, H_IMPL)
