"""Style tolerance: the closed-form lemmas of vx.rs (group vx_style) are made available inside every `parse` body, so that
reading an integer through `from_be_bytes([d[p], d[p + 1]])` or through a re-sliced window needs no other proof hints than
reading it through `d[p..p + 2].try_into()?` (found by the behaviour-preserving refactorings of DESIGN.md 8.16)."""
import re
from xf import code_find_all, match_close, next_code, AnchorLost

def apply(c):
    n = 0
    for rel in sorted(c.cache.keys()):
        if not rel.endswith('.rs') or rel == 'vx.rs' or not rel.startswith('dns/'):
            continue
        s = c.rd(rel)
        if 'verus!' not in s:
            continue
        ins = []
        for m in code_find_all(s, r'\bfn\s+parse\s*(?:<[^>]*>)?\s*\('):
            try:
                po = s.index('(', m.start())
                pc = match_close(s, po, '(', ')')
                jb = next_code(s, pc, '{')
                semi = s.find(';', pc)
                if 0 <= semi < jb and '{' not in s[pc:semi]:
                    continue
            except (AnchorLost, ValueError):
                continue
            k = s.rfind('\n', 0, m.start()) + 1
            from xf import attrs_start
            a = attrs_start(s, k)
            if 'verifier::external' in s[a:k]:
                continue
            ins.append(jb + 1)
        for pos in sorted(ins, reverse=True):
            s = s[:pos] + ' broadcast use crate::vx::vx_style;' + s[pos:]
            n += 1
        c.wr(rel, s)
    c.log.append(('ghost', '*', 'vx_style lemmas made available in %d parse bodies' % n))
