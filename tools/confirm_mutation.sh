#!/bin/bash
# usage: confirm_mutation.sh <patch.diff> <demo.rs> <name>
# confirms in the scratch worktree /tmp/mutv: (1) with the patch the existing suite passes, (2) with the patch the demo fails,
# (3) without the patch the demo passes.  Prints one summary line.
P=$1; D=$2; N=$3
W=/tmp/mutv
export CARGO_TARGET_DIR=/tmp/mutv-target CARGO_NET_OFFLINE=true
if [ ! -d $W ]; then git -C /repo worktree add -q --detach $W HEAD || exit 9; fi
cd $W && git checkout -q --detach $(git -C /repo rev-parse HEAD) && git checkout -- . && git clean -fdq simple-dns/tests
git apply "$P" || { echo "$N: PATCH DOES NOT APPLY"; exit 9; }
# (1) existing suite with the patch (unit + integration tests of both crates, as in the baseline; doctests excluded like nextest)
cargo test --workspace --offline --lib --tests --no-fail-fast > /tmp/mutv-$N-suite.log 2>&1; s1=$?
cp "$D" simple-dns/tests/vxdemo.rs
timeout 300 cargo test -p simple-dns --offline --test vxdemo > /tmp/mutv-$N-demo-with.log 2>&1; s2=$?
git checkout -- . 
timeout 300 cargo test -p simple-dns --offline --test vxdemo > /tmp/mutv-$N-demo-without.log 2>&1; s3=$?
rm -f simple-dns/tests/vxdemo.rs
echo "$N: suite_with_patch_rc=$s1 demo_with_patch_rc=$s2 demo_without_patch_rc=$s3 $( [ $s1 = 0 ] && [ $s2 != 0 ] && [ $s3 = 0 ] && echo CONFIRMED || echo NOT-CONFIRMED)"
