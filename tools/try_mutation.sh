#!/bin/bash
# usage: try_mutation.sh <patch.diff> <Cxx> [<Cyy> ...]   -- applies the patch to /repo, runs the quick checks, reverts
set -u
P=$1; shift
cd /repo || exit 9
if ! git diff --quiet; then echo "REPO DIRTY"; exit 9; fi
git apply "$P" || { echo "PATCH DOES NOT APPLY"; exit 9; }
cd /verif
rm -rf /tmp/vx-evid-save && cp -r /verif/evidence /tmp/vx-evid-save
for c in "$@"; do
  out=$(./check $c quick 2>&1); rc=$?
  echo "[$c rc=$rc] $(echo "$out" | grep -E 'VIOLATION|UNDECIDED|OK|KNOWN' | head -4 | tr '\n' ' ')"
done
git -C /repo checkout -- .
# evidence written while the tree was mutated is not evidence about /repo: restore the previous files (replays are kept)
cp /tmp/vx-evid-save/*.json /verif/evidence/ 2>/dev/null; rm -rf /tmp/vx-evid-save
