#!/usr/bin/env python3
"""dev helper: tools/times.py [module ...]  -- annotate a scratch copy, verify, print the slowest functions"""
import sys, os, json
HERE = os.path.dirname(os.path.dirname(os.path.abspath(__file__)))
sys.path.insert(0, os.path.join(HERE, 'vx')); sys.path.insert(0, os.path.join(HERE, 'contracts'))
import run_verus
c = run_verus.build(os.environ.get('VX_SCRATCH', '/tmp/vx/dev'), run_verus.UNITS)
r = run_verus.run(c, sys.argv[1:])
js = r['json'] or {}
print(js.get('verification-results'))
rows = []
for m in js.get('times-ms', {}).get('smt', {}).get('smt-run-module-times', []):
    for f in m.get('function-breakdown', []):
        rows.append((f.get('time-micros', f.get('time', 0)), f.get('rlimit', 0), f.get('function')))
rows.sort(reverse=True)
for t, rl, fn in rows[:15]:
    print('%8.2fs rlimit=%-10s %s' % (t / 1e6, rl, fn))
for d in r['diags']:
    if d['level'] == 'error':
        print(d['message'][:100], [ (s['file_name'], s['line_start']) for s in d['spans'] if s['is_primary']][:1])
