use vstd::prelude::*;
use std::collections::HashMap;
use std::collections::hash_map::Entry;
verus!{
// V1: conditional insert, as in the real code
fn f1(m: &mut HashMap<u64, u64>, k: u64, c: bool)
    requires !old(m)@.contains_key(k)
    ensures c ==> false,
{
    broadcast use vstd::std_specs::hash::group_hash_axioms;
    match m.entry(k) {
        Entry::Vacant(e) => { if c { e.insert(1); } }
        Entry::Occupied(_) => {}
    }
}
// V2: unconditional insert
fn f2(m: &mut HashMap<u64, u64>, k: u64)
    requires !old(m)@.contains_key(k)
    ensures false,
{
    broadcast use vstd::std_specs::hash::group_hash_axioms;
    match m.entry(k) {
        Entry::Vacant(e) => { e.insert(1); }
        Entry::Occupied(_) => {}
    }
}
// V3: conditional insert with explicit else-move
fn f3(m: &mut HashMap<u64, u64>, k: u64, c: bool)
    requires !old(m)@.contains_key(k)
    ensures c ==> false,
{
    broadcast use vstd::std_specs::hash::group_hash_axioms;
    match m.entry(k) {
        Entry::Vacant(e) => { if c { e.insert(1); } else { let _vx_e = e; } }
        Entry::Occupied(_) => {}
    }
}
// V4: what is known in the good case
fn f4(m: &mut HashMap<u64, u64>, k: u64, c: bool)
    requires !old(m)@.contains_key(k)
    ensures c ==> final(m)@ == old(m)@.insert(k, 1), !c ==> final(m)@ == old(m)@,
{
    broadcast use vstd::std_specs::hash::group_hash_axioms;
    match m.entry(k) {
        Entry::Vacant(e) => { if c { e.insert(1); } else { let _vx_e = e; } }
        Entry::Occupied(_) => {}
    }
}
}
fn main(){}
