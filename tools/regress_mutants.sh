#!/bin/bash
# re-runs every kept seeded change against the checks that are recorded as detecting it; one line per change:
#   <id> <check>=<rc> ...   (rc 1 = detected, 0 = missed, 2 = undecided)
cd /verif
for d in seeded/*/; do
  id=$(basename $d)
  checks=$(python3 -c "import json;print(' '.join(json.load(open('$d/meta.json'))['detected_by_quick_checks']))")
  [ -z "$checks" ] && { echo "$id (no check recorded)"; continue; }
  out=$(bash tools/try_mutation.sh /verif/$d/patch.diff $checks 2>&1)
  echo "$id $(echo "$out" | grep -o '\[C[0-9]* rc=[0-9]\]' | tr '\n' ' ')$(echo "$out" | grep -E 'DOES NOT APPLY|DIRTY')"
done
