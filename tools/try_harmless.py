#!/usr/bin/env python3
"""tools/try_harmless.py <diff> [--kani]  -- false-alarm test: applies a behaviour-preserving diff to a scratch copy of /repo and
runs the whole Verus engine, every stand-in suite and (optionally) every Kani harness on it.
Prints: verus status (ok / undecided + reason), every failing obligation with the properties it would be charged to,
stand-in failures, Kani failures.  Any failure line is a false alarm to be fixed in the machinery; `undecided` is acceptable."""
import sys, os, shutil, subprocess, tempfile, json, re
VERIF = os.path.dirname(os.path.dirname(os.path.abspath(__file__)))
diff = os.path.abspath(sys.argv[1])
with_kani = '--kani' in sys.argv
tmp = tempfile.mkdtemp(prefix='vxharm-', dir='/tmp')
repo = os.path.join(tmp, 'repo')
subprocess.run('git -C /repo archive HEAD | tar -x -C %s' % tmp, shell=True, check=False)
os.makedirs(repo, exist_ok=True)
subprocess.run('git -C /repo archive HEAD | tar -x -C %s' % repo, shell=True, check=True)
r = subprocess.run(['patch', '-p1', '-s', '-i', diff], cwd=repo, capture_output=True, text=True)
if r.returncode != 0:
    print('PATCH DOES NOT APPLY', r.stdout[-300:], r.stderr[-300:]); sys.exit(9)
os.environ['VERIF_REPO'] = repo
for d in ('vx', 'kani', 'contracts'):
    sys.path.insert(0, os.path.join(VERIF, d))
import engine, standin, run_kani, props as P, gen_harness
scratch = os.path.join(tmp, 's')
os.makedirs(scratch)
res = engine.run(scratch)
print('VERUS status=%s reason=%s verified=%s' % (res['status'], (res.get('reason') or '')[:300].replace('\n', ' '), (res.get('verification_results') or {}).get('verified')))
for f in res.get('failures', []):
    print('  FAIL props=%s %s' % (','.join(sorted(f.props)), f.key[:220]))
sr = standin.run(scratch, ['name_text', 'roundtrip', 'malformed', 'observers', 'txt'])
print('STANDIN status=%s' % sr['status'], (sr.get('detail') or '')[:300])
for rep in sr['reports']:
    seen = set()
    for f in rep['failures']:
        if f['check'] in seen: continue
        seen.add(f['check'])
        if 'D11' in f['check']: continue
        print('  FAIL suite=%s %s input=%s' % (rep['suite'], f['check'][:120], f['input'][:80]))
if with_kani:
    hs = re.findall(r'#\[kani::proof\]\s*(?:#\[kani::unwind\(\d+\)\]\s*)?fn (\w+)', gen_harness.emit())
    kr = run_kani.run(scratch, hs, timeout=600)
    for x in kr['results']:
        if x['status'] != 'ok' and x['harness'] != 'header_reserialise_reserved':
            print('  KANI %s %s %s' % (x['harness'], x['status'], x.get('failed_checks')))
    print('KANI done %d harnesses' % len(kr['results']))
shutil.rmtree(tmp, ignore_errors=True)
