#!/bin/bash
# runs every registered quick check on the current tree (regenerates all evidence files); prints one line per check
cd /verif
for p in $(python3 -c "import json;print(' '.join(c['property_id'] for c in json.load(open('MANIFEST.json'))['checks']))"); do
  out=$(./check $p quick 2>&1); rc=$?
  echo "[$p rc=$rc] $(echo "$out" | tail -1)"
done
