#!/usr/bin/env python3
"""keep_mutation.py <prop> <i> <detected-by comma list or 'none'> [note]  -- copies /tmp/mut/<prop>/out/m<i>.* to /verif/seeded/<prop>-m<i>/"""
import sys, os, shutil, json, subprocess
prop, i, det = sys.argv[1], sys.argv[2], sys.argv[3]
note = sys.argv[4] if len(sys.argv) > 4 else ''
src = '/tmp/mut/%s/out' % prop
dst = '/verif/seeded/%s-m%s' % (prop, i)
os.makedirs(dst, exist_ok=True)
shutil.copy('%s/m%s.diff' % (src, i), dst + '/patch.diff')
shutil.copy('%s/m%s_demo.rs' % (src, i), dst + '/demo.rs')
desc = open('%s/m%s.txt' % (src, i)).read().strip()
base = subprocess.run(['git', '-C', '/repo', 'rev-parse', '--short', 'HEAD'], capture_output=True, text=True).stdout.strip()
meta = {
    'id': '%s-m%s' % (prop, i), 'breaks_property': (open('%s/m%s.txt' % (src, i)).readline().split(':')[-1].strip() if not prop[1:].isdigit() else prop), 'description': desc,
    'needs_to_manifest': desc,
    'produced_by': 'independent sub-agent given only the property text and its own worktree (nothing from /verif)',
    'confirmed': {'how': 'tools/confirm_mutation.sh in scratch worktree /tmp/mutv: (1) patch applied: cargo test --workspace --offline --lib --tests passes; (2) patch applied: demo.rs (as simple-dns/tests/vxdemo.rs) fails; (3) patch reverted: demo passes',
                  'result': 'CONFIRMED', 'repo_base': base},
    'detected_by_quick_checks': [] if det == 'none' else det.split(','),
    'note': note,
}
json.dump(meta, open(dst + '/meta.json', 'w'), indent=1)
print(dst)
