#!/bin/bash
# false-alarm regression: every behaviour-preserving refactoring under harmless/ must verify or be undecided, never fail
cd /verif
for d in harmless/*/; do
  out=$(python3 tools/try_harmless.py $d/patch.diff 2>&1)
  st=$(echo "$out" | grep -o "VERUS status=[a-z]*")
  n=$(echo "$out" | grep -c "FAIL\|KANI .* failed")
  echo "$(basename $d) $st false_alarms=$n"
done
