import sys; sys.path.insert(0,'/tmp/vx3/tool')
exec(open('/tmp/vx3/tool/exp5.py').read().rsplit("print(run()",1)[0])
# ---- A
rules('dns/rdata/a.rs')
sub('dns/rdata/a.rs', "use super::RR;", "use super::RR;\nuse vstd::prelude::*;\n#[allow(unused_imports)]\nuse crate::vx::*;")
wrap_item('dns/rdata/a.rs', "pub struct A {")
wrap_item('dns/rdata/a.rs', "impl<'a> WireFormat<'a> for A {")
sub('dns/rdata/a.rs', """    fn parse(data: &'a [u8], position: &mut usize) -> crate::Result<Self>
    where
        Self: Sized,
    {""", """    open spec fn wf_enc(&self) -> Seq<u8> { enc32(self.address) }
    fn parse(data: &'a [u8], position: &mut usize) -> (r: crate::Result<Self>)
    where
        Self: Sized,
        ensures r is Ok ==> { let p = *old(position) as int; p + 4 <= data.len() && *final(position) == p + 4
            && r.unwrap().address == be32(data@[p], data@[p+1], data@[p+2], data@[p+3]) }
    {""")
# ---- MX
rules('dns/rdata/mx.rs')
sub('dns/rdata/mx.rs', "use super::RR;", "use super::RR;\nuse vstd::prelude::*;\n#[allow(unused_imports)]\nuse crate::vx::*;")
wrap_item('dns/rdata/mx.rs', "pub struct MX<'a> {")
wrap_item('dns/rdata/mx.rs', "impl<'a> WireFormat<'a> for MX<'a> {")
sub('dns/rdata/mx.rs', """    fn parse(data: &'a [u8], position: &mut usize) -> crate::Result<Self>
    where
        Self: Sized,
    {""", """    open spec fn wf_enc(&self) -> Seq<u8> { enc16(self.preference) + self.exchange.wf_enc() }
    fn parse(data: &'a [u8], position: &mut usize) -> (r: crate::Result<Self>)
    where
        Self: Sized,
        ensures r is Ok ==> { let p = *old(position) as int; p + 2 <= data.len()
            && r.unwrap().preference == be16(data@[p], data@[p+1])
            && dec_labels(data@, p + 2, 0) == Some(r.unwrap().exchange.lv())
            && *final(position) == p + 2 + inplace_len(data@, p + 2) }
    {""")
s=rd('dns/rdata/mx.rs')
f="    fn write_compressed_to<T: std::io::Write + std::io::Seek>("
s=s.replace(f, "    #[verifier::external_body]\n"+f)
wr('dns/rdata/mx.rs', s)
sub("dns/wire_format.rs", "pub(crate) trait WireFormat", "pub trait WireFormat")
print(run()[-8000:])
