
use vstd::prelude::*;
use std::io::{Write, Seek, SeekFrom};
use std::collections::HashMap;
use vstd::std_specs::hash::*;
use vstd::std_specs::iter::IteratorSpec;
verus! {


pub open spec fn be16(a: u8, b: u8) -> u16 { ((a as u16) << 8 | (b as u16)) }
pub open spec fn ptr_target(b0: u8, b1: u8) -> int { (be16(b0, b1) & !0xC000u16) as int }

pub open spec fn dec_labels(data: Seq<u8>, p: int, size: int) -> Option<Seq<Seq<u8>>>
    decreases 255 - size, p
{
    if p < 0 || p >= data.len() || size < 0 { None }
    else if size >= 255 { None }
    else {
        let b = data[p];
        if b == 0 { Some(Seq::empty()) }
        else if b & 0xC0 == 0xC0 {
            if p + 2 > data.len() { None } else {
                let t = ptr_target(data[p], data[p + 1]);
                if t >= p { None } else { dec_labels(data, t, size) }
            }
        } else if b > 63 { None }
        else if p + 1 + b > data.len() { None }
        else if size + 1 + b >= 255 { None }
        else {
            match dec_labels(data, p + 1 + b, size + 1 + b) {
                None => None,
                Some(rest) => Some(seq![data.subrange(p + 1, p + 1 + b)] + rest),
            }
        }
    }
}

/// wire length of the labels without the terminator
pub open spec fn wl(ls: Seq<Seq<u8>>) -> int
    decreases ls.len()
{
    if ls.len() == 0 { 0 } else { 1 + ls[0].len() + wl(ls.subrange(1, ls.len() as int)) }
}

/// length byte + bytes of each label, no terminator
pub open spec fn run(ls: Seq<Seq<u8>>) -> Seq<u8>
    decreases ls.len()
{
    if ls.len() == 0 { Seq::empty() } else { seq![ls[0].len() as u8] + ls[0] + run(ls.subrange(1, ls.len() as int)) }
}

pub open spec fn labels_ok(ls: Seq<Seq<u8>>) -> bool {
    forall|i: int| 0 <= i < ls.len() ==> 1 <= #[trigger] ls[i].len() <= 63
}

pub proof fn lemma_run_len(ls: Seq<Seq<u8>>)
    ensures run(ls).len() == wl(ls), wl(ls) >= 0
    decreases ls.len()
{
    if ls.len() > 0 { lemma_run_len(ls.subrange(1, ls.len() as int)); }
}

/// D: decoding is stable under appending bytes
pub proof fn lemma_append_stable(m: Seq<u8>, x: Seq<u8>, p: int, s: int)
    requires dec_labels(m, p, s) is Some
    ensures dec_labels(m + x, p, s) == dec_labels(m, p, s)
    decreases 255 - s, p
{
    let mx = m + x;
    assert(mx[p] == m[p]);
    let b = m[p];
    if b == 0 {
    } else if b & 0xC0 == 0xC0 {
        assert(mx[p + 1] == m[p + 1]);
        let t = ptr_target(m[p], m[p + 1]);
        lemma_append_stable(m, x, t, s);
    } else {
        lemma_append_stable(m, x, p + 1 + b, s + 1 + b);
        assert(mx.subrange(p + 1, p + 1 + b) =~= m.subrange(p + 1, p + 1 + b));
    }
}

/// C: a larger starting budget is fine as long as the whole name still fits
pub proof fn lemma_budget(m: Seq<u8>, p: int, s: int, s2: int)
    requires dec_labels(m, p, s) is Some, s <= s2, s2 + wl(dec_labels(m, p, s).unwrap()) <= 254
    ensures dec_labels(m, p, s2) == dec_labels(m, p, s)
    decreases 255 - s, p
{
    let b = m[p];
    if b == 0 {
    } else if b & 0xC0 == 0xC0 {
        let t = ptr_target(m[p], m[p + 1]);
        lemma_budget(m, t, s, s2);
    } else {
        let rest = dec_labels(m, p + 1 + b, s + 1 + b).unwrap();
        let l0 = m.subrange(p + 1, p + 1 + b);
        let all = seq![l0] + rest;
        assert(all.subrange(1, all.len() as int) =~= rest);
        assert(all[0] == l0);
        assert(wl(all) == 1 + b + wl(rest));
        lemma_run_len(rest);
        lemma_budget(m, p + 1 + b, s + 1 + b, s2 + 1 + b);
    }
}


/// E: a freshly written run of labels at q, followed by something that decodes to `tail`
pub proof fn lemma_run_decodes(m: Seq<u8>, q: int, ls: Seq<Seq<u8>>, s: int, tail: Seq<Seq<u8>>)
    requires
        0 <= q, 0 <= s, labels_ok(ls),
        q + wl(ls) <= m.len(),
        m.subrange(q, q + wl(ls)) == run(ls),
        s + wl(ls) <= 254,
        dec_labels(m, q + wl(ls), s + wl(ls)) == Some(tail),
    ensures dec_labels(m, q, s) == Some(ls + tail)
    decreases ls.len()
{
    lemma_run_len(ls);
    if ls.len() == 0 {
        assert(ls + tail =~= tail);
    } else {
        let l0 = ls[0];
        let rest = ls.subrange(1, ls.len() as int);
        lemma_run_len(rest);
        let b = l0.len() as u8;
        let r = run(ls);
        assert(r == seq![b] + l0 + run(rest));
        let sub = m.subrange(q, q + wl(ls));
        assert(sub[0] == b);
        assert(m[q] == b);
        assert(1 <= b <= 63);
        assert(b & 0xC0 != 0xC0) by(bit_vector) requires b <= 63;
        assert(m.subrange(q + 1, q + 1 + b) =~= l0) by {
            assert forall|i: int| 0 <= i < b implies m[q + 1 + i] == l0[i] by {
                assert(sub[1 + i] == r[1 + i]);
            }
        }
        assert(m.subrange(q + 1 + b, q + 1 + b + wl(rest)) =~= run(rest)) by {
            assert forall|i: int| 0 <= i < wl(rest) implies m[q + 1 + b + i] == run(rest)[i] by {
                assert(sub[1 + b + i] == r[1 + b + i]);
            }
        }
        assert(labels_ok(rest)) by {
            assert forall|i: int| 0 <= i < rest.len() implies 1 <= #[trigger] rest[i].len() <= 63 by { assert(rest[i] == ls[i + 1]); }
        }
        lemma_run_decodes(m, q + 1 + b, rest, s + 1 + b, tail);
        assert(seq![l0] + (rest + tail) =~= ls + tail);
    }
}


pub proof fn lemma_split(ls: Seq<Seq<u8>>, j: int)
    requires 0 <= j <= ls.len()
    ensures wl(ls) == wl(ls.subrange(0, j)) + wl(ls.subrange(j, ls.len() as int)),
            run(ls) =~= run(ls.subrange(0, j)) + run(ls.subrange(j, ls.len() as int)),
    decreases j
{
    let n = ls.len() as int;
    if j == 0 {
        assert(ls.subrange(0, 0) =~= Seq::<Seq<u8>>::empty());
        assert(ls.subrange(0, n) =~= ls);
    } else {
        let tl = ls.subrange(1, n);
        lemma_split(tl, j - 1);
        let a = ls.subrange(0, j);
        assert(a[0] == ls[0]);
        assert(a.subrange(1, j) =~= tl.subrange(0, j - 1));
        assert(tl.subrange(j - 1, n - 1) =~= ls.subrange(j, n));
        assert(a.len() == j);
    }
}
pub proof fn lemma_wl_pos(ls: Seq<Seq<u8>>)
    requires labels_ok(ls), ls.len() > 0
    ensures wl(ls) >= 2
{
    lemma_run_len(ls.subrange(1, ls.len() as int));
    assert(ls[0].len() >= 1);
}
pub proof fn lemma_ptr_bits(p: u16)
    requires p < 0x4000
    ensures ({ let v = p | 0xC000u16; let b0 = (v >> 8) as u8; let b1 = (v & 0xff) as u8;
               b0 & 0xC0 == 0xC0 && b0 != 0 && (be16(b0, b1) & !0xC000u16) == p })
{
    assert(({ let v = p | 0xC000u16; let b0 = (v >> 8) as u8; let b1 = (v & 0xff) as u8;
               b0 & 0xC0 == 0xC0 && b0 != 0 && ((((b0 as u16) << 8) | (b1 as u16)) & !0xC000u16) == p })) by(bit_vector)
        requires p < 0x4000;
}


pub proof fn lemma_sub_run(m: Seq<u8>, base: int, ls: Seq<Seq<u8>>, j: int)
    requires 0 <= base, 0 <= j <= ls.len(), base + wl(ls) <= m.len(), m.subrange(base, base + wl(ls)) == run(ls)
    ensures ({ let t = ls.subrange(j, ls.len() as int); let q = base + wl(ls.subrange(0, j));
               0 <= q && q + wl(t) == base + wl(ls) && m.subrange(q, q + wl(t)) =~= run(t) })
{
    lemma_split(ls, j);
    lemma_run_len(ls); lemma_run_len(ls.subrange(0, j)); lemma_run_len(ls.subrange(j, ls.len() as int));
    let t = ls.subrange(j, ls.len() as int); let q = base + wl(ls.subrange(0, j));
    let r = run(ls); let sub = m.subrange(base, base + wl(ls));
    assert forall|x: int| 0 <= x < wl(t) implies m[q + x] == run(t)[x] by {
        assert(sub[wl(ls.subrange(0, j)) + x] == r[wl(ls.subrange(0, j)) + x]);
    }
}

pub proof fn lemma_sub_labels_ok(ls: Seq<Seq<u8>>, a: int, b: int)
    requires labels_ok(ls), 0 <= a <= b <= ls.len()
    ensures labels_ok(ls.subrange(a, b))
{
    let t = ls.subrange(a, b);
    assert forall|i: int| 0 <= i < t.len() implies 1 <= #[trigger] t[i].len() <= 63 by { assert(t[i] == ls[a + i]); }
}

/// all suffix positions decode once the terminator has been written
pub proof fn lemma_finish_zero(m0: Seq<u8>, lv: Seq<Seq<u8>>, m1: Seq<u8>, j: int)
    requires labels_ok(lv), wl(lv) <= 254, m1 == m0 + run(lv) + seq![0u8], 0 <= j <= lv.len()
    ensures dec_labels(m1, m0.len() + wl(lv.subrange(0, j)), 0) == Some(lv.subrange(j, lv.len() as int))
{
    let n = lv.len() as int;
    lemma_run_len(lv);
    let base = m0.len() as int;
    assert(m1.subrange(base, base + wl(lv)) =~= run(lv));
    lemma_sub_run(m1, base, lv, j);
    let t = lv.subrange(j, n); let q = base + wl(lv.subrange(0, j));
    lemma_sub_labels_ok(lv, j, n);
    lemma_split(lv, j); lemma_run_len(lv.subrange(0, j)); lemma_run_len(t);
    assert(m1[base + wl(lv)] == 0u8);
    assert(dec_labels(m1, q + wl(t), wl(t)) == Some(Seq::<Seq<u8>>::empty()));
    lemma_run_decodes(m1, q, t, 0, Seq::empty());
    assert(t + Seq::<Seq<u8>>::empty() =~= t);
}

/// all suffix positions up to i decode once a pointer to an existing copy of lv[i..] has been written
pub proof fn lemma_finish_ptr(m0: Seq<u8>, lv: Seq<Seq<u8>>, i: int, p: u16, m1: Seq<u8>, j: int)
    requires labels_ok(lv), wl(lv) <= 254, 0 <= i < lv.len(), 0 <= j <= i,
             p < m0.len(), p < 0x4000,
             dec_labels(m0, p as int, 0) == Some(lv.subrange(i, lv.len() as int)),
             m1 == m0 + run(lv.subrange(0, i)) + enc16(p | 0xC000u16),
    ensures dec_labels(m1, m0.len() + wl(lv.subrange(0, j)), 0) == Some(lv.subrange(j, lv.len() as int))
{
    let n = lv.len() as int;
    let pre = lv.subrange(0, i); let suf = lv.subrange(i, n);
    lemma_run_len(pre); lemma_split(lv, i); lemma_run_len(suf);
    let base = m0.len() as int;
    let pp = base + wl(pre);
    // the pointer itself
    lemma_ptr_bits(p);
    let v = p | 0xC000u16;
    assert(m1[pp] == (v >> 8) as u8);
    assert(m1[pp + 1] == (v & 0xff) as u8);
    assert(m1.len() == pp + 2);
    // target decodes in m1 as in m0, with any admissible budget
    let mid = m0 + run(pre);
    lemma_append_stable(m0, run(pre) + enc16(v), p as int, 0);
    assert(m0 + (run(pre) + enc16(v)) =~= m1);
    // prefix part pre[j..i]
    assert(m1.subrange(base, base + wl(pre)) =~= run(pre));
    lemma_sub_run(m1, base, pre, j);
    let t = pre.subrange(j, i); let q = base + wl(pre.subrange(0, j));
    lemma_sub_labels_ok(lv, 0, i);
    lemma_sub_labels_ok(pre, j, i);
    lemma_run_len(t); lemma_run_len(pre.subrange(0, j));
    lemma_split(pre, j);
    assert(pre.subrange(0, j) =~= lv.subrange(0, j));
    lemma_budget(m1, p as int, 0, wl(t));
    assert(dec_labels(m1, pp, wl(t)) == Some(suf));
    lemma_run_decodes(m1, q, t, 0, suf);
    assert(t + suf =~= lv.subrange(j, n));
}

// ---------------- io model ----------------
#[verifier::external_type_specification] #[verifier::external_body]
pub struct ExIoError(std::io::Error);
#[verifier::external_type_specification]
pub struct ExSeekFrom(std::io::SeekFrom);
pub uninterp spec fn io_buf<T: ?Sized>(t: &T) -> Seq<u8>;
pub uninterp spec fn io_pos<T: ?Sized>(t: &T) -> int;
pub open spec fn overwrite(buf: Seq<u8>, pos: int, b: Seq<u8>) -> Seq<u8> {
    if pos + b.len() >= buf.len() { buf.subrange(0, pos) + b }
    else { buf.subrange(0, pos) + b + buf.subrange(pos + b.len(), buf.len() as int) }
}
#[verifier::external_trait_specification]
pub trait ExWrite {
    type ExternalTraitSpecificationFor: std::io::Write;
    fn write_all(&mut self, b: &[u8]) -> (r: std::result::Result<(), std::io::Error>)
        ensures r is Ok ==> 0 <= io_pos(old(self)) <= io_buf(old(self)).len() ==>
            io_buf(final(self)) == overwrite(io_buf(old(self)), io_pos(old(self)), b@)
            && io_pos(final(self)) == io_pos(old(self)) + b@.len();
}
#[verifier::external_trait_specification]
pub trait ExSeek {
    type ExternalTraitSpecificationFor: std::io::Seek;
    fn stream_position(&mut self) -> (r: std::result::Result<u64, std::io::Error>)
        ensures io_buf(final(self)) == io_buf(old(self)), io_pos(final(self)) == io_pos(old(self)),
                r is Ok ==> r.unwrap() == io_pos(old(self));
}
pub enum E { W }
impl From<std::io::Error> for E { #[verifier::external_body] fn from(_e: std::io::Error) -> Self { E::W } }
pub open spec fn enc16(v: u16) -> Seq<u8> { seq![(v >> 8) as u8, (v & 0xff) as u8] }
#[verifier::external_body]
fn be2(v: u16) -> (r: [u8;2]) ensures r@ == enc16(v) { v.to_be_bytes() }

// ---------------- types ----------------
#[derive(PartialEq, Eq, Hash)]
pub struct Label { pub data: Vec<u8> }
impl Label { pub fn len(&self) -> (r: usize) ensures r == self.data@.len() { self.data.len() } }
pub struct Name { pub labels: Vec<Label> }
const POINTER_MASK_U16: u16 = 0b1100_0000_0000_0000;

pub open spec fn labels_view(ls: Seq<Label>) -> Seq<Seq<u8>> { ls.map(|i: int, l: Label| l.data@) }

#[verifier::external_body]
pub broadcast proof fn axiom_label_slice_key_model()
    ensures #[trigger] obeys_key_model::<&[Label]>() {}

pub open spec fn refs_ok(map: Map<&[Label], usize>, m: Seq<u8>) -> bool {
    forall|k: &[Label]| #[trigger] map.contains_key(k) ==>
        map[k] < m.len() && map[k] < 0x4000 && dec_labels(m, map[k] as int, 0) == Some(labels_view(k@))
}


pub open spec fn ref_old(m0: Seq<u8>, k: &[Label], v: usize) -> bool {
    v < m0.len() && v < 0x4000 && dec_labels(m0, v as int, 0) == Some(labels_view(k@))
}
pub open spec fn ref_pend(lv: Seq<Seq<u8>>, m0len: int, k: &[Label], v: usize, j: int) -> bool {
    labels_view(k@) == lv.subrange(j, lv.len() as int) && v == m0len + wl(lv.subrange(0, j)) && v < 0x4000
}
pub open spec fn inv_refs(map: Map<&[Label], usize>, m0: Seq<u8>, lv: Seq<Seq<u8>>, i: int) -> bool {
    forall|k: &[Label]| #[trigger] map.contains_key(k) ==>
        ref_old(m0, k, map[k]) || (exists|j: int| 0 <= j < i && #[trigger] ref_pend(lv, m0.len() as int, k, map[k], j))
}

pub proof fn lemma_inv_init(map: Map<&[Label], usize>, m0: Seq<u8>, lv: Seq<Seq<u8>>)
    requires refs_ok(map, m0)
    ensures inv_refs(map, m0, lv, 0)
{}

/// loop step in the Vacant arm
pub proof fn lemma_vacant_step(map_b: Map<&[Label], usize>, map_a: Map<&[Label], usize>, k0: &[Label], pos: usize, inserted: bool,
                               m0: Seq<u8>, lv: Seq<Seq<u8>>, i: int, m: Seq<u8>, m2: Seq<u8>)
    requires
        labels_ok(lv), 0 <= i < lv.len(),
        inv_refs(map_b, m0, lv, i),
        !map_b.contains_key(k0),
        labels_view(k0@) == lv.subrange(i, lv.len() as int),
        pos == m0.len() + wl(lv.subrange(0, i)),
        inserted ==> pos < 0x4000 && map_a == map_b.insert(k0, pos),
        !inserted ==> map_a == map_b,
        m == m0 + run(lv.subrange(0, i)),
        m2 == m + seq![lv[i].len() as u8] + lv[i],
    ensures
        inv_refs(map_a, m0, lv, i + 1),
        wl(lv.subrange(0, i + 1)) == wl(lv.subrange(0, i)) + 1 + lv[i].len(),
        m2 =~= m0 + run(lv.subrange(0, i + 1)),
{
    let pre = lv.subrange(0, i); let pre1 = lv.subrange(0, i + 1);
    lemma_split(pre1, i);
    assert(pre1.subrange(0, i) =~= pre);
    let one = pre1.subrange(i, i + 1);
    assert(one.len() == 1 && one[0] == lv[i]);
    assert(one.subrange(1, 1) =~= Seq::<Seq<u8>>::empty());
    assert(wl(one.subrange(1, 1)) == 0);
    assert(run(one.subrange(1, 1)) =~= Seq::<u8>::empty());
    assert(wl(one) == 1 + lv[i].len());
    assert(run(one) =~= seq![lv[i].len() as u8] + lv[i]);
    assert forall|k: &[Label]| #[trigger] map_a.contains_key(k) implies
        ref_old(m0, k, map_a[k]) || (exists|j: int| 0 <= j < i + 1 && #[trigger] ref_pend(lv, m0.len() as int, k, map_a[k], j)) by {
        if inserted && k == k0 {
            assert(ref_pend(lv, m0.len() as int, k, map_a[k], i));
        } else {
            assert(map_b.contains_key(k) && map_b[k] == map_a[k]);
            if !ref_old(m0, k, map_a[k]) {
                let j = choose|j: int| 0 <= j < i && #[trigger] ref_pend(lv, m0.len() as int, k, map_b[k], j);
                assert(ref_pend(lv, m0.len() as int, k, map_a[k], j));
            }
        }
    }
}

/// exit through the terminator
pub proof fn lemma_zero_exit(map: Map<&[Label], usize>, m0: Seq<u8>, lv: Seq<Seq<u8>>, m1: Seq<u8>)
    requires labels_ok(lv), wl(lv) <= 254, inv_refs(map, m0, lv, lv.len() as int), m1 == m0 + run(lv) + seq![0u8]
    ensures
        dec_labels(m1, m0.len() as int, 0) == Some(lv),
        refs_ok(map, m1),
        m1.len() == m0.len() + wl(lv) + 1,
{
    let n = lv.len() as int;
    lemma_run_len(lv);
    assert(lv.subrange(0, 0) =~= Seq::<Seq<u8>>::empty());
    assert(lv.subrange(0, n) =~= lv);
    lemma_finish_zero(m0, lv, m1, 0);
    assert forall|k: &[Label]| #[trigger] map.contains_key(k) implies
        map[k] < m1.len() && map[k] < 0x4000 && dec_labels(m1, map[k] as int, 0) == Some(labels_view(k@)) by {
        let v = map[k];
        if ref_old(m0, k, v) {
            lemma_append_stable(m0, run(lv) + seq![0u8], v as int, 0);
            assert(m0 + (run(lv) + seq![0u8]) =~= m1);
        } else {
            let j = choose|j: int| 0 <= j < n && #[trigger] ref_pend(lv, m0.len() as int, k, v, j);
            lemma_finish_zero(m0, lv, m1, j);
            lemma_split(lv, j); lemma_run_len(lv.subrange(j, n)); lemma_run_len(lv.subrange(0, j));
        }
    }
}

/// exit through a pointer to an existing entry
pub proof fn lemma_ptr_exit(map: Map<&[Label], usize>, k0: &[Label], m0: Seq<u8>, lv: Seq<Seq<u8>>, i: int, p: u16, m1: Seq<u8>)
    requires labels_ok(lv), wl(lv) <= 254, 0 <= i < lv.len(), inv_refs(map, m0, lv, i),
             map.contains_key(k0), labels_view(k0@) == lv.subrange(i, lv.len() as int),
             p == map[k0] as u16,
             m1 == m0 + run(lv.subrange(0, i)) + enc16(p | 0xC000u16),
    ensures
        dec_labels(m1, m0.len() as int, 0) == Some(lv),
        refs_ok(map, m1),
        m1.len() == m0.len() + wl(lv.subrange(0, i)) + 2,
        m1.len() - m0.len() <= wl(lv) + 1,
{
    let n = lv.len() as int;
    let v0 = map[k0];
    let suf = lv.subrange(i, n);
    assert(ref_old(m0, k0, v0)) by {
        if !ref_old(m0, k0, v0) {
            let j = choose|j: int| 0 <= j < i && #[trigger] ref_pend(lv, m0.len() as int, k0, v0, j);
            assert(lv.subrange(j, n).len() == n - j);
            assert(suf.len() == n - i);
        }
    }
    assert(p == v0);
    lemma_run_len(lv.subrange(0, i));
    assert(lv.subrange(0, 0) =~= Seq::<Seq<u8>>::empty());
    lemma_finish_ptr(m0, lv, i, p, m1, 0);
    assert(lv.subrange(0, n) =~= lv);
    lemma_sub_labels_ok(lv, i, n); lemma_wl_pos(suf); lemma_split(lv, i);
    assert forall|k: &[Label]| #[trigger] map.contains_key(k) implies
        map[k] < m1.len() && map[k] < 0x4000 && dec_labels(m1, map[k] as int, 0) == Some(labels_view(k@)) by {
        let v = map[k];
        if ref_old(m0, k, v) {
            lemma_append_stable(m0, run(lv.subrange(0, i)) + enc16(p | 0xC000u16), v as int, 0);
            assert(m0 + (run(lv.subrange(0, i)) + enc16(p | 0xC000u16)) =~= m1);
        } else {
            let j = choose|j: int| 0 <= j < i && #[trigger] ref_pend(lv, m0.len() as int, k, v, j);
            lemma_finish_ptr(m0, lv, i, p, m1, j);
            lemma_split(lv.subrange(0, i), j);
            assert(lv.subrange(0, i).subrange(0, j) =~= lv.subrange(0, j));
            lemma_run_len(lv.subrange(0, i).subrange(j, i));
        }
    }
}

impl Name {
    pub closed spec fn lv(&self) -> Seq<Seq<u8>> { labels_view(self.labels@) }
    pub open spec fn name_ok(&self) -> bool { labels_ok(self.lv()) && wl(self.lv()) <= 254 }

    fn compress_append<'a, T: std::io::Write + std::io::Seek>(
        &'a self,
        out: &mut T,
        name_refs: &mut HashMap<&'a [Label], usize>,
    ) -> (r: std::result::Result<(), E>)
        requires
            self.name_ok(),
            io_pos(old(out)) == io_buf(old(out)).len(),
            io_buf(old(out)).len() <= 0x1000_0000,
            refs_ok(old(name_refs)@, io_buf(old(out))),
        ensures r is Ok ==> {
            let m0 = io_buf(old(out)); let m1 = io_buf(final(out));
            &&& m1.len() >= m0.len() && m1.subrange(0, m0.len() as int) == m0
            &&& io_pos(final(out)) == m1.len()
            &&& dec_labels(m1, m0.len() as int, 0) == Some(self.lv())
            &&& refs_ok(final(name_refs)@, m1)
            &&& m1.len() - m0.len() <= wl(self.lv()) + 1
        }
    {
        broadcast use axiom_label_slice_key_model;
        let ghost m0 = io_buf(out);
        let ghost lv = self.lv();
        let ghost n = lv.len() as int;
        proof {
            assert(lv.subrange(0, 0) =~= Seq::<Seq<u8>>::empty());
            lemma_inv_init(name_refs@, m0, lv);
            assert(io_buf(out).subrange(0, m0.len() as int) =~= m0);
            assert(io_buf(out) =~= m0 + run(lv.subrange(0, 0)));
        }
        let mut i = 0usize;
        for label in vx_it: self.iter()
            invariant
                i == vx_it.index@, 0 <= i <= n, i <= self.labels.len(), n == self.labels@.len(), lv == self.lv(), lv == labels_view(self.labels@),
                self.name_ok(), m0.len() <= 0x1000_0000,
                m0 == io_buf(old(out)),
                io_pos(out) == io_buf(out).len(),
                io_buf(out) == m0 + run(lv.subrange(0, i as int)),
                io_buf(out).len() == m0.len() + wl(lv.subrange(0, i as int)),
                inv_refs(name_refs@, m0, lv, i as int),
        {
            broadcast use axiom_label_slice_key_model;
            let ghost m = io_buf(out);
            let ghost map_b = name_refs@;
            proof {
                assert(i < n);
                lemma_split(lv, i as int);
                lemma_run_len(lv.subrange(0, i as int));
                lemma_run_len(lv.subrange(i as int, n));
                assert(label.data@ == lv[i as int]);
            }
            let ghost mut g_k0: &[Label] = arbitrary();
            let ghost mut g_pos: usize = 0;
            match name_refs.entry(&self.labels[i..]) {
                std::collections::hash_map::Entry::Occupied(e) => {
                    let ghost k0 = e.spec_key();
                    proof {
                        assert(k0@ =~= self.labels@.subrange(i as int, n));
                        assert(labels_view(k0@) =~= lv.subrange(i as int, n));
                        assert(map_b.contains_key(k0) && e.value() == map_b[k0]);
                    }
                    let p = *e.get() as u16;
                    out.write_all(&be2(p | POINTER_MASK_U16))?;
                    proof {
                        assert(name_refs@ == map_b);
                        assert(io_buf(out) =~= m0 + run(lv.subrange(0, i as int)) + enc16(p | 0xC000u16));
                        lemma_ptr_exit(map_b, k0, m0, lv, i as int, p, io_buf(out));
                        assert(io_buf(out).subrange(0, m0.len() as int) =~= m0);
                    }
                    return Ok(());
                }
                std::collections::hash_map::Entry::Vacant(e) => {
                    let ghost k0 = e.spec_key();
                    proof {
                        assert(k0@ =~= self.labels@.subrange(i as int, n));
                        assert(labels_view(k0@) =~= lv.subrange(i as int, n));
                        assert(!map_b.contains_key(k0));
                    }
                    let pos = out.stream_position()? as usize;
                    if pos < 0x4000 {
                        e.insert(pos);
                    }
                    out.write_all(&[label.len() as u8])?;
                    out.write_all(&label.data)?;
                    proof {
                        g_k0 = k0; g_pos = pos;
                        assert(1 <= lv[i as int].len() <= 63);
                        assert(io_buf(out) =~= m + seq![lv[i as int].len() as u8] + lv[i as int]);
                    }
                }
            }
            proof {
                assert(g_pos >= 0x4000 ==> name_refs@ == map_b);
                assert(g_pos < 0x4000 ==> name_refs@ == map_b.insert(g_k0, g_pos));
                lemma_vacant_step(map_b, name_refs@, g_k0, g_pos, g_pos < 0x4000, m0, lv, i as int, m, io_buf(out));
            }
            i += 1;
        }

        let ghost mb = io_buf(out);
        out.write_all(&[0])?;
        proof {
            assert(lv.subrange(0, n) =~= lv);
            assert(io_buf(out) =~= m0 + run(lv) + seq![0u8]);
            lemma_zero_exit(name_refs@, m0, lv, io_buf(out));
            assert(io_buf(out).subrange(0, m0.len() as int) =~= m0);
        }
        Ok(())
    }

    pub fn iter<'a>(&'a self) -> (r: std::slice::Iter<'a, Label>)
        ensures r.obeys_prophetic_iter_laws(), r.remaining() == self.labels@.map(|i: int, x: Label| &x), r.decrease() is Some
    { self.labels.iter() }
}
} // verus!
fn main() {}
