use vstd::prelude::*;
use std::borrow::Cow;
use std::collections::{HashMap, BTreeMap, HashSet};
verus! {
fn c1<'a>(d: &'a [u8]) -> Cow<'a, [u8]> { Cow::Borrowed(d) }
fn c2<'a>(c: Cow<'a, [u8]>) -> Vec<u8> { c.into_owned() }
fn c3<'a>(c: &Cow<'a, [u8]>) -> usize { c.len() }
fn c4(v: Vec<u8>) -> Cow<'static, [u8]> { v.into() }
fn c5<'a>(c: &'a Cow<'a, [u8]>) -> &'a [u8] { &c }
fn c6<'a>(c: &'a Cow<'a, [u8]>) -> &'a [u8] { c.as_ref() }
fn s1(d: &[u8]) -> Option<&u8> { d.first() }
fn s2(d: &[u8]) -> Option<&u8> { d.last() }
fn s3(d: &[u8]) -> bool { d.is_empty() }
fn s4(d: &[u8]) -> Vec<u8> { d.to_vec() }
fn s5(a: &mut [u8; 16], d: &[u8]) requires d.len() == 16 { a.copy_from_slice(d) }
fn s6(a: &[u8], b: &[u8]) -> bool { a.eq_ignore_ascii_case(b) }
fn s7(a: &[u8], b: &[u8]) -> bool { a == b }
fn u1(x: u8) -> bool { x.is_ascii_alphanumeric() }
fn u2(x: u8) -> u8 { u8::from_be(x) }
fn u3(x: u8) -> u8 { x.to_be() }
fn u4(x: u16) -> u32 { x.trailing_zeros() }
fn u5(b: bool) -> u16 { u16::from(b) }
fn u6(x: u16) -> usize { usize::from(x) }
fn u7(x: u16) -> i32 { i32::from(x) }
fn st1(d: &[u8]) -> bool { std::str::from_utf8(d).is_ok() }
fn st2(s: &str) -> &[u8] { s.as_bytes() }
fn st3(v: Vec<u8>) -> bool { String::from_utf8(v).is_ok() }
fn st4(s: &str) -> String { s.to_owned() }
fn m1(x: &mut usize, y: usize) -> usize { std::mem::replace(x, y) }
fn v1(v: &Vec<u8>) -> Option<&u8> { v.last() }
fn v2(v: &mut Vec<u8>, d: &[u8]) { v.extend(d) }
fn v3(v: &mut Vec<u8>, i: usize) -> u8 requires i < old(v).len() { v.remove(i) }
fn v4(v: &mut Vec<u8>) { v.sort() }
fn o1(o: Option<u8>) -> bool { o.is_some_and(|f: u8| f == 1) }
fn o2(o: Option<u8>) -> Option<u16> { o.map(|f: u8| f as u16) }
fn b1(m: &mut BTreeMap<u16, u8>, k: u16, v: u8) { m.insert(k, v); }
fn b2() -> BTreeMap<u16, u8> { BTreeMap::new() }
fn h1() -> HashMap<u16, u8> { HashMap::new() }
fn i1(v: &Vec<u8>) -> bool { v.iter().all(|c: &u8| *c == 1) }
fn i2(v: &Vec<usize>) -> usize { v.iter().sum() }
fn i3(v: &Vec<u8>) -> usize { v.iter().map(|c: &u8| *c as usize).sum::<usize>() }
fn i4(v: &Vec<u8>) -> Option<usize> { v.iter().position(|c: &u8| *c == 1) }
fn i5(v: Vec<u8>) -> Vec<u16> { v.into_iter().map(|c: u8| c as u16).collect() }
fn i6(v: &Vec<u8>) -> Option<&u8> { v.iter().last() }
fn i7(v: &Vec<u8>, w: &Vec<u8>) -> bool { v.iter().rev().zip(w.iter().rev()).all(|p: (&u8, &u8)| *p.0 == *p.1) }
fn i8(v: &Vec<u8>) -> bool { v.iter().skip(1).all(|c: &u8| *c == 1) }
fn ip1(a: u8) -> std::net::Ipv4Addr { std::net::Ipv4Addr::new(a,a,a,a) }
fn e1(x: u16) -> u16 { x.to_be() }
} // verus!
fn main() {}
