use vstd::prelude::*;
use std::fmt::Display;
verus! {
#[verifier::external_type_specification] #[verifier::external_body]
pub struct ExUtf8Error(std::str::Utf8Error);

pub uninterp spec fn valid_utf8(b: Seq<u8>) -> bool;
pub assume_specification<'a> [std::str::from_utf8] (v: &'a [u8]) -> (r: Result<&'a str, std::str::Utf8Error>)
    ensures r is Ok <==> valid_utf8(v@);

pub uninterp spec fn sink_failed(f: &std::fmt::Formatter<'_>) -> bool;
pub assume_specification<'a, 'b> [std::fmt::Formatter::<'a>::write_str] (f: &'b mut std::fmt::Formatter<'a>, s: &str) -> (r: std::fmt::Result)
    ensures r is Err ==> sink_failed(final(f)), sink_failed(old(f)) ==> sink_failed(final(f));

#[verifier::external_body]
pub fn fmt_error() -> std::fmt::Error { std::fmt::Error }

pub struct Label { pub data: Vec<u8> }

impl Display for Label {
    fn fmt(&self, f: &mut std::fmt::Formatter<'_>) -> (r: std::fmt::Result)
        ensures r is Err ==> sink_failed(final(f))
    {
        match std::str::from_utf8(&self.data) {
            Ok(s) => f.write_str(s),
            Err(_) => Err(fmt_error()),
        }
    }
}
} // verus!
fn main() {}
