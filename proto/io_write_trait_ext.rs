use vstd::prelude::*;
verus! {

#[verifier::external_type_specification]
#[verifier::external_body]
pub struct ExIoError(std::io::Error);

#[verifier::external_trait_specification]
#[verifier::external_trait_extension(WriteSpec via WriteSpecImpl)]
pub trait ExWrite {
    type ExternalTraitSpecificationFor: std::io::Write;

    spec fn written(&self) -> Seq<u8>;

    fn write_all(&mut self, buf: &[u8]) -> (r: Result<(), std::io::Error>)
        ensures r is Ok ==> (*final(self)).written() == (*old(self)).written() + buf@;

    fn flush(&mut self) -> (r: Result<(), std::io::Error>)
        ensures (*final(self)).written() == (*old(self)).written();
}

pub enum SimpleDnsError { FailedToWrite }

fn wr<T: std::io::Write>(v: u16, out: &mut T) -> (r: Result<(), SimpleDnsError>)
    ensures r is Ok ==> (*final(out)).written() == (*old(out)).written() + seq![1u8, 2u8]
{
    match out.write_all(&[1u8, 2u8]) { Ok(_) => Ok(()), Err(_) => Err(SimpleDnsError::FailedToWrite) }
}

} // verus!
fn main() {}
