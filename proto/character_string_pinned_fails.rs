use vstd::prelude::*;
verus! {

pub enum SimpleDnsError { InvalidCharacterString, InsufficientData }
pub type Result<T> = std::result::Result<T, SimpleDnsError>;
const MAX_CHARACTER_STRING_LENGTH: usize = 255;

// ---- prelude shim for std::borrow::Cow<'a,[u8]> ----
pub enum Cow<'a, B: ?Sized + 'a + VxToOwned> { Borrowed(&'a B), Owned(B::Owned) }
pub trait VxToOwned { type Owned; }
impl VxToOwned for [u8] { type Owned = Vec<u8>; }

pub open spec fn cow_view(c: Cow<'_, [u8]>) -> Seq<u8> {
    match c { Cow::Borrowed(b) => b@, Cow::Owned(v) => v@ }
}

pub struct CharacterString<'a> {
    pub data: Cow<'a, [u8]>,
}

pub open spec fn cs_dec(data: Seq<u8>, p: int) -> Option<(Seq<u8>, int)> {
    if p < 0 || p >= data.len() { None }
    else if p + 1 + data[p] > data.len() { None }
    else { Some((data.subrange(p + 1, p + 1 + data[p]), p + 1 + data[p])) }
}

impl<'a> CharacterString<'a> {
    fn parse(data: &'a [u8], position: &mut usize) -> (r: crate::Result<Self>)
        requires data.len() <= 65535, *old(position) <= data.len()
        ensures match r {
            Ok(v) => cs_dec(data@, *old(position) as int) == Some((cow_view(v.data), *final(position) as int)),
            Err(_) => cs_dec(data@, *old(position) as int) is None,
        }
    {
        let length = data[*position] as usize;
        if length > MAX_CHARACTER_STRING_LENGTH || length + *position > data.len() {
            return Err(SimpleDnsError::InvalidCharacterString);
        }

        let data = &data[*position + 1..*position + 1 + length];
        *position += length + 1;

        Ok(Self {
            data: Cow::Borrowed(data),
        })
    }
}

} // verus!
fn main() {}
