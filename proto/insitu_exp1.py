import sys; sys.path.insert(0,'/tmp/vx3/tool')
from xf import *
fresh()
PROTO=open('/verif/proto/name_parse_proved.rs').read()
a=PROTO.index("// ---------- RFC 1035 4.1.4 spec decoder ----------"); b=PROTO.index("impl<'a> Name<'a> {\n    fn parse")
SPECFNS=PROTO[a:b]
wr('vx.rs', r'''
#![allow(unused_imports)]
use vstd::prelude::*;
use std::borrow::Cow;
use crate::dns::{Label, Name};
verus!{
#[verifier::external_type_specification] #[verifier::external_body]
pub struct ExTryFromSliceError(std::array::TryFromSliceError);
#[verifier::external_type_specification] #[verifier::external_body]
pub struct ExFromUtf8Error(std::string::FromUtf8Error);
#[verifier::external_type_specification] #[verifier::external_body]
pub struct ExIoError(std::io::Error);

#[verifier::external_trait_specification]
#[verifier::external_trait_extension(WriteSpec via WriteSpecImpl)]
pub trait ExWrite {
    type ExternalTraitSpecificationFor: std::io::Write;
    spec fn written(&self) -> Seq<u8>;
    fn write_all(&mut self, buf: &[u8]) -> (r: std::result::Result<(), std::io::Error>)
        ensures r is Ok ==> (*final(self)).written() == (*old(self)).written() + buf@;
}

pub open spec fn be16(a: u8, b: u8) -> u16 { ((a as u16) << 8 | (b as u16)) }
pub open spec fn be32(a: u8, b: u8, c: u8, d: u8) -> u32 { ((a as u32) << 24 | (b as u32) << 16 | (c as u32) << 8 | (d as u32)) }
pub open spec fn enc16(v: u16) -> Seq<u8> { seq![(v >> 8) as u8, (v & 0xff) as u8] }
pub open spec fn enc32(v: u32) -> Seq<u8> { seq![(v >> 24) as u8, ((v >> 16) & 0xff) as u8, ((v >> 8) & 0xff) as u8, (v & 0xff) as u8] }

#[verifier::external_body]
pub fn be_u16(s: &[u8]) -> (r: std::result::Result<u16, std::array::TryFromSliceError>)
    ensures s.len() == 2 ==> r is Ok && r.unwrap() == be16(s[0], s[1]), s.len() != 2 ==> r is Err,
{ use std::convert::TryInto; Ok(u16::from_be_bytes(s.try_into()?)) }
#[verifier::external_body]
pub fn be_u32(s: &[u8]) -> (r: std::result::Result<u32, std::array::TryFromSliceError>)
    ensures s.len() == 4 ==> r is Ok && r.unwrap() == be32(s[0], s[1], s[2], s[3]), s.len() != 4 ==> r is Err,
{ use std::convert::TryInto; Ok(u32::from_be_bytes(s.try_into()?)) }

pub trait VxToBe: Sized { type Arr; fn vx_to_be_bytes(self) -> Self::Arr; }
impl VxToBe for u16 { type Arr = [u8;2];
  #[verifier::external_body]
  fn vx_to_be_bytes(self) -> (r: [u8;2]) ensures r@ == enc16(self) { self.to_be_bytes() } }
impl VxToBe for u32 { type Arr = [u8;4];
  #[verifier::external_body]
  fn vx_to_be_bytes(self) -> (r: [u8;4]) ensures r@ == enc32(self) { self.to_be_bytes() } }

pub uninterp spec fn cow_owned_rel<B: ?Sized + ToOwned>(c: Cow<B>, r: B::Owned) -> bool;
#[verifier::external_body]
pub broadcast proof fn axiom_cow_owned_bytes(c: Cow<[u8]>, r: Vec<u8>)
    ensures #[trigger] cow_owned_rel::<[u8]>(c, r) ==> r@ == c@ {}
pub assume_specification<'a, B: ?Sized + ToOwned> [std::borrow::Cow::<'a, B>::into_owned] (c: Cow<'a, B>) -> (r: <B as ToOwned>::Owned)
    ensures cow_owned_rel::<B>(c, r);
pub uninterp spec fn cow_deref_rel<B: ?Sized + ToOwned>(c: Cow<B>, r: &B) -> bool;
#[verifier::external_body]
pub broadcast proof fn axiom_cow_deref_bytes(c: Cow<[u8]>, r: &[u8])
    ensures #[trigger] cow_deref_rel::<[u8]>(c, r) ==> r@ == c@ {}
pub assume_specification<'a, 'b, B: ?Sized + ToOwned> [<Cow<'a, B> as std::ops::Deref>::deref] (c: &'b Cow<'a, B>) -> (r: &'b B)
    ensures cow_deref_rel::<B>(*c, r);
pub broadcast group vx_axioms { axiom_cow_deref_bytes, axiom_cow_owned_bytes, axiom_into_bytes_view_slice }
pub uninterp spec fn label_view(l: &Label) -> Seq<u8>;
pub uninterp spec fn into_bytes_view<T>(t: T) -> Seq<u8>;
#[verifier::external_body]
pub broadcast proof fn axiom_into_bytes_view_slice(d: &[u8])
    ensures #[trigger] into_bytes_view(d) == d@ {}
pub assume_specification<'a, T: Into<Cow<'a, [u8]>>> [Label::<'a>::new_unchecked::<T>] (data: T) -> (r: Label<'a>)
    ensures label_view(&r) == into_bytes_view(data);
pub open spec fn labels_view(ls: Seq<Label>) -> Seq<Seq<u8>> { ls.map(|i: int, l: Label| label_view(&l)) }

pub open spec fn name_enc(ls: Seq<Seq<u8>>) -> Seq<u8>
    decreases ls.len()
{
    if ls.len() == 0 { seq![0u8] }
    else { seq![ls[0].len() as u8] + ls[0] + name_enc(ls.subrange(1, ls.len() as int)) }
}
''' + SPECFNS + "}\n")
sub('lib.rs', "mod dns;", "#[allow(unused_imports)]\nuse vstd::prelude::*;\npub(crate) mod vx;\nmod dns;")

# error enum
sub('simple_dns_error.rs', "/// Error types for SimpleDns\n#[derive(Debug, PartialEq, Eq)]", "use vstd::prelude::*;\nverus!{\n/// Error types for SimpleDns\n#[derive(Debug, PartialEq, Eq)]")
sub('simple_dns_error.rs', "impl Error for SimpleDnsError {}", "}\nimpl Error for SimpleDnsError {}")
sub('simple_dns_error.rs', "    fn from(_: TryFromSliceError) -> Self {", "    #[verifier::external_body]\n    fn from(_e: TryFromSliceError) -> Self {")
sub('simple_dns_error.rs', "    fn from(_value: std::io::Error) -> Self {", "    #[verifier::external_body]\n    fn from(_value: std::io::Error) -> Self {")
# consts
sub('dns/mod.rs', "const MAX_LABEL_LENGTH: usize = 63;\nconst MAX_NAME_LENGTH: usize = 255;", "use vstd::prelude::*;\nverus!{\nconst MAX_LABEL_LENGTH: usize = 63;\nconst MAX_NAME_LENGTH: usize = 255;\n}")
# trait
s=rd('dns/wire_format.rs')
s=s.replace("/// Represents anything that can be part of a dns packet","use vstd::prelude::*;\nuse crate::vx::*;\nverus!{\n/// Represents anything that can be part of a dns packet")
s=s.replace("""    fn parse(data: &'a [u8], position: &mut usize) -> crate::Result<Self>
    where
        Self: Sized;""","""    fn parse(data: &'a [u8], position: &mut usize) -> (r: crate::Result<Self>)
    where
        Self: Sized
        requires *old(position) <= data.len(), data.len() <= 65535,
        ensures r is Ok ==> *old(position) <= *final(position) <= data.len();""")
s=s.replace("""    fn write_to<T: Write>(&self, out: &mut T) -> crate::Result<()>;""","""    spec fn wf_enc(&self) -> Seq<u8>;
    fn write_to<T: Write>(&self, out: &mut T) -> (r: crate::Result<()>)
        ensures r is Ok ==> (*final(out)).written() =~= (*old(out)).written() + self.wf_enc();""")
s=s.replace("""    ) -> crate::Result<()> {
        self.write_to(out)
    }""","""    ) -> crate::Result<()> {
        self.write_to(out)
    }""")
s=s.replace("""    fn len(&self) -> usize;""","""    fn len(&self) -> (r: usize)
        ensures r == self.wf_enc().len();""")
s=s.rstrip()+"\n}\n"
wr('dns/wire_format.rs', s)
print(run()[-3000:])
