use vstd::prelude::*;
verus! {
pub struct RR { pub ty: u16 }
impl RR { fn type_code(&self) -> (r: u16) ensures r == self.ty { self.ty } }

pub assume_specification<'a, T, P> [<std::slice::Iter<'a, T> as std::iter::Iterator>::position] (it: &mut std::slice::Iter<'a, T>, pred: P) -> (r: std::option::Option<usize>)
    where P: std::ops::FnMut(<std::slice::Iter<'a, T> as std::iter::Iterator>::Item,) -> bool, std::slice::Iter<'a, T>: std::marker::Sized,
;

fn lift(additional_records: &mut Vec<RR>) -> (r: Option<RR>)
{
    additional_records
        .iter()
        .position(|rr| rr.type_code() == 41)
        .map(|i| additional_records.remove(i))
}
} // verus!
fn main() {}
