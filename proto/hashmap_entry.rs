use vstd::prelude::*;
use std::collections::HashMap;
verus! {

fn f(m: &mut HashMap<u32, usize>, k: u32, pos: usize) -> (r: Option<usize>)
    ensures
        old(m)@.contains_key(k) ==> r == Some(old(m)@[k]) && final(m)@ == old(m)@,
        !old(m)@.contains_key(k) ==> r is None && final(m)@ == old(m)@.insert(k, pos),
{
    match m.entry(k) {
        std::collections::hash_map::Entry::Occupied(e) => { Some(*e.get()) }
        std::collections::hash_map::Entry::Vacant(e) => { e.insert(pos); None }
    }
}

} // verus!
fn main() {}
