import sys; sys.path.insert(0,'/tmp/vx2/tool')
exec(open('/tmp/vx2/tool/exp1.py').read().rsplit("print(run()",1)[0])
# ---- name.rs
sub('dns/name.rs', "const POINTER_MASK: u8", "use vstd::prelude::*;\n#[allow(unused_imports)]\nuse crate::vx::*;\nverus!{\nconst POINTER_MASK: u8")
sub('dns/name.rs', "const POINTER_MASK_U16: u16 = 0b1100_0000_0000_0000;", "const POINTER_MASK_U16: u16 = 0b1100_0000_0000_0000;\n}")
wrap_item('dns/name.rs', "pub struct Name<'a> {")
wrap_item('dns/name.rs', "pub struct Label<'a> {")
rules('dns/name.rs')
wrap_item('dns/name.rs', "impl<'a> WireFormat<'a> for Name<'a> {",
   pre="impl<'a> Name<'a> { pub closed spec fn lv(&self) -> Seq<Seq<u8>> { labels_view(self.labels@) } }\n")
s=rd('dns/name.rs')
s=s.replace("""    fn parse(data: &'a [u8], position: &mut usize) -> crate::Result<Self>
    where
        Self: Sized,
    {
        let mut following_compression_pointer = false;""","""    open spec fn wf_enc(&self) -> Seq<u8> { name_enc(self.lv()) }
    fn parse(data: &'a [u8], position: &mut usize) -> (r: crate::Result<Self>)
    where
        Self: Sized,
        ensures
            match r {
                Ok(n) => dec_labels(data@, *old(position) as int, 0) == Some(n.lv())
                      && *final(position) == *old(position) + inplace_len(data@, *old(position) as int),
                Err(_) => dec_labels(data@, *old(position) as int, 0) is None,
            }
    {
        broadcast use crate::vx::axiom_into_bytes_view_slice;
        let ghost start = *position as int;
        let mut following_compression_pointer = false;""")
s=s.replace("""        loop {
            if *position >= data.len() {""","""        loop
            invariant_except_break
                !following_compression_pointer ==> *position == pointer_position
                    && inplace_len(data@, start) == (*position - start) + inplace_len(data@, *position as int),
                following_compression_pointer ==> *position < data.len() && *position + 1 == start + inplace_len(data@, start),
            invariant
                data.len() <= 65535,
                0 <= start <= data.len(), start == *old(position),
                start <= *position <= data.len(),
                name_size <= 318,
                pointer_position <= data.len(),
                dec_labels(data@, start, 0) == prepend(labels_view(labels@), dec_labels(data@, pointer_position as int, name_size as int)),
            ensures
                *position == start + inplace_len(data@, start),
                dec_labels(data@, start, 0) == Some(labels_view(labels@)),
            decreases 318 - name_size, pointer_position
        {
            if *position >= data.len() {""")
for f in ["    fn write_to<T: std::io::Write>(&self, out: &mut T) -> crate::Result<()> {\n        self.plain_append(out)",
          "    fn write_compressed_to<T: std::io::Write + std::io::Seek>(\n        &'a self,\n        out: &mut T,\n        name_refs: &mut HashMap<&'a [Label<'a>], usize>,\n    ) -> crate::Result<()> {\n        self.compress_append(out, name_refs)",
          "    fn len(&self) -> usize {\n        self.labels\n            .iter()"]:
    assert f in s
    s=s.replace(f, "    #[verifier::external_body]\n"+f)
wr('dns/name.rs', s)
print(run()[-6000:])
