use vstd::prelude::*;
verus! {
pub struct A { pub x: u8 }
pub struct B { pub y: u16 }
impl A { fn len(&self) -> (r: usize) ensures r == 1 { 1 } }
impl B { fn len(&self) -> (r: usize) ensures r == 2 { 2 } }
}
macro_rules! rdata_enum {
    ($($i:tt,)+) => {
        verus!{
        pub enum RData { $( $i($i), )+ Empty(u16) }
        impl RData {
            pub open spec fn spec_len(&self) -> int {
                match self { $( RData::$i(_d) => rd_len_of::<$i>(), )+ RData::Empty(_) => 0 }
            }
            fn len(&self) -> (r: usize)
                ensures r <= 2
            {
                match &self {
                    $( RData::$i(data) => data.len(), )+
                    RData::Empty(_) => 0,
                }
            }
        }
        }
    }
}
verus!{ pub uninterp spec fn rd_len_of<T>() -> int; }
rdata_enum!{ A, B, }
fn main() {}
