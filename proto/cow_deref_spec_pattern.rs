use vstd::prelude::*;
use std::borrow::Cow;
verus! {
pub assume_specification<'a, 'b, B: ?Sized + ToOwned> [<Cow<'a, B> as std::ops::Deref>::deref] (c: &'b Cow<'a, B>) -> (r: &'b B)
    ensures cow_deref_rel::<B>(*c, r);
pub uninterp spec fn cow_deref_rel<B: ?Sized + ToOwned>(c: Cow<B>, r: &B) -> bool;
#[verifier::external_body]
pub broadcast proof fn axiom_cow_deref_bytes(c: Cow<[u8]>, r: &[u8])
    ensures #[trigger] cow_deref_rel::<[u8]>(c, r) ==> r@ == c@ {}

fn f<'a>(c: &'a Cow<'a, [u8]>) -> (r: &'a [u8]) ensures r@ == c@ { broadcast use axiom_cow_deref_bytes; &c }
fn g<'a>(c: &'a Cow<'a, [u8]>) -> (r: usize) ensures r == c@.len() { broadcast use axiom_cow_deref_bytes; c.len() }
} // verus!
fn main() {}
