import sys, re, os; sys.path.insert(0,'/tmp/vx3/tool')
from xf import *
import xf
fresh()
HDR="use vstd::prelude::*;\n#[allow(unused_imports)]\nuse crate::vx::*;\nverus!{ broadcast use crate::vx::vx_axioms; }\n"
PROTO=open('/verif/proto/name_parse_proved.rs').read()
a=PROTO.index("// ---------- RFC 1035 4.1.4 spec decoder ----------"); b=PROTO.index("impl<'a> Name<'a> {\n    fn parse")
SPECFNS=PROTO[a:b]

def be_helper(ty, n):
    idx=', '.join('s[%d]'%i for i in range(n))
    return f'''#[verifier::external_body]
pub fn be_{ty}(s: &[u8]) -> (r: std::result::Result<{ty}, std::array::TryFromSliceError>)
    ensures s.len() == {n} ==> r is Ok && ({n} == 2 ==> r.unwrap() as int == be16(s[0], s[1]) as int), s.len() != {n} ==> r is Err,
{{ use std::convert::TryInto; Ok({ty}::from_be_bytes(s.try_into()?)) }}
'''
wr('vx.rs', r'''
#![allow(unused_imports)]
use vstd::prelude::*;
use std::borrow::Cow;
use crate::dns::{Label, Name};
verus!{
#[verifier::external_type_specification] #[verifier::external_body]
pub struct ExTryFromSliceError(std::array::TryFromSliceError);
#[verifier::external_type_specification] #[verifier::external_body]
pub struct ExFromUtf8Error(std::string::FromUtf8Error);
#[verifier::external_type_specification] #[verifier::external_body]
pub struct ExIoError(std::io::Error);
#[verifier::external_type_specification] #[verifier::external_body]
pub struct ExIpv4Addr(std::net::Ipv4Addr);
#[verifier::external_type_specification] #[verifier::external_body]
pub struct ExIpv6Addr(std::net::Ipv6Addr);
pub assume_specification [std::net::Ipv4Addr::new] (a: u8, b: u8, c: u8, d: u8) -> std::net::Ipv4Addr;
pub assume_specification [<std::net::Ipv6Addr as From<[u8; 16]>>::from] (o: [u8; 16]) -> std::net::Ipv6Addr;
pub assume_specification [u8::from_be] (x: u8) -> (r: u8) ensures r == x;

#[verifier::external_trait_specification]
#[verifier::external_trait_extension(WriteSpec via WriteSpecImpl)]
pub trait ExWrite {
    type ExternalTraitSpecificationFor: std::io::Write;
    spec fn written(&self) -> Seq<u8>;
    fn write_all(&mut self, buf: &[u8]) -> (r: std::result::Result<(), std::io::Error>)
        ensures r is Ok ==> (*final(self)).written() == (*old(self)).written() + buf@;
}
pub open spec fn be16(a: u8, b: u8) -> u16 { ((a as u16) << 8 | (b as u16)) }
''' + be_helper('u8',1)+be_helper('u16',2)+be_helper('u32',4)+be_helper('i32',4)+be_helper('u128',16) + r'''
#[verifier::external_body]
pub fn arr<const N: usize>(s: &[u8]) -> (r: std::result::Result<[u8; N], std::array::TryFromSliceError>)
    ensures s.len() == N ==> r is Ok, s.len() != N ==> r is Err,
{ use std::convert::TryInto; s.try_into() }

#[verifier::external_body]
pub fn arr_be_u16(b: [u8; 2]) -> (r: u16) { u16::from_be_bytes(b) }
#[verifier::external_body]
pub fn arr_be_u32(b: [u8; 4]) -> (r: u32) { u32::from_be_bytes(b) }
#[verifier::external_body]
pub fn arr_be_u64(b: [u8; 8]) -> (r: u64) { u64::from_be_bytes(b) }
pub assume_specification<T, F: FnOnce(T) -> bool> [Option::<T>::is_some_and] (o: Option<T>, f: F) -> (r: bool)
    ensures o is None ==> !r;
pub trait VxToBe: Sized { type Arr; fn vx_to_be_bytes(self) -> Self::Arr; }
impl VxToBe for u8 { type Arr = [u8;1];
  #[verifier::external_body]
  fn vx_to_be_bytes(self) -> (r: [u8;1]) { self.to_be_bytes() } }
impl VxToBe for u16 { type Arr = [u8;2];
  #[verifier::external_body]
  fn vx_to_be_bytes(self) -> (r: [u8;2]) { self.to_be_bytes() } }
impl VxToBe for u32 { type Arr = [u8;4];
  #[verifier::external_body]
  fn vx_to_be_bytes(self) -> (r: [u8;4]) { self.to_be_bytes() } }
impl VxToBe for i32 { type Arr = [u8;4];
  #[verifier::external_body]
  fn vx_to_be_bytes(self) -> (r: [u8;4]) { self.to_be_bytes() } }
impl VxToBe for u64 { type Arr = [u8;8];
  #[verifier::external_body]
  fn vx_to_be_bytes(self) -> (r: [u8;8]) { self.to_be_bytes() } }
impl VxToBe for u128 { type Arr = [u8;16];
  #[verifier::external_body]
  fn vx_to_be_bytes(self) -> (r: [u8;16]) { self.to_be_bytes() } }
pub uninterp spec fn cow_deref_rel<B: ?Sized + ToOwned>(c: Cow<B>, r: &B) -> bool;
#[verifier::external_body]
pub broadcast proof fn axiom_cow_deref_bytes(c: Cow<[u8]>, r: &[u8])
    ensures #[trigger] cow_deref_rel::<[u8]>(c, r) ==> r@ == c@ {}
pub assume_specification<'a, 'b, B: ?Sized + ToOwned> [<Cow<'a, B> as std::ops::Deref>::deref] (c: &'b Cow<'a, B>) -> (r: &'b B)
    ensures cow_deref_rel::<B>(*c, r);
pub uninterp spec fn label_view(l: &Label) -> Seq<u8>;
pub uninterp spec fn into_bytes_view<T>(t: T) -> Seq<u8>;
#[verifier::external_body]
pub broadcast proof fn axiom_into_bytes_view_slice(d: &[u8])
    ensures #[trigger] into_bytes_view(d) == d@ {}
pub assume_specification<'a, T: Into<Cow<'a, [u8]>>> [Label::<'a>::new_unchecked::<T>] (data: T) -> (r: Label<'a>)
    ensures label_view(&r) == into_bytes_view(data);
pub broadcast group vx_axioms { axiom_cow_deref_bytes, axiom_into_bytes_view_slice }
pub open spec fn labels_view(ls: Seq<Label>) -> Seq<Seq<u8>> { ls.map(|i: int, l: Label| label_view(&l)) }
''' + SPECFNS + "}\n")
sub('lib.rs', "mod dns;", "#[allow(unused_imports)]\nuse vstd::prelude::*;\npub(crate) mod vx;\nmod dns;")

# error enum
sub('simple_dns_error.rs', "/// Error types for SimpleDns\n#[derive(Debug, PartialEq, Eq)]", "use vstd::prelude::*;\nverus!{\n/// Error types for SimpleDns\n#[derive(Debug, PartialEq, Eq)]")
sub('simple_dns_error.rs', "impl Error for SimpleDnsError {}", "}\nimpl Error for SimpleDnsError {}")
sub('simple_dns_error.rs', "    fn from(_: TryFromSliceError) -> Self {", "    #[verifier::external_body]\n    fn from(_e: TryFromSliceError) -> Self {")
sub('simple_dns_error.rs', "    fn from(_value: std::io::Error) -> Self {", "    #[verifier::external_body]\n    fn from(_value: std::io::Error) -> Self {")

# dns/mod.rs : consts + enums + conversions
s=rd('dns/mod.rs')
s=s.replace("const MAX_LABEL_LENGTH: usize = 63;", "use vstd::prelude::*;\nverus!{\nconst MAX_LABEL_LENGTH: usize = 63;")
s=s.replace("const MAX_SVC_PARAM_VALUE_LENGTH: usize = 65535;", "const MAX_SVC_PARAM_VALUE_LENGTH: usize = 65535;\n}")
wr('dns/mod.rs', s)
for hdr in ["pub enum QTYPE {","pub enum CLASS {","pub enum QCLASS {","pub enum OPCODE {","pub enum RCODE {",
            "impl From<TYPE> for QTYPE {","impl TryFrom<u16> for QTYPE {","impl TryFrom<u16> for CLASS {","impl From<CLASS> for QCLASS {","impl TryFrom<u16> for QCLASS {"]:
    wrap_item('dns/mod.rs', hdr)

# trait
s=rd('dns/wire_format.rs')
s=s.replace("/// Represents anything that can be part of a dns packet","use vstd::prelude::*;\nuse crate::vx::*;\nverus!{\n/// Represents anything that can be part of a dns packet")
s=s.replace("""    fn parse(data: &'a [u8], position: &mut usize) -> crate::Result<Self>
    where
        Self: Sized;""","""    fn parse(data: &'a [u8], position: &mut usize) -> (r: crate::Result<Self>)
    where
        Self: Sized
        requires *old(position) <= data.len(), data.len() <= 65535,
        ensures r is Ok ==> *old(position) <= *final(position) <= data.len();""")
s=s.replace("pub(crate) trait WireFormat","pub trait WireFormat")
s=s.rstrip()+"\n}\n"
wr('dns/wire_format.rs', s)

def ext_nonparse(p):
    s=rd(p)
    for pat in [r"(\n    fn write_compressed_to<T: std::io::Write \+ std::io::Seek>)"]:
        s=re.sub(pat, lambda m: "\n    #[verifier::external_body]"+m.group(1), s)
    wr(p,s)

def wrap_all(p, extra_headers=()):
    """wrap every pub struct/enum and the WireFormat impls of file p"""
    s=rd(p)
    hdrs=re.findall(r"^pub (?:struct|enum) \w+[^\n]*\{", s, flags=re.M)
    hdrs+=re.findall(r"^impl(?:<'a>)? WireFormat<'a> for [^\n]*\{", s, flags=re.M)
    hdrs+=re.findall(r"^impl(?:<'a>)? RR for [^\n]*\{", s, flags=re.M)
    hdrs+=list(extra_headers)
    for h in hdrs:
        wrap_item(p, h)

# name.rs
sub('dns/name.rs', "const POINTER_MASK: u8", HDR+"verus!{\nconst POINTER_MASK: u8")
sub('dns/name.rs', "const POINTER_MASK_U16: u16 = 0b1100_0000_0000_0000;", "const POINTER_MASK_U16: u16 = 0b1100_0000_0000_0000;\n}")
rules('dns/name.rs')
ext_nonparse('dns/name.rs')
wrap_item('dns/name.rs', "pub struct Name<'a> {")
wrap_item('dns/name.rs', "pub struct Label<'a> {")
wrap_item('dns/name.rs', "impl<'a> WireFormat<'a> for Name<'a> {", pre="impl<'a> Name<'a> { pub closed spec fn lv(&self) -> Seq<Seq<u8>> { labels_view(self.labels@) } }\n")
s=rd('dns/name.rs')
s=s.replace("""    fn parse(data: &'a [u8], position: &mut usize) -> crate::Result<Self>
    where
        Self: Sized,
    {
        let mut following_compression_pointer = false;""","""    fn parse(data: &'a [u8], position: &mut usize) -> (r: crate::Result<Self>)
    where
        Self: Sized,
        ensures
            match r {
                Ok(n) => dec_labels(data@, *old(position) as int, 0) == Some(n.lv())
                      && *final(position) == *old(position) + inplace_len(data@, *old(position) as int),
                Err(_) => dec_labels(data@, *old(position) as int, 0) is None,
            }
    {
        let ghost start = *position as int;
        let mut following_compression_pointer = false;""")
s=s.replace("""        loop {
            if *position >= data.len() {""","""        loop
            invariant_except_break
                !following_compression_pointer ==> *position == pointer_position
                    && inplace_len(data@, start) == (*position - start) + inplace_len(data@, *position as int),
                following_compression_pointer ==> *position < data.len() && *position + 1 == start + inplace_len(data@, start),
            invariant
                data.len() <= 65535,
                0 <= start <= data.len(), start == *old(position),
                start <= *position <= data.len(),
                name_size <= 318,
                pointer_position <= data.len(),
                dec_labels(data@, start, 0) == prepend(labels_view(labels@), dec_labels(data@, pointer_position as int, name_size as int)),
            ensures
                *position == start + inplace_len(data@, start),
                dec_labels(data@, start, 0) == Some(labels_view(labels@)),
            decreases 318 - name_size, pointer_position
        {
            if *position >= data.len() {""")
wr('dns/name.rs', s)

# character_string
sub('dns/character_string.rs', "use super::{WireFormat, MAX_CHARACTER_STRING_LENGTH};", "use super::{WireFormat, MAX_CHARACTER_STRING_LENGTH};\n"+HDR)
rules('dns/character_string.rs'); ext_nonparse('dns/character_string.rs'); wrap_all('dns/character_string.rs')

# rdata files
RD='dns/rdata/'
files=sorted(f for f in os.listdir(os.path.join(xf.DST,'src',RD)) if f.endswith('.rs') and f not in ('mod.rs','macros.rs'))
for f in files:
    p=RD+f
    s=rd(p)
    assert "use super::RR;" in s, f
    wr(p, s.replace("use super::RR;", "use super::RR;\n"+HDR, 1))
    rules(p); ext_nonparse(p); wrap_all(p)

wrap_item('dns/rdata/opt.rs', "pub mod masks {")
s2=rd('dns/rdata/null.rs')
s2=s2.replace("    pub fn get_data(&'_ self)","    #[verifier::external_body]\n    pub fn get_data(&'_ self)").replace("    pub fn into_owned<'b>(self) -> NULL<'b> {","    #[verifier::external_body]\n    pub fn into_owned<'b>(self) -> NULL<'b> {")
wr('dns/rdata/null.rs', s2)
wrap_item('dns/rdata/null.rs', "impl<'a> NULL<'a> {")
sub('dns/rdata/mod.rs', 'use crate::CharacterString;', 'use crate::CharacterString;\nuse vstd::prelude::*;\n#[allow(unused_imports)]\nuse crate::vx::*;')
# macros.rs: TYPE enum
sub('dns/rdata/macros.rs', "        /// Possible TYPE values in DNS Resource Records", "        verus!{\n        /// Possible TYPE values in DNS Resource Records")
sub('dns/rdata/macros.rs', "            NULL,\n            Unknown(u16)\n        }\n", "            NULL,\n            Unknown(u16)\n        }\n        }\n")

INV = "\n            invariant *position <= data.len(), data.len() <= 65535,\n            decreases data.len() - *position,\n        {"
sub('dns/rdata/nsec.rs', "        while data.len() > *position {", "        while data.len() > *position"+INV)
sub('dns/rdata/opt.rs', "        while *position < data.len() {", "        while *position < data.len()"+INV)
sub('dns/rdata/txt.rs', "        while *position < data.len() {", "        while *position < data.len()"+INV)
sub('dns/rdata/svcb.rs', "        while *position < data.len() {", "        while *position < data.len()"+INV)
s3=rd('dns/name.rs')
s3=s3.replace("            if *position >= data.len() {","            broadcast use crate::vx::vx_axioms;\n            if *position >= data.len() {",1)
wr('dns/name.rs', s3)

# ---------------- second stage: macros, question, resource_record, packet::parse_section
wrap_item('dns/rdata/mod.rs', "pub(crate) trait RR {")
m=rd('dns/rdata/macros.rs')
# rr_wrapper: wrap whole expansion
m=m.replace("    (#[doc=$doc:expr] $t:ident: $w:ident = $c:literal) => {\n", "    (#[doc=$doc:expr] $t:ident: $w:ident = $c:literal) => {\n        verus!{\n",1)
m=m.replace("""        impl<'a> std::ops::DerefMut for $t<'a> {
            fn deref_mut(&mut self) -> &mut Self::Target {
                &mut self.0
            }
        }
    };""","""        impl<'a> std::ops::DerefMut for $t<'a> {
            #[verifier::external_body]
            fn deref_mut(&mut self) -> &mut Self::Target {
                &mut self.0
            }
        }
        }
    };""",1)
# rdata_enum: undo the TYPE-only wrapping done in stage one, wrap everything
m=m.replace("        verus!{\n        /// Possible TYPE values in DNS Resource Records","        /// Possible TYPE values in DNS Resource Records")
m=m.replace("            NULL,\n            Unknown(u16)\n        }\n        }\n","            NULL,\n            Unknown(u16)\n        }\n")
m=m.replace("    ($($i:tt$(<$x:lifetime>)?,)+) => {\n","    ($($i:tt$(<$x:lifetime>)?,)+) => {\n        verus!{\n",1)
m=m.replace("""                    v => TYPE::Unknown(v),
                }
            }
        }
    }
}""","""                    v => TYPE::Unknown(v),
                }
            }
        }
        }
    }
}""",1)
for sig in ["            fn write_compressed_to<T: std::io::Write + std::io::Seek>(","            pub fn into_owned<'b>(self) -> RData<'b> {","            pub fn into_owned<'b>(self) -> $t<'b> {"]:
    m=m.replace(sig, "            #[verifier::external_body]\n"+sig)
m=m.replace('            const TYPE_CODE: u16 = $c;','            #[verifier::external_body]\n            const TYPE_CODE: u16 = $c;')
m=m.replace('            fn from(value: u16) -> Self {','            #[verifier::external_body]\n            fn from(value: u16) -> Self {')
wr('dns/rdata/macros.rs', m)
rules('dns/rdata/macros.rs')

# question / resource_record
for p,first in [('dns/question.rs',"use super::{name::Label, Name, WireFormat, QCLASS, QTYPE};"),('dns/resource_record.rs',"use super::{name::Label, rdata::RData, Name, WireFormat, CLASS, TYPE};")]:
    sub(p, first, first+"\n"+HDR)
    rules(p); ext_nonparse(p); wrap_all(p)
wrap_item('dns/resource_record.rs', "mod flag {")
print(run()[-200:])

