use vstd::prelude::*;
verus! {

// ---------- prelude (trusted shims) ----------
#[verifier::external_type_specification]
#[verifier::external_body]
pub struct ExTryFromSliceError(std::array::TryFromSliceError);

pub open spec fn be16(a: u8, b: u8) -> u16 { ((a as u16) << 8 | (b as u16)) }

#[verifier::external_body]
pub fn vx_be_u16(s: &[u8]) -> (r: Result<u16, std::array::TryFromSliceError>)
    ensures s.len() == 2 ==> r is Ok && r.unwrap() == be16(s[0], s[1]),
            s.len() != 2 ==> r is Err,
{
    use std::convert::TryInto;
    Ok(u16::from_be_bytes(s.try_into()?))
}

pub enum SimpleDnsError { InsufficientData, InvalidDnsPacket, InvalidServiceLabel }

impl From<std::array::TryFromSliceError> for SimpleDnsError {
    #[verifier::external_body]
    fn from(_e: std::array::TryFromSliceError) -> Self { Self::InvalidDnsPacket }
}

#[verifier::external_body]
pub struct Label<'a> { data: std::borrow::Cow<'a, [u8]> }

impl<'a> View for Label<'a> {
    type V = Seq<u8>;
    uninterp spec fn view(&self) -> Seq<u8>;
}
impl<'a> Label<'a> {
    #[verifier::external_body]
    pub fn new_unchecked(data: &'a [u8]) -> (r: Self)
        ensures r@ == data@
    { Self { data: data.into() } }
}

pub struct Name<'a> { pub labels: Vec<Label<'a>> }

pub open spec fn labels_view(ls: Seq<Label>) -> Seq<Seq<u8>> { ls.map(|i: int, l: Label| l@) }

const POINTER_MASK: u8 = 0b1100_0000;
const POINTER_MASK_U16: u16 = 0b1100_0000_0000_0000;
const MAX_NAME_LENGTH: usize = 255;
const MAX_LABEL_LENGTH: usize = 63;

// ---------- RFC 1035 4.1.4 spec decoder ----------
pub open spec fn ptr_target(b0: u8, b1: u8) -> int { (be16(b0, b1) & !0xC000u16) as int }

pub open spec fn dec_labels(data: Seq<u8>, p: int, size: int) -> Option<Seq<Seq<u8>>>
    decreases 255 - size, p
{
    if p < 0 || p >= data.len() || size < 0 { None }
    else if size >= 255 { None }
    else {
        let b = data[p];
        if b == 0 { Some(Seq::empty()) }
        else if b & 0xC0 == 0xC0 {
            if p + 2 > data.len() { None } else {
                let t = ptr_target(data[p], data[p + 1]);
                if t >= p { None } else { dec_labels(data, t, size) }
            }
        } else if b > 63 { None }
        else if p + 1 + b > data.len() { None }
        else if size + 1 + b >= 255 { None }
        else {
            match dec_labels(data, p + 1 + b, size + 1 + b) {
                None => None,
                Some(rest) => Some(seq![data.subrange(p + 1, p + 1 + b)] + rest),
            }
        }
    }
}

pub open spec fn inplace_len(data: Seq<u8>, p: int) -> int
    decreases data.len() - p
{
    if p < 0 || p >= data.len() { 0 }
    else {
        let b = data[p];
        if b == 0 { 1 }
        else if b & 0xC0 == 0xC0 { 2 }
        else if p + 1 + b > data.len() { 0 }
        else { 1 + b + inplace_len(data, p + 1 + b) }
    }
}

pub open spec fn prepend(ls: Seq<Seq<u8>>, rest: Option<Seq<Seq<u8>>>) -> Option<Seq<Seq<u8>>> {
    match rest { None => None, Some(r) => Some(ls + r) }
}

impl<'a> Name<'a> {
    fn parse(data: &'a [u8], position: &mut usize) -> (r: Result<Self, SimpleDnsError>)
        requires *old(position) <= data.len(), data.len() <= 65535
        ensures
            match r {
                Ok(n) => dec_labels(data@, *old(position) as int, 0) == Some(labels_view(n.labels@))
                      && *final(position) == *old(position) + inplace_len(data@, *old(position) as int),
                Err(_) => dec_labels(data@, *old(position) as int, 0) is None,
            }
    {
        let mut following_compression_pointer = false;
        let mut labels = Vec::new();

        let mut pointer_position = *position;

        // avoid invalid data caused oom
        let mut name_size = 0usize;
        let ghost start = *position as int;

        loop
            invariant_except_break
                !following_compression_pointer ==> *position == pointer_position
                    && inplace_len(data@, start) == (*position - start) + inplace_len(data@, *position as int),
                following_compression_pointer ==> *position < data.len() && *position + 1 == start + inplace_len(data@, start),
            invariant
                data.len() <= 65535,
                0 <= start <= data.len(), start == *old(position),
                start <= *position <= data.len(),
                name_size <= 318,
                pointer_position <= data.len(),
                dec_labels(data@, start, 0) == prepend(labels_view(labels@), dec_labels(data@, pointer_position as int, name_size as int)),
            ensures
                *position == start + inplace_len(data@, start),
                dec_labels(data@, start, 0) == Some(labels_view(labels@)),
            decreases 318 - name_size, pointer_position
        {
            if *position >= data.len() {
                return Err(crate::SimpleDnsError::InsufficientData);
            }

            // domain name max size is 255
            if name_size >= MAX_NAME_LENGTH {
                return Err(crate::SimpleDnsError::InvalidDnsPacket);
            }

            let vx_scrut = data[pointer_position];
            match vx_scrut {
                0 => {
                    *position += 1;
                    break;
                }
                len if len & POINTER_MASK == POINTER_MASK => {
                    if !following_compression_pointer {
                        *position += 1;
                    }

                    following_compression_pointer = true;
                    if pointer_position + 2 > data.len() {
                        return Err(crate::SimpleDnsError::InsufficientData);
                    }

                    // avoid pointer forward (RFC 1035)
                    let pointer = (vx_be_u16(
                        &data[pointer_position..pointer_position + 2])?
                     & !POINTER_MASK_U16) as usize;
                    if pointer >= pointer_position {
                        return Err(crate::SimpleDnsError::InvalidDnsPacket);
                    }
                    pointer_position = pointer;
                }
                len => {
                    name_size += 1 + len as usize;
                    if pointer_position + 1 + len as usize > data.len() {
                        return Err(crate::SimpleDnsError::InsufficientData);
                    }

                    if len as usize > MAX_LABEL_LENGTH {
                        return Err(crate::SimpleDnsError::InvalidServiceLabel);
                    }

                    // Parsing allow invalid characters in the label.
                    // However, the length of the label must be validated (above)
                    labels.push(Label::new_unchecked(
                        &data[pointer_position + 1..pointer_position + 1 + len as usize],
                    ));

                    if !following_compression_pointer {
                        *position += len as usize + 1;
                    }
                    pointer_position += len as usize + 1;
                }
            }
        }

        Ok(Self { labels })
    }
}

} // verus!
fn main() {}
