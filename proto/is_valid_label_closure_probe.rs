use vstd::prelude::*;
verus! {
const MAX_LABEL_LENGTH: usize = 63;

pub open spec fn alnum(c: u8) -> bool { (48 <= c <= 57) || (65 <= c <= 90) || (97 <= c <= 122) }
pub assume_specification [u8::is_ascii_alphanumeric] (c: &u8) -> (r: bool) ensures r == alnum(*c);

pub open spec fn valid_label(d: Seq<u8>) -> bool {
    1 <= d.len() <= 63
    && (alnum(d[0]) || d[0] == 95)
    && (forall|i: int| 1 <= i < d.len() ==> alnum(#[trigger] d[i]) || d[i] == 45 || d[i] == 95)
    && alnum(d[d.len() - 1])
}

    fn is_valid_label(data: &[u8]) -> (r: bool)
        ensures r == valid_label(data@)
    {
        if data.is_empty() || data.len() > MAX_LABEL_LENGTH {
            return false;
        }

        if let Some(first) = data.first() {
            if !first.is_ascii_alphanumeric() && *first != b'_' {
                return false;
            }
        }

        if !data
            .iter()
            .skip(1)
            .all(|c| c.is_ascii_alphanumeric() || *c == b'-' || *c == b'_')
        {
            return false;
        }

        if let Some(last) = data.last() {
            if !last.is_ascii_alphanumeric() {
                return false;
            }
        }

        true
    }
} // verus!
fn main() {}
