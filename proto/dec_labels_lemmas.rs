use vstd::prelude::*;
verus! {

pub open spec fn be16(a: u8, b: u8) -> u16 { ((a as u16) << 8 | (b as u16)) }
pub open spec fn ptr_target(b0: u8, b1: u8) -> int { (be16(b0, b1) & !0xC000u16) as int }

pub open spec fn dec_labels(data: Seq<u8>, p: int, size: int) -> Option<Seq<Seq<u8>>>
    decreases 255 - size, p
{
    if p < 0 || p >= data.len() || size < 0 { None }
    else if size >= 255 { None }
    else {
        let b = data[p];
        if b == 0 { Some(Seq::empty()) }
        else if b & 0xC0 == 0xC0 {
            if p + 2 > data.len() { None } else {
                let t = ptr_target(data[p], data[p + 1]);
                if t >= p { None } else { dec_labels(data, t, size) }
            }
        } else if b > 63 { None }
        else if p + 1 + b > data.len() { None }
        else if size + 1 + b >= 255 { None }
        else {
            match dec_labels(data, p + 1 + b, size + 1 + b) {
                None => None,
                Some(rest) => Some(seq![data.subrange(p + 1, p + 1 + b)] + rest),
            }
        }
    }
}

/// wire length of the labels without the terminator
pub open spec fn wl(ls: Seq<Seq<u8>>) -> int
    decreases ls.len()
{
    if ls.len() == 0 { 0 } else { 1 + ls[0].len() + wl(ls.subrange(1, ls.len() as int)) }
}

/// length byte + bytes of each label, no terminator
pub open spec fn run(ls: Seq<Seq<u8>>) -> Seq<u8>
    decreases ls.len()
{
    if ls.len() == 0 { Seq::empty() } else { seq![ls[0].len() as u8] + ls[0] + run(ls.subrange(1, ls.len() as int)) }
}

pub open spec fn labels_ok(ls: Seq<Seq<u8>>) -> bool {
    forall|i: int| 0 <= i < ls.len() ==> 1 <= #[trigger] ls[i].len() <= 63
}

pub proof fn lemma_run_len(ls: Seq<Seq<u8>>)
    ensures run(ls).len() == wl(ls), wl(ls) >= 0
    decreases ls.len()
{
    if ls.len() > 0 { lemma_run_len(ls.subrange(1, ls.len() as int)); }
}

/// D: decoding is stable under appending bytes
pub proof fn lemma_append_stable(m: Seq<u8>, x: Seq<u8>, p: int, s: int)
    requires dec_labels(m, p, s) is Some
    ensures dec_labels(m + x, p, s) == dec_labels(m, p, s)
    decreases 255 - s, p
{
    let mx = m + x;
    assert(mx[p] == m[p]);
    let b = m[p];
    if b == 0 {
    } else if b & 0xC0 == 0xC0 {
        assert(mx[p + 1] == m[p + 1]);
        let t = ptr_target(m[p], m[p + 1]);
        lemma_append_stable(m, x, t, s);
    } else {
        lemma_append_stable(m, x, p + 1 + b, s + 1 + b);
        assert(mx.subrange(p + 1, p + 1 + b) =~= m.subrange(p + 1, p + 1 + b));
    }
}

/// C: a larger starting budget is fine as long as the whole name still fits
pub proof fn lemma_budget(m: Seq<u8>, p: int, s: int, s2: int)
    requires dec_labels(m, p, s) is Some, s <= s2, s2 + wl(dec_labels(m, p, s).unwrap()) <= 254
    ensures dec_labels(m, p, s2) == dec_labels(m, p, s)
    decreases 255 - s, p
{
    let b = m[p];
    if b == 0 {
    } else if b & 0xC0 == 0xC0 {
        let t = ptr_target(m[p], m[p + 1]);
        lemma_budget(m, t, s, s2);
    } else {
        let rest = dec_labels(m, p + 1 + b, s + 1 + b).unwrap();
        let l0 = m.subrange(p + 1, p + 1 + b);
        let all = seq![l0] + rest;
        assert(all.subrange(1, all.len() as int) =~= rest);
        assert(all[0] == l0);
        assert(wl(all) == 1 + b + wl(rest));
        lemma_run_len(rest);
        lemma_budget(m, p + 1 + b, s + 1 + b, s2 + 1 + b);
    }
}


/// E: a freshly written run of labels at q, followed by something that decodes to `tail`
pub proof fn lemma_run_decodes(m: Seq<u8>, q: int, ls: Seq<Seq<u8>>, s: int, tail: Seq<Seq<u8>>)
    requires
        0 <= q, 0 <= s, labels_ok(ls),
        q + wl(ls) <= m.len(),
        m.subrange(q, q + wl(ls)) == run(ls),
        s + wl(ls) <= 254,
        dec_labels(m, q + wl(ls), s + wl(ls)) == Some(tail),
    ensures dec_labels(m, q, s) == Some(ls + tail)
    decreases ls.len()
{
    lemma_run_len(ls);
    if ls.len() == 0 {
        assert(ls + tail =~= tail);
    } else {
        let l0 = ls[0];
        let rest = ls.subrange(1, ls.len() as int);
        lemma_run_len(rest);
        let b = l0.len() as u8;
        let r = run(ls);
        assert(r == seq![b] + l0 + run(rest));
        let sub = m.subrange(q, q + wl(ls));
        assert(sub[0] == b);
        assert(m[q] == b);
        assert(1 <= b <= 63);
        assert(b & 0xC0 != 0xC0) by(bit_vector) requires b <= 63;
        assert(m.subrange(q + 1, q + 1 + b) =~= l0) by {
            assert forall|i: int| 0 <= i < b implies m[q + 1 + i] == l0[i] by {
                assert(sub[1 + i] == r[1 + i]);
            }
        }
        assert(m.subrange(q + 1 + b, q + 1 + b + wl(rest)) =~= run(rest)) by {
            assert forall|i: int| 0 <= i < wl(rest) implies m[q + 1 + b + i] == run(rest)[i] by {
                assert(sub[1 + b + i] == r[1 + b + i]);
            }
        }
        assert(labels_ok(rest)) by {
            assert forall|i: int| 0 <= i < rest.len() implies 1 <= #[trigger] rest[i].len() <= 63 by { assert(rest[i] == ls[i + 1]); }
        }
        lemma_run_decodes(m, q + 1 + b, rest, s + 1 + b, tail);
        assert(seq![l0] + (rest + tail) =~= ls + tail);
    }
}
} // verus!
fn main() {}
