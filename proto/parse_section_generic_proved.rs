use vstd::prelude::*;
verus! {
#[derive(Debug)]
pub enum E { X }
pub type Result<T> = std::result::Result<T, E>;
pub trait WireFormat<'a>: Sized {
    spec fn wf_ok(data: Seq<u8>, p0: int, v: &Self, p1: int) -> bool;
    fn parse(data: &'a [u8], position: &mut usize) -> (r: Result<Self>)
        requires *old(position) <= data.len(), data.len() <= 65535,
        ensures r is Ok ==> *old(position) <= *final(position) <= data.len()
             && Self::wf_ok(data@, *old(position) as int, &r.unwrap(), *final(position) as int);
}

pub open spec fn chain<'a, T: WireFormat<'a>>(data: Seq<u8>, p0: int, vs: Seq<T>, p1: int) -> bool
    decreases vs.len()
{
    if vs.len() == 0 { p0 == p1 }
    else { exists|q: int| p0 <= q <= p1 && chain::<T>(data, p0, vs.drop_last(), q) && #[trigger] T::wf_ok(data, q, &vs.last(), p1) }
}

pub struct Packet {}
impl Packet {
    fn parse_section<'a, T: WireFormat<'a>>(
        data: &'a [u8],
        offset: &mut usize,
        items_count: u16,
    ) -> (r: crate::Result<Vec<T>>)
        requires *old(offset) <= data.len(), data.len() <= 65535,
        ensures r is Ok ==> r.unwrap().len() == items_count && *old(offset) <= *final(offset) <= data.len()
                && chain::<T>(data@, *old(offset) as int, r.unwrap()@, *final(offset) as int)
    {
        let mut section_items = Vec::with_capacity(items_count as usize);

        for _ in vx_it: 0..items_count
            invariant
                *offset <= data.len(), data.len() <= 65535, *old(offset) <= *offset,
                section_items.len() == vx_it.index@,
                chain::<T>(data@, *old(offset) as int, section_items@, *offset as int),
        {
            let ghost vx_q = *offset as int;
            let ghost vx_old = section_items@;
            section_items.push(T::parse(data, offset)?);
            proof { assert(section_items@.drop_last() =~= vx_old); assert(T::wf_ok(data@, vx_q, &section_items@.last(), *offset as int)); }
        }

        Ok(section_items)
    }
}
} // verus!
fn main() {}
