#!/usr/bin/env python3
"""prototype in-situ transformer: copy crate, wrap selected regions in verus!{}, splice contracts"""
import re, sys, os, shutil, subprocess
SRC='/repo/simple-dns'; DST='/tmp/vx3/scr'
def fresh():
    shutil.rmtree(DST, ignore_errors=True)
    shutil.copytree(SRC, DST, ignore=shutil.ignore_patterns('target'))
def rd(p): return open(os.path.join(DST,'src',p)).read()
def wr(p,s): open(os.path.join(DST,'src',p),'w').write(s)
def sub(p, old, new, count=1):
    s=rd(p); assert s.count(old)>=1, (p, old[:60]); wr(p, s.replace(old,new,count))
def match_brace(s, i):
    """i at '{' -> index after matching '}' (ignores braces in strings/comments crudely)"""
    d=0; n=len(s); j=i
    while j<n:
        c=s[j]
        if s.startswith('//',j):
            j=s.index('\n',j); continue
        if c=='"':
            j+=1
            while s[j]!='"':
                if s[j]=='\\': j+=1
                j+=1
        elif c=="'" and re.match(r"'(\\.|[^\\'])'", s[j:j+4]):
            j+=len(re.match(r"'(\\.|[^\\'])'", s[j:j+4]).group(0)); continue
        elif c=='{': d+=1
        elif c=='}':
            d-=1
            if d==0: return j+1
        j+=1
    raise Exception('unbalanced')
def wrap_item(p, header, pre='', post=''):
    """wrap the item starting at `header` (incl. preceding attrs/doc lines) up to its closing brace"""
    s=rd(p); i=s.index(header)
    # extend back over attribute / doc lines
    k=i
    while True:
        ls=s.rfind('\n',0,k-1)+1
        line=s[ls:k-1] if k>0 else ''
        if k>0 and (line.strip().startswith('#[') or line.strip().startswith('///')): k=ls
        else: break
    b=s.index('{',i); e=match_brace(s,b)
    wr(p, s[:k]+'verus!{\n'+pre+s[k:e]+'\n'+post+'}\n'+s[e:])
def wrap_lines(p, first, last):
    s=rd(p); i=s.index(first); j=s.index(last,i)+len(last)
    wr(p, s[:i]+'verus!{\n'+s[i:j]+'\n}\n'+s[j:])
def rules(p):
    """R1/R2 rewrites"""
    s=rd(p)
    # R1: uN::from_be_bytes(EXPR.try_into()?)  ->  crate::vx::be_uN(&EXPR)?
    def r1(m):
        ty=m.group(1); start=m.end(); d=1; j=start
        while d:
            if s2[j]=='(':d+=1
            elif s2[j]==')':d-=1
            j+=1
        inner=s2[start:j-1].strip()
        assert inner.endswith('.try_into()?'), inner
        e=inner[:-len('.try_into()?')].strip()
        if e.endswith(','): e=e[:-1]
        return None
    out=[]; pos=0; s2=s
    for m in re.finditer(r'\b([ui](?:8|16|32|64|128))::from_be_bytes\(', s):
        if m.start()<pos: continue
        start=m.end(); d=1; j=start
        while d:
            if s[j]=='(':d+=1
            elif s[j]==')':d-=1
            j+=1
        inner=s[start:j-1].strip().rstrip(',').strip()
        if not inner.endswith('.try_into()?'):
            out.append(s[pos:m.start()]+'crate::vx::arr_be_%s(%s)'%(m.group(1),inner)); pos=j
            continue
        e=inner[:-len('.try_into()?')].strip()
        out.append(s[pos:m.start()]+'crate::vx::be_%s(&%s)?'%(m.group(1),e)); pos=j
    out.append(s[pos:]); s=''.join(out)
    s=re.sub(r'\.to_be_bytes\(\)', '.vx_to_be_bytes()', s)
    # R2: match <index expr> {  -> hoist
    s=re.sub(r'match (data\[[^\]\n]*\]) \{', r'let vx_scrut = \1;\n            match vx_scrut {', s)
    wr(p,s)
def run(extra=()):
    rlib=[f for f in os.listdir('/tmp/vx3/vt/debug/deps') if f.startswith('libbitflags') and f.endswith('.rlib')][0]
    cmd=['verus','--crate-type=lib','src/lib.rs','--multiple-errors','30','--extern','bitflags=/tmp/vx3/vt/debug/deps/'+rlib,'-L','/tmp/vx3/vt/debug/deps',*extra]
    r=subprocess.run(cmd,cwd=DST,capture_output=True,text=True)
    return r.stdout+r.stderr
