import sys; sys.path.insert(0,'/tmp/vx3/tool')
exec(open('/tmp/vx3/tool/exp6.py').read().rsplit("print(run()",1)[0])
HDR="use vstd::prelude::*;\n#[allow(unused_imports)]\nuse crate::vx::*;\nverus!{ broadcast use crate::vx::vx_axioms; }\n"
# ---- DS: u16 u8 u8 tail
rules('dns/rdata/ds.rs')
sub('dns/rdata/ds.rs', "use super::RR;", "use super::RR;\n"+HDR)
wrap_item('dns/rdata/ds.rs', "pub struct DS<'a> {")
wrap_item('dns/rdata/ds.rs', "impl<'a> WireFormat<'a> for DS<'a> {")
wrap_item('dns/rdata/ds.rs', "impl<'a> DS<'a> {")
sub('dns/rdata/ds.rs', """    fn parse(data: &'a [u8], position: &mut usize) -> crate::Result<Self>
    where
        Self: Sized,
    {""", """    open spec fn wf_enc(&self) -> Seq<u8> { enc16(self.key_tag) + seq![self.algorithm, self.digest_type] + self.digest@ }
    fn parse(data: &'a [u8], position: &mut usize) -> (r: crate::Result<Self>)
    where
        Self: Sized,
        ensures r is Ok ==> { let p = *old(position) as int; let v = r.unwrap();
            p + 4 <= data.len() && *final(position) == data.len()
            && v.key_tag == be16(data@[p], data@[p+1]) && v.algorithm == data@[p+2] && v.digest_type == data@[p+3]
            && v.digest@ == data@.subrange(p + 4, data.len() as int) }
    {""")
sub('dns/rdata/ds.rs', """    pub fn into_owned<'b>(self) -> DS<'b> {""", """    pub fn into_owned<'b>(self) -> (r: DS<'b>)
        ensures r.key_tag == self.key_tag, r.algorithm == self.algorithm, r.digest_type == self.digest_type, r.digest@ == self.digest@
    {
        broadcast use crate::vx::axiom_cow_owned_bytes;""")
print(run()[-9000:])
