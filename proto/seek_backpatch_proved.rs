use vstd::prelude::*;
use std::io::{Write, Seek, SeekFrom};
verus! {
#[verifier::external_type_specification] #[verifier::external_body]
pub struct ExIoError(std::io::Error);
#[verifier::external_type_specification]
pub struct ExSeekFrom(std::io::SeekFrom);

pub uninterp spec fn io_buf<T: ?Sized>(t: &T) -> Seq<u8>;
pub uninterp spec fn io_pos<T: ?Sized>(t: &T) -> int;

pub open spec fn overwrite(buf: Seq<u8>, pos: int, b: Seq<u8>) -> Seq<u8> {
    if pos + b.len() >= buf.len() { buf.subrange(0, pos) + b }
    else { buf.subrange(0, pos) + b + buf.subrange(pos + b.len(), buf.len() as int) }
}

#[verifier::external_trait_specification]
pub trait ExWrite {
    type ExternalTraitSpecificationFor: std::io::Write;
    fn write_all(&mut self, b: &[u8]) -> (r: std::result::Result<(), std::io::Error>)
        ensures r is Ok ==> 0 <= io_pos(old(self)) <= io_buf(old(self)).len() ==>
            io_buf(final(self)) == overwrite(io_buf(old(self)), io_pos(old(self)), b@)
            && io_pos(final(self)) == io_pos(old(self)) + b@.len();
}
#[verifier::external_trait_specification]
pub trait ExSeek {
    type ExternalTraitSpecificationFor: std::io::Seek;
    fn seek(&mut self, s: SeekFrom) -> (r: std::result::Result<u64, std::io::Error>)
        ensures r is Ok ==> io_buf(final(self)) == io_buf(old(self)) && (match s {
            SeekFrom::Start(n) => io_pos(final(self)) == n,
            SeekFrom::End(d) => io_pos(final(self)) == io_buf(old(self)).len() + d,
            SeekFrom::Current(d) => io_pos(final(self)) == io_pos(old(self)) + d,
        }) && r.unwrap() == io_pos(final(self));
    fn stream_position(&mut self) -> (r: std::result::Result<u64, std::io::Error>)
        ensures io_buf(final(self)) == io_buf(old(self)), io_pos(final(self)) == io_pos(old(self)),
                r is Ok ==> r.unwrap() == io_pos(old(self));
}

pub enum E { W }
impl From<std::io::Error> for E { #[verifier::external_body] fn from(_e: std::io::Error) -> Self { E::W } }

pub open spec fn enc16(v: u16) -> Seq<u8> { seq![(v >> 8) as u8, (v & 0xff) as u8] }
#[verifier::external_body]
fn be2(v: u16) -> (r: [u8;2]) ensures r@ == enc16(v) { v.to_be_bytes() }

fn body<T: Write + Seek>(out: &mut T, w: &[u8]) -> (r: std::result::Result<(), E>)
    requires io_pos(old(out)) == io_buf(old(out)).len(), io_buf(old(out)).len() + w.len() + 2 <= 65535,
    ensures r is Ok ==> io_buf(final(out)) =~= io_buf(old(out)) + enc16(w.len() as u16) + w@
         && io_pos(final(out)) == io_buf(final(out)).len()
{
        let len_position = out.stream_position()?;
        out.write_all(&[0, 0])?;

        out.write_all(w)?;
        let end = out.stream_position()?;

        out.seek(std::io::SeekFrom::Start(len_position))?;
        out.write_all(&be2((end - len_position - 2) as u16))?;
        out.seek(std::io::SeekFrom::End(0))?;
        Ok(())
}
} // verus!
fn main() {}
