use vstd::prelude::*;
use std::io::{Write, Seek, SeekFrom};
verus! {
#[verifier::external_type_specification] #[verifier::external_body]
pub struct ExIoError(std::io::Error);
#[verifier::external_type_specification]
pub struct ExSeekFrom(std::io::SeekFrom);

pub uninterp spec fn io_buf<T: ?Sized>(t: &T) -> Seq<u8>;
pub uninterp spec fn io_pos<T: ?Sized>(t: &T) -> int;

pub open spec fn overwrite(buf: Seq<u8>, pos: int, b: Seq<u8>) -> Seq<u8> {
    if pos + b.len() >= buf.len() { buf.subrange(0, pos) + b }
    else { buf.subrange(0, pos) + b + buf.subrange(pos + b.len(), buf.len() as int) }
}

#[verifier::external_trait_specification]
pub trait ExWrite {
    type ExternalTraitSpecificationFor: std::io::Write;
    fn write_all(&mut self, b: &[u8]) -> (r: std::result::Result<(), std::io::Error>)
        ensures r is Ok ==> 0 <= io_pos(old(self)) <= io_buf(old(self)).len() ==>
            io_buf(final(self)) == overwrite(io_buf(old(self)), io_pos(old(self)), b@)
            && io_pos(final(self)) == io_pos(old(self)) + b@.len();
}
#[verifier::external_trait_specification]
pub trait ExSeek {
    type ExternalTraitSpecificationFor: std::io::Seek;
    fn seek(&mut self, s: SeekFrom) -> (r: std::result::Result<u64, std::io::Error>)
        ensures r is Ok ==> io_buf(final(self)) == io_buf(old(self)) && (match s {
            SeekFrom::Start(n) => io_pos(final(self)) == n,
            SeekFrom::End(d) => io_pos(final(self)) == io_buf(old(self)).len() + d,
            SeekFrom::Current(d) => io_pos(final(self)) == io_pos(old(self)) + d,
        }) && r.unwrap() == io_pos(final(self));
    fn stream_position(&mut self) -> (r: std::result::Result<u64, std::io::Error>)
        ensures io_buf(final(self)) == io_buf(old(self)), io_pos(final(self)) == io_pos(old(self)),
                r is Ok ==> r.unwrap() == io_pos(old(self));
}

pub enum E { W }
impl From<std::io::Error> for E { #[verifier::external_body] fn from(_e: std::io::Error) -> Self { E::W } }

pub open spec fn enc16(v: u16) -> Seq<u8> { seq![(v >> 8) as u8, (v & 0xff) as u8] }
#[verifier::external_body]
fn be2(v: u16) -> (r: [u8;2]) ensures r@ == enc16(v) { v.to_be_bytes() }


#[derive(PartialEq, Eq, Hash)]
pub struct Label { pub data: Vec<u8> }
impl Label { pub fn len(&self) -> (r: usize) ensures r == self.data@.len() { self.data.len() } }
pub struct Name { pub labels: Vec<Label> }
const POINTER_MASK_U16: u16 = 0b1100_0000_0000_0000;
use std::collections::HashMap;

impl Name {
    pub fn iter<'a>(&'a self) -> (r: std::slice::Iter<'a, Label>) { self.labels.iter() }

    fn compress_append<'a, T: std::io::Write + std::io::Seek>(
        &'a self,
        out: &mut T,
        name_refs: &mut HashMap<&'a [Label], usize>,
    ) -> (r: std::result::Result<(), E>)
    {
        let mut i = 0usize;
        for label in self.iter() {
            match name_refs.entry(&self.labels[i..]) {
                std::collections::hash_map::Entry::Occupied(e) => {
                    let p = *e.get() as u16;
                    out.write_all(&be2(p | POINTER_MASK_U16))?;

                    return Ok(());
                }
                std::collections::hash_map::Entry::Vacant(e) => {
                    e.insert(out.stream_position()? as usize);
                    out.write_all(&[label.len() as u8])?;
                    out.write_all(&label.data)?;
                }
            }
            i += 1;
        }

        out.write_all(&[0])?;
        Ok(())
    }
}
} // verus!
fn main() {}
