#!/bin/bash
# builds the only persistent artefact: bitflags compiled with Verus' pinned toolchain (offline), cached in .cache/
set -e
cd "$(dirname "$0")"
export CARGO_NET_OFFLINE=true
python3 - <<'PY'
import sys; sys.path.insert(0, 'vx'); sys.path.insert(0, 'contracts')
import run_verus
print('bitflags rlib:', run_verus.bitflags_rlib()[0])
PY
mkdir -p evidence/replays
